#!/usr/bin/env python3
"""Regenerates MANIFEST.json from the table below (single source of truth for claims)."""
import json

CLAIMED = {
 # id: (technique, level text, level note, design ref)
}
import importlib.util, os
spec = importlib.util.spec_from_file_location("claims", os.path.join(os.path.dirname(__file__), "claims.py"))
claims = importlib.util.module_from_spec(spec); spec.loader.exec_module(claims)

checks = []
for pid, c in sorted(claims.CLAIMED.items()):
    checks.append({
        "property_id": pid,
        "quick_cmd": f"./check {pid} quick",
        "thorough_cmd": f"./check {pid} thorough",
        "evidence_file": f"/verif/evidence/{pid}.json",
        "replay_cmd_template": "./check --replay {path}",
        "engine": "gosmt",
        "level_claimed": {"category": "model_checking", "text": c["text"], "design_ref": c["design_ref"]},
        "level_note": c["note"],
        "technique": c["technique"],
    })
na = [{"property_id": k, "reason": v} for k, v in sorted(claims.NOT_APPLICABLE.items())]
m = {
 "version": 1,
 "setup_cmd": "cd /verif/engine && GOFLAGS=-mod=mod GOPROXY=off GOSUMDB=off GOTOOLCHAIN=local go build -o /verif/bin/gosmt ./cmd/gosmt",
 "hooks": {
   "guard": "verif",
   "enable": "no file in /repo is changed: harnesses (//go:build verif) and the verifrt package are injected with go/packages Config.Overlay for the encoder and with `go test -tags verif -overlay` for native replay",
   "baseline_off_cmd": "cd /repo && GOFLAGS=-mod=mod GOPROXY=off go test -json -vet=off -count=1 -timeout 25m ./...",
   "source_commits": claims.HOOK_COMMITS,
   "add_only": True,
 },
 "engines": [{"name": "gosmt", "path": "/verif/engine", "serves_properties": sorted(claims.CLAIMED.keys()),
   "kind_free_text": "symbolic executor over go/ssa of /repo's current tree (regenerated every run); scalars are SMT Int/Bool/FP terms, heap shape concrete, strings are concrete-length byte tuples; z3 5.1 primary, z3 4.8.12 and cvc5 1.0 cross-check in the thorough tier; every counterexample is replayed natively before it is reported"}],
 "checks": checks,
 "not_applicable": na,
 "notes": claims.NOTES,
}
json.dump(m, open(os.path.join(os.path.dirname(__file__), "MANIFEST.json"), "w"), indent=1)
print("MANIFEST.json:", len(checks), "checks,", len(na), "not applicable")
