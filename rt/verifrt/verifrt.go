//go:build verif

// Package verifrt holds the harness intrinsics. The symbolic engine intercepts every
// function here by name; this native implementation replays a witness file
// (VERIF_WITNESS) so that a solver assignment becomes an ordinary run of the real code.
package verifrt

import (
	"encoding/json"
	"fmt"
	"math"
	"math/big"
	"os"
	"reflect"
	"sort"
	"strconv"
	"strings"
	"unsafe"

	"github.com/shopspring/decimal"
	"google.golang.org/protobuf/proto"
)

type draw struct {
	Op    string      `json:"op"`
	Label string      `json:"label"`
	N     int         `json:"n"`
	V     interface{} `json:"v"`
	Bytes []int       `json:"bytes"`
}

type witness struct {
	Harness string `json:"harness"`
	Tier    string `json:"tier"`
	Draws   []draw `json:"draws"`
}

// Outcome panics.
type AssertFailed struct{ Label string }
type AssumeRejected struct{}
type Desync struct{ Msg string }
type FrameViolated struct{ What string }

var (
	w      witness
	next   int
	loaded bool
	frames []*frameRec
)

func load() {
	if loaded {
		return
	}
	loaded = true
	p := os.Getenv("VERIF_WITNESS")
	if p == "" {
		panic(Desync{"VERIF_WITNESS not set"})
	}
	data, err := os.ReadFile(p)
	if err != nil {
		panic(Desync{err.Error()})
	}
	if err := json.Unmarshal(data, &w); err != nil {
		panic(Desync{err.Error()})
	}
}

func pop(op string) draw {
	load()
	if next >= len(w.Draws) {
		panic(Desync{fmt.Sprintf("draw %d (%s) beyond witness", next, op)})
	}
	d := w.Draws[next]
	next++
	if d.Op != op {
		panic(Desync{fmt.Sprintf("draw %d: want %s, witness has %s", next-1, op, d.Op)})
	}
	return d
}

func asInt64(v interface{}) int64 {
	switch x := v.(type) {
	case string:
		i, err := strconv.ParseInt(x, 10, 64)
		if err != nil {
			u, err2 := strconv.ParseUint(x, 10, 64)
			if err2 != nil {
				panic(Desync{"bad integer " + x})
			}
			return int64(u)
		}
		return i
	case float64:
		return int64(x)
	case nil:
		return 0
	}
	panic(Desync{fmt.Sprintf("bad integer %v", v)})
}

func NondetBool(label string) bool {
	d := pop("bool")
	b, _ := d.V.(bool)
	return b
}
func NondetInt8(label string) int8     { return int8(asInt64(pop("int8").V)) }
func NondetInt16(label string) int16   { return int16(asInt64(pop("int16").V)) }
func NondetInt32(label string) int32   { return int32(asInt64(pop("int32").V)) }
func NondetInt64(label string) int64   { return asInt64(pop("int64").V) }
func NondetInt(label string) int       { return int(asInt64(pop("int").V)) }
func NondetUint8(label string) uint8   { return uint8(asInt64(pop("uint8").V)) }
func NondetUint16(label string) uint16 { return uint16(asInt64(pop("uint16").V)) }
func NondetUint32(label string) uint32 { return uint32(asInt64(pop("uint32").V)) }
func NondetUint64(label string) uint64 { return uint64(asInt64(pop("uint64").V)) }
func NondetUint(label string) uint     { return uint(asInt64(pop("uint").V)) }

// NondetIntRange draws an int in [lo,hi].
func NondetIntRange(label string, lo, hi int) int {
	v := int(asInt64(pop("int").V))
	if v < lo || v > hi {
		panic(AssumeRejected{})
	}
	return v
}

// NondetFloat64 draws any float64 bit pattern.
func NondetFloat64(label string) float64 {
	d := pop("float64bits")
	s, _ := d.V.(string)
	s = strings.TrimPrefix(s, "0x")
	u, err := strconv.ParseUint(s, 16, 64)
	if err != nil {
		panic(Desync{"bad float bits " + s})
	}
	return math.Float64frombits(u)
}

// NondetString draws a byte string of length 0..maxLen (the engine forks over lengths).
func NondetString(label string, maxLen int) string {
	d := pop("string")
	b := make([]byte, len(d.Bytes))
	for i, x := range d.Bytes {
		b[i] = byte(x)
	}
	return string(b)
}

// NondetStringN draws a byte string of exactly n bytes.
func NondetStringN(label string, n int) string {
	s := NondetString(label, n)
	if len(s) != n {
		panic(AssumeRejected{})
	}
	return s
}

// NondetDecimal draws mantissa·10^-scale with an arbitrary integer mantissa and the given scale.
func NondetDecimal(label string, scale int) decimal.Decimal {
	d := pop("decimal")
	s, _ := d.V.(string)
	return decimal.RequireFromString(s).Shift(int32(-scale))
}

// NondetDecimalDigits is NondetDecimal with |mantissa| < 10^digits (the engine keeps the bound on the term).
func NondetDecimalDigits(label string, scale, digits int) decimal.Decimal {
	d := NondetDecimal(label, scale)
	lim := new(big.Int).Exp(big.NewInt(10), big.NewInt(int64(digits)), nil)
	if new(big.Int).Abs(d.Coefficient()).Cmp(lim) >= 0 {
		panic(AssumeRejected{})
	}
	return d
}

// Tag records a concrete string in the draw sequence (no nondeterminism): known-finding predicates can
// refer to it, e.g. fn == "convertsToQuantity", instead of to an index that shifts when a table grows.
func Tag(label, value string) {
	pop("tag")
}

// Choose is an n-way fork.
func Choose(label string, n int) int {
	d := pop("choose")
	return int(asInt64(d.V))
}

func Assume(c bool) {
	if !c {
		panic(AssumeRejected{})
	}
}

func Assert(c bool, label string) {
	if !c {
		panic(AssertFailed{label})
	}
}

func Reach(label string) {}

// Unwind overrides the loop bound for the rest of the path (engine only).
func Unwind(k int) {}

// SortStrings sorts concrete strings in place (a cheap intrinsic for the engine).
func SortStrings(s []string) { sort.Strings(s) }

// SplitCalendar asks the engine to case-split narrow symbolic years/months and short day-number ranges inside the
// calendar functions (piecewise-linear per month) instead of leaving them to the solver. Natively a no-op.
func SplitCalendar() {}

// ExactFloat asks the engine to relate decimal.InexactFloat64 exactly to the decimal (correctly rounded, one
// fork per binade of the value) instead of returning an unrelated float. Natively a no-op.
func ExactFloat() {}

// IgnorePanics: run-time panics of the code under test are not obligations of this harness (they belong to
// C01/C08); the path is constrained to the non-panicking executions instead.
func IgnorePanics() {}

// Observe exposes a value for translator validation (concolic cross-check).
func Observe(label string, v interface{}) {
	fmt.Printf("VERIF-OBSERVE %s=%s\n", label, Render(v))
}

// Render prints values canonically (must match the engine's rendering).
func Render(v interface{}) string {
	switch x := v.(type) {
	case nil:
		return "nil"
	case bool:
		return strconv.FormatBool(x)
	case string:
		return fmt.Sprintf("s:%x", x)
	case error:
		return "err"
	case fmt.Stringer:
		return fmt.Sprintf("s:%x", x.String())
	}
	rv := reflect.ValueOf(v)
	switch rv.Kind() {
	case reflect.Int, reflect.Int8, reflect.Int16, reflect.Int32, reflect.Int64:
		return strconv.FormatInt(rv.Int(), 10)
	case reflect.Uint, reflect.Uint8, reflect.Uint16, reflect.Uint32, reflect.Uint64:
		return strconv.FormatUint(rv.Uint(), 10)
	case reflect.Bool:
		return strconv.FormatBool(rv.Bool())
	case reflect.String:
		return fmt.Sprintf("s:%x", rv.String())
	case reflect.Float64:
		return fmt.Sprintf("f:%016x", math.Float64bits(rv.Float()))
	case reflect.Slice:
		parts := make([]string, rv.Len())
		for i := range parts {
			parts[i] = Render(rv.Index(i).Interface())
		}
		return "[" + strings.Join(parts, " ") + "]"
	}
	return fmt.Sprintf("?%T", v)
}

// ---- frames (C03/C04): protected regions are snapshotted and compared at the end ----

type frameRec struct {
	what string
	ref  reflect.Value // slice
	snap []interface{}
}

// ProtectSlice marks the backing array of s (including the cells between len and cap) read-only.
func ProtectSlice(what string, s []interface{}) {
	full := s[:cap(s)]
	snap := make([]interface{}, len(full))
	copy(snap, full)
	frames = append(frames, &frameRec{what: what, ref: reflect.ValueOf(full), snap: snap})
}

// Protect marks everything reachable from x read-only (engine); natively slices of any and maps are tracked
// (maps: same key set, and each entry prints the same with %v, which includes function addresses).
func Protect(what string, x interface{}) {
	if s, ok := x.([]interface{}); ok {
		ProtectSlice(what, s)
		return
	}
	if m, ok := x.(proto.Message); ok && m != nil && !reflect.ValueOf(x).IsNil() {
		// a proto message (a FHIR element or resource): compared with a clone of itself
		msgFrames = append(msgFrames, &msgRec{what: what, ref: m, snap: proto.Clone(m)})
		return
	}
	rv := reflect.ValueOf(x)
	if rv.IsValid() && rv.Kind() == reflect.Map {
		snap := map[string]string{}
		for _, k := range rv.MapKeys() {
			snap[fmt.Sprintf("%v", k.Interface())] = fmt.Sprintf("%v", rv.MapIndex(k).Interface())
		}
		mapFrames = append(mapFrames, &mapRec{what: what, ref: rv, snap: snap})
		return
	}
	if rv.IsValid() && rv.Kind() == reflect.Ptr && !rv.IsNil() && rv.Elem().Kind() == reflect.Struct {
		// a tree of structs (a compiled expression): compared by a rendering of everything reachable from it,
		// unexported fields included
		deepFrames = append(deepFrames, &deepRec{what: what, ref: rv, snap: deepRender(rv)})
	}
}

type deepRec struct {
	what string
	ref  reflect.Value
	snap string
}

var deepFrames []*deepRec

// deepRender prints everything reachable from v: pointers are followed (each once), interfaces unwrapped, unexported
// fields read through their address; proto messages are printed by their text form, functions by their address.
func deepRender(v reflect.Value) string {
	var sb strings.Builder
	seen := map[uintptr]bool{}
	var walk func(v reflect.Value, depth int)
	walk = func(v reflect.Value, depth int) {
		if !v.IsValid() {
			sb.WriteString("<invalid>")
			return
		}
		if depth > 40 {
			sb.WriteString("<deep>")
			return
		}
		if v.CanAddr() && !v.CanInterface() {
			v = reflect.NewAt(v.Type(), unsafe.Pointer(v.UnsafeAddr())).Elem() // an unexported field
		}
		if v.CanInterface() {
			if m, ok := v.Interface().(proto.Message); ok && v.Kind() == reflect.Ptr {
				if v.IsNil() {
					sb.WriteString("<nil message>")
				} else {
					fmt.Fprintf(&sb, "%T{%v}", m, m)
				}
				return
			}
		}
		switch v.Kind() {
		case reflect.Ptr:
			if v.IsNil() {
				sb.WriteString("nil")
				return
			}
			if seen[v.Pointer()] {
				sb.WriteString("<seen>")
				return
			}
			seen[v.Pointer()] = true
			sb.WriteString("&")
			walk(v.Elem(), depth+1)
		case reflect.Interface:
			if v.IsNil() {
				sb.WriteString("nil")
				return
			}
			fmt.Fprintf(&sb, "(%s)", v.Elem().Type())
			e := v.Elem()
			if e.Kind() != reflect.Ptr && e.Kind() != reflect.Interface {
				// a non-pointer value inside an interface is not addressable: copy it to read its unexported fields
				c := reflect.New(e.Type()).Elem()
				c.Set(e)
				e = c
			}
			walk(e, depth+1)
		case reflect.Struct:
			sb.WriteString(v.Type().String() + "{")
			for i := 0; i < v.NumField(); i++ {
				sb.WriteString(v.Type().Field(i).Name + ":")
				walk(v.Field(i), depth+1)
				sb.WriteString(" ")
			}
			sb.WriteString("}")
		case reflect.Slice, reflect.Array:
			if v.Kind() == reflect.Slice && v.IsNil() {
				sb.WriteString("nil[]")
				return
			}
			sb.WriteString("[")
			for i := 0; i < v.Len(); i++ {
				walk(v.Index(i), depth+1)
				sb.WriteString(" ")
			}
			sb.WriteString("]")
		case reflect.Map:
			keys := []string{}
			vals := map[string]reflect.Value{}
			for _, k := range v.MapKeys() {
				ks := fmt.Sprintf("%v", k)
				keys = append(keys, ks)
				vals[ks] = v.MapIndex(k)
			}
			sort.Strings(keys)
			sb.WriteString("map[")
			for _, k := range keys {
				sb.WriteString(k + ":")
				e := vals[k]
				if e.Kind() != reflect.Ptr && e.Kind() != reflect.Interface {
					c := reflect.New(e.Type()).Elem()
					c.Set(e)
					e = c
				}
				walk(e, depth+1)
				sb.WriteString(" ")
			}
			sb.WriteString("]")
		case reflect.Func, reflect.Chan, reflect.UnsafePointer:
			fmt.Fprintf(&sb, "%s@%x", v.Kind(), v.Pointer())
		case reflect.Bool:
			fmt.Fprintf(&sb, "%v", v.Bool())
		case reflect.Int, reflect.Int8, reflect.Int16, reflect.Int32, reflect.Int64:
			fmt.Fprintf(&sb, "%d", v.Int())
		case reflect.Uint, reflect.Uint8, reflect.Uint16, reflect.Uint32, reflect.Uint64, reflect.Uintptr:
			fmt.Fprintf(&sb, "%d", v.Uint())
		case reflect.Float32, reflect.Float64:
			fmt.Fprintf(&sb, "%v", v.Float())
		case reflect.String:
			fmt.Fprintf(&sb, "%q", v.String())
		default:
			fmt.Fprintf(&sb, "<%s>", v.Kind())
		}
	}
	walk(v, 0)
	return sb.String()
}

type mapRec struct {
	what string
	ref  reflect.Value
	snap map[string]string
}

var mapFrames []*mapRec

type msgRec struct {
	what      string
	ref, snap proto.Message
}

var msgFrames []*msgRec

// NondetMapOrder makes every later range over a map in the code under test take an arbitrary order (engine: one of
// two, insertion order or its reverse, chosen anew at each range statement); natively Go randomises the order itself.
func NondetMapOrder() {}

// LongRun tells the engine that this harness executes concrete code of large, known cost (the ANTLR recogniser) and
// raises the per-path instruction budget twelvefold; natively a no-op.
func LongRun() {}

// ProtectGlobals marks every package-level variable of the repository (and what it reaches) read-only (engine only;
// natively the harness protects the specific tables it can name with Protect).
func ProtectGlobals() {}

// ClockReads reports how many times the code under test read the wall clock so far (engine); natively -1 (unknown).
func ClockReads() int { return -1 }

// CheckFrames compares the protected regions with their snapshots.
func CheckFrames() {
	for _, m := range msgFrames {
		if !proto.Equal(m.ref, m.snap) {
			panic(FrameViolated{m.what})
		}
	}
	for _, d := range deepFrames {
		if deepRender(d.ref) != d.snap {
			panic(FrameViolated{d.what})
		}
	}
	for _, m := range mapFrames {
		if m.ref.Len() != len(m.snap) {
			panic(FrameViolated{m.what + " (size)"})
		}
		for _, k := range m.ref.MapKeys() {
			ks := fmt.Sprintf("%v", k.Interface())
			if old, ok := m.snap[ks]; !ok || old != fmt.Sprintf("%v", m.ref.MapIndex(k).Interface()) {
				panic(FrameViolated{m.what + "[" + ks + "]"})
			}
		}
	}
	for _, f := range frames {
		for i := 0; i < f.ref.Len(); i++ {
			cur := f.ref.Index(i).Interface()
			if !sameItem(cur, f.snap[i]) {
				panic(FrameViolated{fmt.Sprintf("%s[%d]", f.what, i)})
			}
		}
	}
}

func sameItem(a, b interface{}) bool {
	defer func() { recover() }()
	if a == nil || b == nil {
		return a == nil && b == nil
	}
	ra, rb := reflect.ValueOf(a), reflect.ValueOf(b)
	if ra.Type() != rb.Type() {
		return false
	}
	if ra.Kind() == reflect.Ptr {
		return ra.Pointer() == rb.Pointer()
	}
	return reflect.DeepEqual(a, b)
}

// RunReplay runs one harness under the replay runtime and prints the outcome line.
func RunReplay(name string, f func()) (outcome string) {
	defer func() {
		r := recover()
		switch x := r.(type) {
		case nil:
			outcome = "ok"
		case AssertFailed:
			outcome = "assert label=" + x.Label
		case AssumeRejected:
			outcome = "assume-rejected"
		case Desync:
			outcome = "desync " + x.Msg
		case FrameViolated:
			outcome = "frame " + x.What
		default:
			outcome = fmt.Sprintf("panic %v", r)
		}
		fmt.Printf("VERIF-REPLAY harness=%s outcome=%s\n", name, outcome)
	}()
	f()
	CheckFrames()
	return
}

// Bound selects a harness bound by tier (quick, thorough). Natively the tier recorded in the
// witness is used, so that a replay takes the same branches as the engine did.
func Bound(quick, thorough int) int {
	if Thorough() {
		return thorough
	}
	return quick
}

// Thorough reports whether the thorough tier is running (natively: the tier of the witness).
func Thorough() bool {
	load()
	return w.Tier == "thorough"
}
