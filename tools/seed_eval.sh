#!/bin/sh
# usage: seed_eval.sh <seed id> <property> [<property>...]  -- applies the seeded patch to /repo, runs the quick checks, undoes it
id=$1; shift
cd /verif
git -C /repo diff --quiet || { echo "/repo is dirty"; exit 2; }
git -C /repo apply /verif/seeded/$id/patch.diff || exit 2
for p in "$@"; do
  ./check $p quick > /verif/.work/logs/seed-$id-$p.log 2>&1
  echo "seed $id check $p rc=$? violations=$(grep -c '^VIOLATION' /verif/.work/logs/seed-$id-$p.log) $(grep '^gosmt: .* done' /verif/.work/logs/seed-$id-$p.log | sed 's/.*done in //')"
  grep -A1 '^VIOLATION' /verif/.work/logs/seed-$id-$p.log | grep 'harness=' | sed 's/ native=.*draws=/ draws=/' | cut -c1-260 | head -4
done
git -C /repo checkout -- .
git -C /repo status --short | head -3
