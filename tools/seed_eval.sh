#!/bin/sh
# usage: seed_eval.sh <seed id> <property> [<property>...]  -- applies the seeded patch to /repo, runs the quick checks, undoes it
id=$1; shift
cd /verif
git -C /repo diff --quiet || { echo "/repo is dirty"; exit 2; }
patch=/verif/seeded/$id/patch.diff
[ -f /verif/seeded/$id/patch_adapted_to_current_tree.diff ] && patch=/verif/seeded/$id/patch_adapted_to_current_tree.diff   # later repairs touched the same lines
git -C /repo apply $patch || exit 2
for p in "$@"; do
  cp /verif/evidence/$p.json /verif/.work/evidence-$p.keep 2>/dev/null   # the seeded run must not replace the evidence of the unchanged tree
  ./check $p quick > /verif/.work/logs/seed-$id-$p.log 2>&1
  echo "seed $id check $p rc=$? violations=$(grep -c '^VIOLATION' /verif/.work/logs/seed-$id-$p.log) $(grep '^gosmt: .* done' /verif/.work/logs/seed-$id-$p.log | sed 's/.*done in //')"
  mv /verif/.work/evidence-$p.keep /verif/evidence/$p.json 2>/dev/null
  grep -A1 '^VIOLATION' /verif/.work/logs/seed-$id-$p.log | grep 'harness=' | sed 's/ native=.*draws=/ draws=/' | cut -c1-260 | head -4
done
git -C /repo checkout -- .
git -C /repo status --short | head -3
