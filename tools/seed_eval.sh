#!/bin/sh
# usage: seed_eval.sh <seed id> <property> [<property>...]
# Applies the seeded patch to a scratch worktree of /repo's HEAD (under /tmp, removed afterwards) and runs the quick
# checks against it (GOSMT_REPO_DIR, a development aid: such a run leaves evidence/ and the committed witnesses alone).
# /repo itself is not touched, so a background run that reads it is not disturbed.
id=$1; shift
cd /verif
wt=/tmp/seed-eval-$id
git -C /repo worktree remove --force $wt 2>/dev/null; rm -rf $wt
git -C /repo worktree add -q --detach $wt HEAD || exit 2
patch=/verif/seeded/$id/patch.diff
[ -f /verif/seeded/$id/patch_adapted_to_current_tree.diff ] && patch=/verif/seeded/$id/patch_adapted_to_current_tree.diff   # later repairs touched the same lines
git -C $wt apply $patch || { git -C /repo worktree remove --force $wt; exit 2; }
mkdir -p /verif/.work/logs
for p in "$@"; do
  GOSMT_REPO_DIR=$wt ./check $p quick > /verif/.work/logs/seed-$id-$p.log 2>&1
  echo "seed $id check $p rc=$? violations=$(grep -c '^VIOLATION' /verif/.work/logs/seed-$id-$p.log) $(grep '^gosmt: .* done' /verif/.work/logs/seed-$id-$p.log | sed 's/.*done in //')"
  grep -A1 '^VIOLATION' /verif/.work/logs/seed-$id-$p.log | grep 'harness=' | sed 's/ native=.*draws=/ draws=/' | cut -c1-260 | head -4
done
git -C /repo worktree remove --force $wt; git -C /repo worktree prune
