#!/bin/sh
# usage: seed_confirm.sh <id>   -- confirms in the scratch worktree /tmp/seed/<id> that the seeded change compiles,
# passes the existing suite, and that the demonstration fails with it and passes without it; then files it under /verif/seeded/<id>.
id=$1; wt=/tmp/seed/$id; out=/tmp/seed/$id.out
export GOFLAGS=-mod=mod GOPROXY=off GOSUMDB=off GOTOOLCHAIN=local
demo=$(python3 -c "import json;print(json.load(open('$out/meta.json'))['demo_path'])")
cd $wt || exit 2
git checkout -q -- . ; git clean -fdq   # (no git stash: the stash is shared between worktrees)
git apply $out/patch.diff || { echo "patch does not apply"; exit 2; }
go build ./... || { echo "BUILD FAILS"; exit 2; }
suite=$(go test -vet=off -count=1 ./... 2>&1 | grep -v "no test files" | grep -vc "^ok")
echo "existing suite with change: non-ok lines=$suite"
mkdir -p $(dirname $demo); cp $out/$(basename $demo) $demo
pkg=./$(dirname $demo)
go test -vet=off -count=1 $pkg > /tmp/seed/$id.with.log 2>&1; with=$?
git apply -R $out/patch.diff
go test -vet=off -count=1 $pkg > /tmp/seed/$id.without.log 2>&1; without=$?
echo "demo with change rc=$with (want !=0), without change rc=$without (want 0)"
rm -f $demo
mkdir -p /verif/seeded/$id && cp $out/patch.diff $out/$(basename $demo) $out/meta.json /verif/seeded/$id/
[ "$suite" = "0" ] && [ "$with" != "0" ] && [ "$without" = "0" ] && echo "CONFIRMED $id" || echo "NOT CONFIRMED $id"
