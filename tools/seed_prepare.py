#!/usr/bin/env python3
# usage: seed_prepare.py <suffix> <property> [<property>...]
# Prepares, per property, a scratch worktree /tmp/seed/<prop><suffix> of /repo's HEAD, the author's brief
# /tmp/seed/<prop><suffix>.prompt and /tmp/seed/<prop><suffix>.out/PROPERTY.txt (property text + summaries of every earlier
# seeded change for it, so that the author picks a different mechanism). Nothing of /verif is shown to the author.
import json, os, subprocess, sys, glob
suffix, props = sys.argv[1], sys.argv[2:]
texts = {}
for l in open('/verif/properties.jsonl'):
    d = json.loads(l); texts[d['id']] = d
os.makedirs('/tmp/seed', exist_ok=True)
for p in props:
    sid = p + suffix
    wt = '/tmp/seed/' + sid
    subprocess.run(['git', '-C', '/repo', 'worktree', 'remove', '--force', wt], capture_output=True)
    subprocess.run(['rm', '-rf', wt, wt + '.out'])
    subprocess.run(['git', '-C', '/repo', 'worktree', 'add', '-q', '--detach', wt, 'HEAD'], check=True)
    os.makedirs(wt + '.out', exist_ok=True)
    earlier = []
    for m in sorted(glob.glob('/verif/seeded/%s*/meta.json' % p)):
        d = json.load(open(m))
        earlier.append('- (%s) %s\n  needs: %s' % (os.path.basename(os.path.dirname(m)), d.get('summary', '').strip(), d.get('needs_to_manifest', '').strip()))
    t = texts[p]
    open(wt + '.out/PROPERTY.txt', 'w').write(
        'PROPERTY %s - %s\n\n%s\n\nEARLIER SEEDED CHANGES FOR THIS PROPERTY (do something different: another mechanism, another file or function, another kind of trigger):\n\n%s\n'
        % (p, t.get('title', ''), t.get('statement', t.get('description', '')), '\n\n'.join(earlier) or '(none)'))
    open('/tmp/seed/%s.prompt' % sid, 'w').write(f'''You are helping to evaluate a verification effort for the Go library verily-src/fhirpath-go (a FHIRPath interpreter over google/fhir protos).
You work ONLY in your own scratch git worktree {wt} (a checkout of the library) and write your deliverables to {wt}.out/ .
Do not touch /repo, do not read or touch anything under /verif, do not use `git stash` (the stash is shared between worktrees), do not use the network (there is none).
Every go command needs: export GOFLAGS=-mod=mod GOPROXY=off GOSUMDB=off GOTOOLCHAIN=local

TASK. Read {wt}.out/PROPERTY.txt: it states one semantic property a user relies on, followed by the breaking changes earlier authors already wrote for it.
Write ONE new, small, realistic change to the library's non-test source that BREAKS this property, such that
 (1) the library still compiles (go build ./...),
 (2) the whole existing test suite still passes, unedited (go test -vet=off -count=1 ./...),
 (3) the defect needs something specific to manifest (a particular kind of input, representation, size, order, option or history) - it must not be visible on the most ordinary inputs,
 (4) it looks like something a well-meaning developer could write (a refactoring, an optimisation, a clean-up, a feature tweak with a slip) - no sabotage markers, no comments that give it away,
 (5) it uses a DIFFERENT mechanism, place and trigger than every earlier change listed in PROPERTY.txt.
Also write a demonstration: one Go test file (name it zz_seed_demo_test.go, test names starting with TestSeedDemo) that FAILS with your change applied and PASSES on the original code; say in which package directory it belongs.

DELIVERABLES in {wt}.out/ :
 - patch.diff : `git diff` of your source change only (not the demo test), relative to the worktree root, so that `git apply patch.diff` works on the original tree
 - zz_seed_demo_test.go : the demonstration test
 - meta.json : {{"property": "{p}", "summary": "...what you changed and why it breaks the property...", "needs_to_manifest": "...", "demo_path": "<package dir>/zz_seed_demo_test.go", "demo_run": "<go test command>", "files_changed": [...]}}
Verify all three conditions yourself before you finish (run the full suite with your change and the demo file moved aside; run the demo with the change -> fails; `git apply -R patch.diff`, run the demo -> passes; re-apply). Leave the worktree with the change applied.

ALSO, while you read the code: if you notice behaviour of the ORIGINAL code that already violates or strains this property, confirm it by running it (a throw-away test, deleted afterwards) and list it in your final report, with the exact input and what happened. Do not use such an existing defect as your seeded change. These observations are as valuable as the seed.
Your final message is your report: the change, what it needs to manifest, how you verified the three conditions, the deliverable paths, and the observations about the original code.
''')
    print('prepared', sid)
