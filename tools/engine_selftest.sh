#!/bin/bash
# Translator self-test: harnesses over standard-library helpers (sorting, errors.As, atomics, strings, utf8, bits, fmt)
# whose assertions are true by construction. Expected: violations=0 spurious=0; every sampled path replays natively.
# "C99" is not a property: the evidence file the run writes is removed again.
cd "$(dirname "$0")/.." || exit 2
[ -x bin/gosmt ] || (cd engine && GOFLAGS=-mod=mod GOPROXY=off GOSUMDB=off GOTOOLCHAIN=local go build -o ../bin/gosmt ./cmd/gosmt) || exit 2
bin/gosmt run C99 --tier quick 2>&1 | grep -E "^==|VIOLATION|SPURIOUS|INCONCL|done"
rc=${PIPESTATUS[0]}
rm -f evidence/C99.json evidence/witness/C99-*
exit $rc
