#!/usr/bin/env python3
# usage: add_fixed.py <property> <commit> <what failed>   -- records a repaired defect in known_findings.json (status fixed)
import json, sys
prop, commit, what = sys.argv[1], sys.argv[2], sys.argv[3]
p = '/verif/known_findings.json'
d = json.load(open(p))
fid = 'FIXED-%s-%s' % (prop, commit)
if any(f['id'] == fid for f in d['findings']):
    sys.exit('already recorded: ' + fid)
d['findings'].append({'id': fid, 'property': prop, 'status': 'fixed', 'commit': commit, 'what_fails': what,
                      'fixed': 'fixed: property=%s %s %s' % (prop, commit, what)})
json.dump(d, open(p, 'w'), indent=1, ensure_ascii=False)
open(p, 'a').write('\n')
print(fid)
