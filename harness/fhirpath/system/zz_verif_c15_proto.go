//go:build verif

package system

import (
	"math/big"

	dtpb "github.com/google/fhir/go/proto/google/fhir/proto/r4/core/datatypes_go_proto"
	"github.com/shopspring/decimal"
	"github.com/verily-src/fhirpath-go/internal/verifrt"
)

// C15-L5a: a Decimal survives the conversion to a FHIR decimal element: the element's text re-parses to the same value.
func VerifHarness_C15_DecimalToProto() {
	shapes := [][2]int{{0, 4}, {2, 3}}
	if verifrt.Thorough() {
		shapes = [][2]int{{0, 12}, {2, 9}, {4, 6}, {20, 22}}
	}
	sh := shapes[verifrt.Choose("shape", len(shapes))]
	d := verifrt.NondetDecimalDigits("d", sh[0], sh[1])
	p := Decimal(d).ToProtoDecimal()
	verifrt.Assert(p != nil, "proto-decimal-present")
	back, err := ParseDecimal(p.Value)
	verifrt.Assert(err == nil, "proto-decimal-text-is-a-valid-decimal")
	verifrt.Assert(decimal.Decimal(back).Cmp(d) == 0, "proto-decimal-preserves-the-value")
	// the written scale is the FHIR decimal's precision: 1.10 stays 1.10
	digits := 0
	for i := 0; i < len(p.Value); i++ {
		if p.Value[i] == '.' {
			digits = len(p.Value) - i - 1
		}
	}
	verifrt.Assert(digits == sh[0], "proto-decimal-preserves-the-scale")
	verifrt.Reach("end")
}

// verifZones: timezone spellings a FHIR proto carries, with the offset (seconds east) each denotes.
var verifZones = []struct {
	tz  string
	off int
}{{"", 0}, {"Z", 0}, {"UTC", 0}, {"+00:00", 0}, {"+05:30", 19800}, {"-08:00", -28800}, {"+14:00", 50400}, {"-00:30", -1800}}

// verifOffsetOf reads a canonical "+hh:mm" / "-hh:mm" zone back into seconds; ok=false for any other shape.
func verifOffsetOf(z string) (int, bool) {
	if len(z) != 6 || (z[0] != '+' && z[0] != '-') || z[3] != ':' {
		return 0, false
	}
	for _, i := range []int{1, 2, 4, 5} {
		if z[i] < '0' || z[i] > '9' {
			return 0, false
		}
	}
	v := (int(z[1]-'0')*10+int(z[2]-'0'))*3600 + (int(z[4]-'0')*10+int(z[5]-'0'))*60
	if z[0] == '-' {
		v = -v
	}
	return v, true
}

// verifMicros: an arbitrary instant in microseconds between the years 1 and 9999 - what a FHIR date can say, far
// beyond the +-292 years a nanosecond count holds (the conversions are offset arithmetic on the count; no calendar
// computation is involved).
func verifMicros(label string) int64 {
	s := int64(verifrt.NondetIntRange(label+".s", -62135596800, 253402300799))
	return s*1000000 + int64(verifrt.NondetIntRange(label+".us", 0, 999999))
}

// verifMod is the non-negative remainder.
func verifMod(a, m int64) int64 { return (a%m + m) % m }

// C15-L5b: proto Date -> System Date -> proto Date keeps the instant, the precision and the offset, for every
// precision enum value and zone spelling.
func VerifHarness_C15_DateProtoRoundTrip() {
	precs := []dtpb.Date_Precision{dtpb.Date_YEAR, dtpb.Date_MONTH, dtpb.Date_DAY}
	p := precs[verifrt.Choose("precision", len(precs))]
	z := verifZones[verifrt.Choose("zone", len(verifZones))]
	us := verifMicros("t")
	d, err := DateFromProto(&dtpb.Date{ValueUs: us, Timezone: z.tz, Precision: p})
	verifrt.Assert(err == nil, "valid-zone-accepted")
	back := d.ToProtoDate()
	verifrt.Assert(back.ValueUs == us, "date-instant-preserved")
	verifrt.Assert(back.Precision == p, "date-precision-preserved")
	off, ok := verifOffsetOf(back.Timezone)
	verifrt.Assert(ok && off == z.off, "date-offset-preserved")
	verifrt.Reach("end")
}

// C15-L5c: the same for DateTime; MICROSECOND is documented to come back as MILLISECOND (System.DateTime's finest).
func VerifHarness_C15_DateTimeProtoRoundTrip() {
	precs := []dtpb.DateTime_Precision{dtpb.DateTime_YEAR, dtpb.DateTime_MONTH, dtpb.DateTime_DAY, dtpb.DateTime_SECOND, dtpb.DateTime_MILLISECOND, dtpb.DateTime_MICROSECOND}
	p := precs[verifrt.Choose("precision", len(precs))]
	z := verifZones[verifrt.Choose("zone", len(verifZones))]
	us := verifMicros("t")
	d, err := DateTimeFromProto(&dtpb.DateTime{ValueUs: us, Timezone: z.tz, Precision: p})
	verifrt.Assert(err == nil, "valid-zone-accepted")
	back := d.ToProtoDateTime()
	want, wantUs := p, us
	switch p {
	case dtpb.DateTime_MICROSECOND:
		// System.DateTime's finest precision is the millisecond: finer digits are dropped, not hidden
		want, wantUs = dtpb.DateTime_MILLISECOND, us-verifMod(us, 1000)
	case dtpb.DateTime_MILLISECOND:
		wantUs = us - verifMod(us, 1000)
	case dtpb.DateTime_SECOND:
		wantUs = us - verifMod(us, 1000000)
	}
	verifrt.Assert(back.ValueUs == wantUs, "datetime-instant-preserved")
	verifrt.Assert(back.Precision == want, "datetime-precision-preserved")
	off, ok := verifOffsetOf(back.Timezone)
	verifrt.Assert(ok && off == z.off, "datetime-offset-preserved")
	verifrt.Reach("end")
}

// C15-L5d: proto Time -> System Time -> proto Time for every time of day and precision.
func VerifHarness_C15_TimeProtoRoundTrip() {
	precs := []dtpb.Time_Precision{dtpb.Time_SECOND, dtpb.Time_MILLISECOND, dtpb.Time_MICROSECOND}
	p := precs[verifrt.Choose("precision", len(precs))]
	us := int64(verifrt.NondetIntRange("s", 0, 86399))*1000000 + int64(verifrt.NondetIntRange("us", 0, 999999))
	t := TimeFromProto(&dtpb.Time{ValueUs: us, Precision: p})
	back := t.ToProtoTime()
	want, wantUs := p, us
	switch p {
	case dtpb.Time_MICROSECOND:
		want, wantUs = dtpb.Time_MILLISECOND, us-us%1000
	case dtpb.Time_MILLISECOND:
		wantUs = us - us%1000
	default:
		wantUs = us - us%1000000
	}
	verifrt.Assert(back.ValueUs == wantUs, "time-of-day-preserved")
	verifrt.Assert(back.Precision == want, "time-precision-preserved")
	verifrt.Reach("end")
}

// C15-L5e: Integer and Quantity conversions.
func VerifHarness_C15_IntegerQuantityToProto() {
	i := verifrt.NondetInt32("i")
	verifrt.Assert(Integer(i).ToProtoInteger().GetValue() == i, "integer-preserved")
	d := verifrt.NondetDecimalDigits("d", verifrt.Choose("scale", 2), verifrt.Bound(3, 6))
	unit := []string{"", "mg", "year"}[verifrt.Choose("unit", 3)]
	q := Quantity{Decimal(d), unit}.ToProtoQuantity()
	back, err := ParseDecimal(q.GetValue().GetValue())
	verifrt.Assert(err == nil && decimal.Decimal(back).Cmp(d) == 0, "quantity-value-preserved")
	verifrt.Assert(q.GetUnit().GetValue() == unit, "quantity-unit-preserved")
	// and back: the element converts to the Quantity it was made from
	again, err2 := From(q)
	ok := err2 == nil
	if ok {
		eq, has := TryEqual(again, Quantity{Decimal(d), unit})
		ok = eq && has
	}
	verifrt.Assert(ok, "quantity-survives-the-round-trip-through-its-element")
	verifrt.Reach("end")
}

var _ = big.NewInt

// C15-L5e: a System DateTime of every precision a literal can have - the hour and minute precisions included, which a
// FHIR dateTime cannot express - becomes a valid element: its precision is one of the enum's, it denotes the literal's
// instant, and reading it back gives a value with a rendering (the element hides no broken state).
func VerifHarness_C15_DateTimeOfEveryPrecisionToProto() {
	hh, mi := verifrt.NondetIntRange("hour", 0, 23), verifrt.NondetIntRange("minute", 0, 59)
	two := func(v int) string { return string([]byte{byte('0' + v/10), byte('0' + v%10)}) }
	zone := []string{"", "Z", "+02:00"}[verifrt.Choose("zone", 3)]
	var text string
	wantSec := int64(1577923200) // 2020-01-02T00:00:00Z
	switch verifrt.Choose("precision", 7) {
	case 0:
		text, wantSec, zone = "2020T", 1577836800, ""
	case 1:
		text, wantSec, zone = "2020-01T", 1577836800, ""
	case 2:
		text, zone = "2020-01-02T", ""
	case 3:
		text, wantSec = "2020-01-02T"+two(hh)+zone, wantSec+int64(hh)*3600
	case 4:
		text, wantSec = "2020-01-02T"+two(hh)+":"+two(mi)+zone, wantSec+int64(hh)*3600+int64(mi)*60
	case 5:
		text, wantSec = "2020-01-02T"+two(hh)+":"+two(mi)+":07"+zone, wantSec+int64(hh)*3600+int64(mi)*60+7
	default:
		text, wantSec = "2020-01-02T"+two(hh)+":"+two(mi)+":07.000"+zone, wantSec+int64(hh)*3600+int64(mi)*60+7
	}
	if zone == "+02:00" {
		wantSec -= 7200
	}
	d, err := ParseDateTime(text)
	verifrt.Assert(err == nil, "literal-of-this-precision-is-accepted")
	if err != nil {
		return
	}
	e := d.ToProtoDateTime()
	verifrt.Assert(e.Precision != dtpb.DateTime_PRECISION_UNSPECIFIED, "element-has-a-precision")
	verifrt.Assert(e.ValueUs == wantSec*1000000, "element-denotes-the-literal-instant")
	back, err2 := DateTimeFromProto(e)
	verifrt.Assert(err2 == nil && len(back.String()) >= 4, "element-reads-back-as-a-value-with-a-rendering")
	verifrt.Reach("end")
}
