//go:build verif

package system

import (
	dtpb "github.com/google/fhir/go/proto/google/fhir/proto/r4/core/datatypes_go_proto"
	"time"

	"github.com/verily-src/fhirpath-go/internal/verifrt"
)

var verifDateLayouts = []layout{yearLayout, monthLayout, dayLayout}
var verifTimeLayouts = []layout{hourLayout, minuteLayout, secondLayout, millisecondLayout}
var verifDTLayouts = []layout{dtYearLayout, dtMonthLayout, dtDayLayout, dtHourLayout, dtMinuteLayout, dtSecondLayout, dtMillisecondLayout,
	dtHourLayoutTZ, dtMinuteLayoutTZ, dtSecondLayoutTZ, dtMillisecondLayoutTZ}

// precision rank of a DateTime layout: 0 year .. 5 second, 6 millisecond
func verifDTRank(i int) int {
	if i >= 7 {
		return i - 4
	}
	return i
}

// verifCivil holds the civil fields a temporal value was built from (the reference model reads these).
type verifCivil struct {
	y, mo, d, h, mi, s, ms int
	rank                   int // number of significant components - 1 (date: 0..2, time: 0..3 (3 = ms), datetime: 0..6)
	offMin                 int // offset east of UTC in minutes (datetime only)
}

func verifDaysIn(y, m int) int {
	d := 31
	if m == 4 || m == 6 || m == 9 || m == 11 {
		d = 30
	}
	if m == 2 {
		d = 28
	}
	if m == 2 && y%4 == 0 && (y%100 != 0 || y%400 == 0) {
		d = 29
	}
	return d
}

// verifSplitYM: when set, year and month are case-split by the engine (Choose) instead of being left to the
// solver; day, time of day and amounts stay symbolic. Used by the C09 calendar harnesses (DESIGN P6: the
// fully symbolic calendar is beyond all three solvers at this size).
var verifSplitYM bool

func verifYear(label string) int {
	if verifSplitYM {
		return verifCalYearLo() + verifrt.Choose(label, 2024-verifCalYearLo()+1)
	}
	return verifrt.NondetIntRange(label, verifYearLo(), 2024)
}

func verifMonth(label string) int {
	if verifSplitYM {
		return 1 + verifrt.Choose(label, 12)
	}
	return verifrt.NondetIntRange(label, 1, 12)
}

// verifDate draws a Date in the window 2019..2024 with an arbitrary precision; fields below the precision are at their minimum.
func verifDate(label string) (Date, verifCivil) { return verifDateSrc(label, false) }

// verifDateSrc: with elements, the Date may also come from a FHIR date element read in some default time zone
// (google/fhir's unmarshaller stores the local midnight and that zone in the proto).
func verifDateSrc(label string, elements bool) (Date, verifCivil) {
	li := verifrt.Choose(label+".layout", 3)
	c := verifCivil{y: verifYear(label + ".y"), mo: 1, d: 1, rank: li}
	if li >= 1 {
		c.mo = verifMonth(label + ".mo")
	}
	if li >= 2 {
		c.d = verifrt.NondetIntRange(label+".d", 1, 31)
		verifrt.Assume(c.d <= verifDaysIn(c.y, c.mo))
	}
	if elements && verifrt.NondetBool(label+".fromElement") {
		zones := []struct {
			tz  string
			off int
		}{{"", 0}, {"+05:00", 18000}, {"-08:00", -28800}}
		z := zones[verifrt.Choose(label+".zone", len(zones))]
		us := time.Date(c.y, time.Month(c.mo), c.d, 0, 0, 0, 0, time.FixedZone("", z.off)).UnixMicro()
		d, err := DateFromProto(&dtpb.Date{ValueUs: us, Timezone: z.tz, Precision: []dtpb.Date_Precision{dtpb.Date_YEAR, dtpb.Date_MONTH, dtpb.Date_DAY}[li]})
		verifrt.Assume(err == nil)
		return d, c
	}
	return Date{time.Date(c.y, time.Month(c.mo), c.d, 0, 0, 0, 0, time.UTC), verifDateLayouts[li]}, c
}

// verifTime draws a Time of day with an arbitrary precision.
func verifTime(label string) (Time, verifCivil) { return verifTimeSrc(label, false) }

// verifTimeSrc: with elements, a second- or millisecond-precision Time may also come from a FHIR time element.
func verifTimeSrc(label string, elements bool) (Time, verifCivil) {
	li := verifrt.Choose(label+".layout", 4)
	c := verifCivil{h: verifrt.NondetIntRange(label+".h", 0, 23), rank: li}
	if li >= 1 {
		c.mi = verifrt.NondetIntRange(label+".mi", 0, 59)
	}
	if li >= 2 {
		c.s = verifrt.NondetIntRange(label+".s", 0, 59)
	}
	if li >= 3 {
		c.ms = verifrt.NondetIntRange(label+".ms", 0, 999)
	}
	if elements && li >= 2 && verifrt.NondetBool(label+".fromElement") {
		// the way a FHIR time element enters an evaluation (system.From -> TimeFromProto)
		p := dtpb.Time_SECOND
		if li == 3 {
			p = dtpb.Time_MILLISECOND
		}
		return TimeFromProto(&dtpb.Time{ValueUs: (int64(c.h)*3600+int64(c.mi)*60+int64(c.s))*1000000 + int64(c.ms)*1000, Precision: p}), c
	}
	return Time{time.Date(0, 1, 1, c.h, c.mi, c.s, c.ms*1000000, time.UTC), verifTimeLayouts[li]}, c
}

// verifDateTime draws a DateTime (window 2019..2024); withOffset adds a fixed offset of whole minutes in (-14h, +14h).
func verifDateTime(label string, withOffset bool) (DateTime, verifCivil) {
	return verifDateTimeL(label, withOffset, verifrt.Choose(label+".layout", len(verifDTLayouts)))
}

// verifDateTimeL: as verifDateTime with the layout index fixed.
func verifDateTimeL(label string, withOffset bool, li int) (DateTime, verifCivil) {
	rank := verifDTRank(li)
	c := verifCivil{y: verifYear(label + ".y"), mo: 1, d: 1, rank: rank}
	if rank >= 1 {
		c.mo = verifMonth(label + ".mo")
	}
	if rank >= 2 {
		c.d = verifrt.NondetIntRange(label+".d", 1, 31)
		verifrt.Assume(c.d <= verifDaysIn(c.y, c.mo))
	}
	if rank >= 3 {
		c.h = verifrt.NondetIntRange(label+".h", 0, 23)
	}
	if rank >= 4 {
		c.mi = verifrt.NondetIntRange(label+".mi", 0, 59)
	}
	if rank >= 5 {
		c.s = verifrt.NondetIntRange(label+".s", 0, 59)
	}
	if rank >= 6 {
		c.ms = verifrt.NondetIntRange(label+".ms", 0, 999)
	}
	loc := time.UTC
	if withOffset && li >= 7 {
		c.offMin = verifrt.NondetIntRange(label+".offMin", -839, 839)
		loc = time.FixedZone("", c.offMin*60)
	}
	return DateTime{time.Date(c.y, time.Month(c.mo), c.d, c.h, c.mi, c.s, c.ms*1000000, loc), verifDTLayouts[li]}, c
}

// comps lists the components compared by FHIRPath (seconds and milliseconds are one component).
func (c verifCivil) comps(kind string) []int {
	switch kind {
	case "date":
		return []int{c.y, c.mo, c.d}
	case "time":
		return []int{c.h, c.mi, c.s*1000 + c.ms}
	}
	return []int{c.y, c.mo, c.d, c.h, c.mi, c.s*1000 + c.ms}
}

// number of comparison components for a precision rank
func verifNComps(kind string, rank int) int {
	n := rank + 1
	switch kind {
	case "time":
		if n > 3 {
			n = 3
		}
	case "datetime":
		if n > 6 {
			n = 6
		}
	}
	return n
}

// verifCompare is the reference: -1/0/+1 on the first differing shared component; defined=false when all shared
// components are equal but the precisions differ.
func verifCompare(kind string, a, b verifCivil) (cmp int, defined bool) {
	ca, cb := a.comps(kind), b.comps(kind)
	na, nb := verifNComps(kind, a.rank), verifNComps(kind, b.rank)
	n := na
	if nb < n {
		n = nb
	}
	for i := 0; i < n; i++ {
		if ca[i] < cb[i] {
			return -1, true
		}
		if ca[i] > cb[i] {
			return 1, true
		}
	}
	return 0, na == nb
}

// decimalCoefficient returns the mantissa of a Decimal (as int64; harness values are small).
func decimalCoefficient(d Decimal) int64 {
	return decimalOf(d).Coefficient().Int64()
}

// verifYearLo: the calendar window is 2023..2024 in the quick tier and 2019..2024 in the thorough tier.
func verifYearLo() int { return 2024 + 1 - verifrt.Bound(2, 6) }

// verifCalYearLo: window of the case-split calendar harnesses (C09-B): 2024 only in the quick tier (a leap year), 2019..2024 thorough.
func verifCalYearLo() int { return 2024 + 1 - verifrt.Bound(1, 6) }
