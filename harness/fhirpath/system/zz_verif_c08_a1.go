//go:build verif

package system

import (
	"errors"
	"math"

	"github.com/verily-src/fhirpath-go/internal/verifrt"
)

// C08-A1: Integer.Add/Sub/Mul are exact when representable and report overflow otherwise (full width).
func VerifHarness_C08_IntegerAdd() {
	a, b := Integer(verifrt.NondetInt32("a")), Integer(verifrt.NondetInt32("b"))
	r, err := a.Add(b)
	wide := int64(a) + int64(b)
	if wide >= math.MinInt32 && wide <= math.MaxInt32 {
		verifrt.Assert(err == nil && int64(r) == wide, "add-exact-when-representable")
	} else {
		verifrt.Assert(errors.Is(err, ErrIntOverflow), "add-overflow-reported")
	}
	verifrt.Reach("end")
}

func VerifHarness_C08_IntegerSub() {
	a, b := Integer(verifrt.NondetInt32("a")), Integer(verifrt.NondetInt32("b"))
	r, err := a.Sub(b)
	wide := int64(a) - int64(b)
	if wide >= math.MinInt32 && wide <= math.MaxInt32 {
		verifrt.Assert(err == nil && int64(r) == wide, "sub-exact-when-representable")
	} else {
		verifrt.Assert(errors.Is(err, ErrIntOverflow), "sub-overflow-reported")
	}
	verifrt.Reach("end")
}

func VerifHarness_C08_IntegerMul() {
	a, b := Integer(verifrt.NondetInt32("a")), Integer(verifrt.NondetInt32("b"))
	r, err := a.Mul(b)
	wide := int64(a) * int64(b)
	if wide >= math.MinInt32 && wide <= math.MaxInt32 {
		verifrt.Assert(err == nil && int64(r) == wide, "mul-exact-when-representable")
	} else {
		verifrt.Assert(errors.Is(err, ErrIntOverflow), "mul-overflow-reported")
	}
	verifrt.Reach("end")
}
