//go:build verif

package system

import "github.com/verily-src/fhirpath-go/internal/verifrt"

// C01: ParseString (run by Compile on every string literal) returns a value or an error for every body the lexer lets
// through - including a lone backslash followed by anything, a \u followed by non-hex characters, and escapes cut short
// by the end of the literal. Termination: every loop iteration in the decoder must consume input (unwinding bound).
func VerifHarness_C01_ParseStringTotal() {
	var body string
	switch verifrt.Choose("shape", 3) {
	case 0:
		body = verifrt.NondetString("s", verifrt.Bound(3, 6))
	case 1: // a \u escape whose four digits are arbitrary characters, with text around it
		body = verifrt.NondetString("pre", verifrt.Bound(0, 1)) + "\\u" + verifrt.NondetStringN("digits", 4) + verifrt.NondetString("post", verifrt.Bound(1, 2))
	default: // two escapes back to back, the second possibly cut short
		body = "\\" + verifrt.NondetStringN("e1", 1) + "\\u" + verifrt.NondetString("tail", verifrt.Bound(3, 5))
	}
	s, err := ParseString("'" + body + "'")
	verifrt.Assert(err != nil || len(s) <= len(body)+2, "decoded-text-is-not-longer-than-the-literal")
	verifrt.Reach("end")
}
