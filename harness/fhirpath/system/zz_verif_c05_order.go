//go:build verif

package system

import (
	"math/big"
	"time"

	dtpb "github.com/google/fhir/go/proto/google/fhir/proto/r4/core/datatypes_go_proto"
	"errors"

	"github.com/verily-src/fhirpath-go/internal/verifrt"
)

// verifCheckPair: TryEqual and Less (both directions) against the reference comparison.
func verifCheckPair(a, b Any, cmp int, defined bool) {
	eq, has := TryEqual(a, b)
	eq2, has2 := TryEqual(b, a)
	verifrt.Assert(has == defined && has2 == defined, "equality-defined-exactly-when-reference-is")
	if defined {
		verifrt.Assert(eq == (cmp == 0) && eq2 == (cmp == 0), "equality-matches-reference-and-is-symmetric")
	}
	lt, err := a.Less(b)
	gt, err2 := b.Less(a)
	if defined {
		verifrt.Assert(err == nil && err2 == nil && bool(lt) == (cmp < 0) && bool(gt) == (cmp > 0), "ordering-matches-reference")
	} else {
		verifrt.Assert(errors.Is(err, ErrMismatchedPrecision) && errors.Is(err2, ErrMismatchedPrecision), "ordering-undefined-on-precision-mismatch")
	}
}

// C05-E1 Date x Date, every precision pair.
func VerifHarness_C05_DatePairs() {
	a, ca := verifDateSrc("a", true)
	b, cb := verifDateSrc("b", true)
	cmp, defined := verifCompare("date", ca, cb)
	verifCheckPair(a, b, cmp, defined)
	verifrt.Reach("end")
}

// C05-E1 Time x Time, every precision pair.
func VerifHarness_C05_TimePairs() {
	a, ca := verifTimeSrc("a", true)
	b, cb := verifTimeSrc("b", true)
	cmp, defined := verifCompare("time", ca, cb)
	verifCheckPair(a, b, cmp, defined)
	verifrt.Reach("end")
}

// C05-E1 DateTime x DateTime without offsets, every precision pair (one harness per layout of the left operand).
func verifDateTimePairs(li int) {
	a, ca := verifDateTimeL("a", false, li)
	b, cb := verifDateTime("b", false)
	cmp, defined := verifCompare("datetime", ca, cb)
	verifCheckPair(a, b, cmp, defined)
	verifrt.Reach("end")
}

func VerifHarness_C05_DateTimePairs_L00() { verifDateTimePairs(0) }
func VerifHarness_C05_DateTimePairs_L01() { verifDateTimePairs(1) }
func VerifHarness_C05_DateTimePairs_L02() { verifDateTimePairs(2) }
func VerifHarness_C05_DateTimePairs_L03() { verifDateTimePairs(3) }
func VerifHarness_C05_DateTimePairs_L04() { verifDateTimePairs(4) }
func VerifHarness_C05_DateTimePairs_L05() { verifDateTimePairs(5) }
func VerifHarness_C05_DateTimePairs_L06() { verifDateTimePairs(6) }
func VerifHarness_C05_DateTimePairs_L07() { verifDateTimePairs(7) }
func VerifHarness_C05_DateTimePairs_L08() { verifDateTimePairs(8) }
func VerifHarness_C05_DateTimePairs_L09() { verifDateTimePairs(9) }
func VerifHarness_C05_DateTimePairs_L10() { verifDateTimePairs(10) }

// C05-E1 numbers: Integer and Decimal compare by exact value (1 = 1.0 = 1.00) after promotion.
func VerifHarness_C05_NumberPairs() {
	var a, b Any
	var na, nb int64 // value * 100
	mk := func(label string) (Any, int64) {
		if verifrt.NondetBool(label + ".isInt") {
			i := verifrt.NondetIntRange(label+".i", -1000, 1000)
			return Integer(i), int64(i) * 100
		}
		scale := verifrt.Choose(label+".scale", 3)
		d := verifrt.NondetDecimal(label+".d", scale)
		c := d.Coefficient()
		verifrt.Assume(c.IsInt64() && c.Int64() >= -100000 && c.Int64() <= 100000)
		v := c.Int64()
		for k := scale; k < 2; k++ {
			v *= 10
		}
		return Decimal(d), v
	}
	a, na = mk("a")
	b, nb = mk("b")
	a2, b2 := Normalize(a, b), Normalize(b, a)
	cmp := 0
	if na < nb {
		cmp = -1
	} else if na > nb {
		cmp = 1
	}
	eq, has := TryEqual(a, b)
	verifrt.Assert(has && eq == (cmp == 0), "numbers-equal-by-exact-value")
	lt, err := a2.Less(b2)
	gt, err2 := b2.Less(a2)
	verifrt.Assert(err == nil && err2 == nil && bool(lt) == (cmp < 0) && bool(gt) == (cmp > 0), "numbers-ordered-by-exact-value")
	verifrt.Reach("end")
}

// C05-E1 numbers with many decimal places compare by their exact value too: no digit is beyond the comparison
// (twelve places against twelve or nine; coefficients symbolic up to fourteen digits).
func VerifHarness_C05_DecimalsOfManyPlaces() {
	da := verifrt.NondetDecimalDigits("a", 12, 14)
	scaleB := []int{12, 9}[verifrt.Choose("b.scale", 2)]
	db := verifrt.NondetDecimalDigits("b", scaleB, 14-(12-scaleB))
	ca, cb := da.Coefficient(), db.Coefficient()
	if scaleB == 9 {
		cb = new(big.Int).Mul(cb, big.NewInt(1000))
	}
	cmp := ca.Cmp(cb)
	a, b := Decimal(da), Decimal(db)
	eq, has := TryEqual(a, b)
	verifrt.Assert(has && eq == (cmp == 0), "numbers-equal-by-exact-value")
	lt, err := a.Less(b)
	gt, err2 := b.Less(a)
	verifrt.Assert(err == nil && err2 == nil && bool(lt) == (cmp < 0) && bool(gt) == (cmp > 0), "numbers-ordered-by-exact-value")
	verifrt.Assert(!(eq && bool(lt)) && !(eq && bool(gt)), "at-most-one-of-less-equal-greater")
	verifrt.Reach("end")
}

// C05-E1 strings by code point (byte order of valid UTF-8 is code point order), booleans by value.
func VerifHarness_C05_StringBooleanPairs() {
	if verifrt.NondetBool("strings") {
		sa, sb := verifrt.NondetString("a", verifrt.Bound(2, 4)), verifrt.NondetString("b", verifrt.Bound(2, 4))
		a, b := String(sa), String(sb)
		eq, has := TryEqual(a, b)
		verifrt.Assert(has && eq == (sa == sb), "strings-equal-by-content")
		lt, err := a.Less(b)
		verifrt.Assert(err == nil && bool(lt) == (sa < sb), "strings-ordered-by-code-point")
	} else {
		va, vb := verifrt.NondetBool("a"), verifrt.NondetBool("b")
		eq, has := TryEqual(Boolean(va), Boolean(vb))
		verifrt.Assert(has && eq == (va == vb), "booleans-equal-by-value")
	}
	verifrt.Reach("end")
}

// C05-E1 quantities compare only within one unit, otherwise the result is empty.
func VerifHarness_C05_QuantityPairs() {
	// UCUM codes are case sensitive ('mg' milligram, 'Mg' megagram): a unit is the same unit only as the same string;
	// besides the menu, both units are arbitrary two-byte strings
	unit := func(label string) string {
		units := []string{"mg", "kg", "days", "", "Mg", "MG"}
		if k := verifrt.Choose(label, len(units)+1); k < len(units) {
			return units[k]
		}
		return verifrt.NondetStringN(label+".s", 2)
	}
	ua, ub := unit("ua"), unit("ub")
	va, vb := verifrt.NondetIntRange("va", -1000, 1000), verifrt.NondetIntRange("vb", -1000, 1000)
	a := Quantity{Decimal(verifrt.NondetDecimal("da", 1)), ua}
	b := Quantity{Decimal(verifrt.NondetDecimal("db", 1)), ub}
	ca, cb := a.value, b.value
	_ = ca
	_ = cb
	// tie the mantissas to small integers so that the reference is plain integer comparison
	verifrt.Assume(decimalOf(a.value).Coefficient().IsInt64() && decimalOf(b.value).Coefficient().IsInt64())
	ma, mb := decimalCoefficient(a.value), decimalCoefficient(b.value)
	verifrt.Assume(ma == int64(va) && mb == int64(vb))
	eq, has := TryEqual(a, b)
	lt, err := a.Less(b)
	if ua != ub {
		verifrt.Assert(!has, "quantity-equality-empty-across-units")
		verifrt.Assert(errors.Is(err, ErrMismatchedUnit), "quantity-ordering-undefined-across-units")
	} else {
		verifrt.Assert(has && eq == (va == vb), "quantity-equal-within-unit")
		verifrt.Assert(err == nil && bool(lt) == (va < vb), "quantity-ordered-within-unit")
	}
	verifrt.Reach("end")
}

// C05-E1 values of different kinds are never equal and never ordered (after promotion: Integer/Decimal/Quantity, Date/DateTime).
func VerifHarness_C05_CrossType() {
	mk := func(label string) (Any, int) {
		k := verifrt.Choose(label+".kind", 5)
		switch k {
		case 0:
			return Integer(verifrt.NondetInt32(label + ".i")), 0
		case 1:
			return String(verifrt.NondetString(label+".s", 2)), 1
		case 2:
			return Boolean(verifrt.NondetBool(label + ".b")), 2
		case 3:
			d, _ := verifDate(label + ".d")
			return d, 3
		default:
			t, _ := verifTime(label + ".t")
			return t, 4
		}
	}
	a, ka := mk("a")
	b, kb := mk("b")
	verifrt.Assume(ka != kb)
	eq, has := TryEqual(a, b)
	verifrt.Assert(!(has && eq), "different-kinds-are-not-equal")
	_, err := a.Less(b)
	verifrt.Assert(err != nil, "different-kinds-are-not-ordered")
	verifrt.Reach("end")
}

// C05 transitivity of < and "at most one of <, =, >" (three values of one kind; one harness per kind).
func verifTransitive(kind int) {
	var a, b, c Any
	switch kind {
	case 0:
		a, b, c = Integer(verifrt.NondetInt32("a")), Integer(verifrt.NondetInt32("b")), Integer(verifrt.NondetInt32("c"))
	case 1:
		a, b, c = String(verifrt.NondetString("a", 2)), String(verifrt.NondetString("b", 2)), String(verifrt.NondetString("c", 2))
	case 2:
		x, _ := verifDate("a")
		y, _ := verifDate("b")
		z, _ := verifDate("c")
		a, b, c = x, y, z
	default:
		x, _ := verifTime("a")
		y, _ := verifTime("b")
		z, _ := verifTime("c")
		a, b, c = x, y, z
	}
	ab, e1 := a.Less(b)
	bc, e2 := b.Less(c)
	ac, e3 := a.Less(c)
	if e1 == nil && e2 == nil && bool(ab) && bool(bc) {
		verifrt.Assert(e3 != nil || bool(ac), "less-is-transitive-when-defined")
	}
	ba, e4 := b.Less(a)
	eq, has := TryEqual(a, b)
	n := 0
	if e1 == nil && bool(ab) {
		n++
	}
	if e4 == nil && bool(ba) {
		n++
	}
	if has && eq {
		n++
	}
	verifrt.Assert(n <= 1, "at-most-one-of-less-equal-greater")
	verifrt.Reach("end")
}

func VerifHarness_C05_TransitiveInteger() { verifTransitive(0) }
func VerifHarness_C05_TransitiveString()  { verifTransitive(1) }
func VerifHarness_C05_TransitiveDate()    { verifTransitive(2) }
func VerifHarness_C05_TransitiveTime()    { verifTransitive(3) }

// verifDateOnlyDateTime: a DateTime of day precision or coarser as it enters from a FHIR dateTime element read in some
// default time zone, or from the implicit Date -> DateTime conversion of such a date element.
func verifDateOnlyDateTime(label string) (DateTime, verifCivil) {
	if verifrt.NondetBool(label + ".viaDate") {
		d, c := verifDateSrc(label, true)
		return d.ToDateTime(), c
	}
	li := verifrt.Choose(label+".layout", 3)
	c := verifCivil{y: verifYear(label + ".y"), mo: 1, d: 1, rank: li}
	if li >= 1 {
		c.mo = verifMonth(label + ".mo")
	}
	if li >= 2 {
		c.d = verifrt.NondetIntRange(label+".d", 1, 31)
		verifrt.Assume(c.d <= verifDaysIn(c.y, c.mo))
	}
	zones := []struct {
		tz  string
		off int
	}{{"", 0}, {"+05:00", 18000}, {"-08:00", -28800}}
	z := zones[verifrt.Choose(label+".zone", len(zones))]
	us := time.Date(c.y, time.Month(c.mo), c.d, 0, 0, 0, 0, time.FixedZone("", z.off)).UnixMicro()
	dt, err := DateTimeFromProto(&dtpb.DateTime{ValueUs: us, Timezone: z.tz, Precision: []dtpb.DateTime_Precision{dtpb.DateTime_YEAR, dtpb.DateTime_MONTH, dtpb.DateTime_DAY}[li]})
	verifrt.Assume(err == nil)
	return dt, c
}

// C05-E1: date-only DateTimes from FHIR elements (any default zone) against each other and against DateTimes written
// without an offset: calendar components decide, the element's zone never does.
func VerifHarness_C05_DateOnlyDateTimesFromElements() {
	a, ca := verifDateOnlyDateTime("a")
	var b DateTime
	var cb verifCivil
	if verifrt.NondetBool("b.element") {
		b, cb = verifDateOnlyDateTime("b")
	} else {
		b, cb = verifDateTimeL("b", false, verifrt.Choose("b.layout", 7))
	}
	cmp, defined := verifCompare("datetime", ca, cb)
	verifCheckPair(a, b, cmp, defined)
	verifrt.Reach("end")
}

// C05-E1: a number against a Quantity. A number converts implicitly to a Quantity of unit '1' (FHIRPath N1 5.1), so it
// can equal or be ordered against a Quantity of that unit only: "Quantities only within one unit (otherwise empty)".
func VerifHarness_C05_NumberVsQuantity() {
	var n Any
	var nv int64 // value * 10
	if verifrt.NondetBool("isInteger") {
		i := verifrt.NondetIntRange("i", -1000, 1000)
		n, nv = Integer(i), int64(i)*10
	} else {
		d := verifrt.NondetDecimalDigits("d", 1, 4)
		n, nv = Decimal(d), d.Coefficient().Int64()
	}
	unit := []string{"1", "mg", "", "year"}[verifrt.Choose("unit", 4)]
	verifrt.Tag("unitName", unit)
	qd := verifrt.NondetDecimalDigits("q", 1, 4)
	q := Quantity{Decimal(qd), unit}
	qv := qd.Coefficient().Int64()
	eq, has := TryEqual(n, q)
	eq2, has2 := TryEqual(q, n)
	if unit == "1" {
		verifrt.Assert(has && has2 && eq == (nv == qv) && eq2 == (nv == qv), "number-equals-unit-one-quantity-by-value")
	} else {
		verifrt.Assert(!(has && eq) && !(has2 && eq2), "number-never-equals-a-quantity-of-another-unit")
		_, err := q.Less(Normalize(n, q))
		verifrt.Assert(err != nil, "number-is-not-ordered-against-a-quantity-of-another-unit")
	}
	verifrt.Reach("end")
}
