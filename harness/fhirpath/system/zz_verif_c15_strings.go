//go:build verif

package system

import (
	dtpb "github.com/google/fhir/go/proto/google/fhir/proto/r4/core/datatypes_go_proto"
	"github.com/verily-src/fhirpath-go/internal/verifrt"
)

// C15-L3a: the canonical text of a Time re-parses to an equal Time with the same text, for every time of day and
// precision; a Time built from a proto with sub-precision digits must not keep them hidden (its text is its value).
func VerifHarness_C15_TimeStringRoundTrip() {
	precs := []dtpb.Time_Precision{dtpb.Time_SECOND, dtpb.Time_MILLISECOND, dtpb.Time_MICROSECOND}
	p := precs[verifrt.Choose("precision", len(precs))]
	us := int64(verifrt.NondetIntRange("s", 0, 86399))*1000000 + int64(verifrt.NondetIntRange("us", 0, 999999))
	t := TimeFromProto(&dtpb.Time{ValueUs: us, Precision: p})
	s := t.String()
	back, err := ParseTime(s)
	verifrt.Assert(err == nil, "time-text-reparses")
	verifrt.Assert(back.String() == s, "time-text-is-a-fixed-point")
	eq, has := back.TryEqual(t)
	verifrt.Assert(eq && has, "time-reparsed-equals-original")
	verifrt.Reach("end")
}

func verifTwo(v int) []byte { return []byte{byte('0' + v/10), byte('0' + v%10)} }

// verifTimeText draws "hh:mm:ss" plus an optional fraction of 1..4 symbolic digits; fracMs is the fraction truncated to
// milliseconds, nf the number of fraction digits.
func verifTimeText(label string) (text string, nf int, fracMs int) {
	hh := verifrt.NondetIntRange(label+".hh", 0, 23)
	mm := verifrt.NondetIntRange(label+".mm", 0, 59)
	ss := verifrt.NondetIntRange(label+".ss", 0, 59)
	b := append(append(append(verifTwo(hh), ':'), append(verifTwo(mm), ':')...), verifTwo(ss)...)
	nf = verifrt.Choose(label+".fractionDigits", 5)
	if nf > 0 {
		b = append(b, '.')
		scale := 100
		for i := 0; i < nf; i++ {
			d := verifrt.NondetIntRange(label+".f", 0, 9)
			b = append(b, byte('0'+d))
			fracMs += d * scale
			scale /= 10
		}
	}
	return string(b), nf, fracMs
}

// C15-L3b / L7: a Time literal with any number of fraction digits has no hidden state: its canonical text re-parses to
// an equal value, and it equals the same literal written with exactly three fraction digits.
func VerifHarness_C15_TimeLiteralFraction() {
	text, nf, fracMs := verifTimeText("t")
	t, err := ParseTime(text)
	if err != nil {
		verifrt.Reach("rejected")
		return
	}
	s := t.String()
	back, err2 := ParseTime(s)
	verifrt.Assert(err2 == nil, "time-text-reparses")
	eq, has := back.TryEqual(t)
	verifrt.Assert(eq && has, "time-literal-has-no-hidden-fraction")
	if nf > 0 {
		padded := text[:8] + "." + string([]byte{byte('0' + fracMs/100), byte('0' + fracMs/10%10), byte('0' + fracMs%10)})
		p, err3 := ParseTime(padded)
		verifrt.Assert(err3 == nil, "three-digit-fraction-accepted")
		eq, has = t.TryEqual(p)
		verifrt.Assert(eq && has, "fraction-denotes-its-milliseconds")
	}
	verifrt.Reach("end")
}

// The same for DateTime literals on a fixed date with each zone form.
func VerifHarness_C15_DateTimeLiteralFraction() {
	verifrt.SplitCalendar()
	text, nf, fracMs := verifTimeText("t")
	zone := []string{"", "Z", "+05:30", "-08:00"}[verifrt.Choose("zone", 4)]
	lit := "2020-02-29T" + text + zone
	t, err := ParseDateTime(lit)
	if err != nil {
		verifrt.Reach("rejected")
		return
	}
	s := t.String()
	back, err2 := ParseDateTime(s)
	verifrt.Assert(err2 == nil, "datetime-text-reparses")
	eq, has := back.TryEqual(t)
	verifrt.Assert(eq && has, "datetime-literal-has-no-hidden-fraction")
	if nf > 0 {
		padded := "2020-02-29T" + text[:8] + "." + string([]byte{byte('0' + fracMs/100), byte('0' + fracMs/10%10), byte('0' + fracMs%10)}) + zone
		p, err3 := ParseDateTime(padded)
		verifrt.Assert(err3 == nil, "three-digit-fraction-accepted")
		eq, has = t.TryEqual(p)
		verifrt.Assert(eq && has, "fraction-denotes-its-milliseconds")
	}
	verifrt.Reach("end")
}

// C15-L5f / L7 (and C13's round trip for values that arrive from elements): an instant element becomes a DateTime whose
// text denotes it - no digits below what the text shows are kept - for every precision enum value and zone.
func VerifHarness_C15_InstantToSystemHasNoHiddenDigits() {
	verifrt.SplitCalendar()
	precs := []dtpb.Instant_Precision{dtpb.Instant_SECOND, dtpb.Instant_MILLISECOND, dtpb.Instant_MICROSECOND}
	p := precs[verifrt.Choose("precision", len(precs))]
	z := verifZones[verifrt.Choose("zone", 4)]
	us := int64(verifrt.NondetIntRange("s", 1709164800, 1709164800+86399))*1000000 + int64(verifrt.NondetIntRange("us", 0, 999999))
	v, err := From(&dtpb.Instant{ValueUs: us, Timezone: z.tz, Precision: p})
	verifrt.Assert(err == nil, "instant-converts")
	if err != nil {
		return
	}
	dt, isDT := v.(DateTime)
	verifrt.Assert(isDT, "instant-becomes-a-DateTime")
	if !isDT {
		return
	}
	s := dt.String()
	back, err2 := ParseDateTime(s)
	verifrt.Assert(err2 == nil, "its-text-reparses")
	if err2 != nil {
		return
	}
	eq, has := back.TryEqual(dt)
	verifrt.Assert(eq && has, "instant-value-has-no-hidden-digits")
	verifrt.Reach("end")
}
