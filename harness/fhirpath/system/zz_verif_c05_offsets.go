//go:build verif

package system

import (
	"time"

	"github.com/verily-src/fhirpath-go/internal/verifrt"
)

// C05: DateTime comparison normalises offsets before comparing components: a value with a UTC offset against a
// value of another (coarser or finer) precision is compared on the UTC components down to the shared precision.
// Year and month are case-split (2024 quick), day/time symbolic; offsets from {Z, +01:00, +05:30, -11:00}.
func VerifHarness_C05_DateTimeOffsetNormalisation() {
	verifSplitYM = true
	verifrt.SplitCalendar()
	offMin := []int{0, 60, 330, -660}[verifrt.Choose("a.off", 4)]
	// a: second or minute or hour precision with an offset designator
	la := []int{7, 8, 9}[verifrt.Choose("a.layoutTZ", 3)] // dtHourLayoutTZ, dtMinuteLayoutTZ, dtSecondLayoutTZ
	ca := verifCivil{y: verifYear("a.y"), mo: verifMonth("a.mo"), d: verifrt.NondetIntRange("a.d", 1, 28), rank: verifDTRank(la)}
	ca.h = verifrt.NondetIntRange("a.h", 0, 23)
	if ca.rank >= 4 {
		ca.mi = verifrt.NondetIntRange("a.mi", 0, 59)
	}
	if ca.rank >= 5 {
		ca.s = verifrt.NondetIntRange("a.s", 0, 59)
	}
	ta := time.Date(ca.y, time.Month(ca.mo), ca.d, ca.h, ca.mi, ca.s, 0, time.FixedZone("", offMin*60))
	a := DateTime{ta, verifDTLayouts[la]}
	// b: another precision, no offset (taken as UTC)
	lb := []int{1, 2, 3, 4}[verifrt.Choose("b.layout", 4)] // month, day, hour, minute
	cb := verifCivil{y: ca.y, mo: verifMonth("b.mo"), d: 1, rank: verifDTRank(lb)}
	if cb.rank >= 2 {
		cb.d = verifrt.NondetIntRange("b.d", 1, 28)
	}
	if cb.rank >= 3 {
		cb.h = verifrt.NondetIntRange("b.h", 0, 23)
	}
	if cb.rank >= 4 {
		cb.mi = verifrt.NondetIntRange("b.mi", 0, 59)
	}
	b := DateTime{time.Date(cb.y, time.Month(cb.mo), cb.d, cb.h, cb.mi, 0, 0, time.UTC), verifDTLayouts[lb]}
	// reference: a's UTC components
	u := ta.UTC()
	ua := verifCivil{y: u.Year(), mo: int(u.Month()), d: u.Day(), h: u.Hour(), mi: u.Minute(), s: u.Second(), rank: ca.rank}
	cmp, defined := verifCompare("datetime", ua, cb)
	verifCheckPair(a, b, cmp, defined)
	verifrt.Reach("end")
}

// C05: two DateTimes of the *same* layout that carry different offsets compare on their UTC components down to that
// precision - at hour precision an offset of +05:30 or +05:45 hides minutes, which take no part. Fixed day (clock
// symbolic), offsets from {Z, +01:00, +05:30, +05:45, -03:30, -11:00} on both sides.
func VerifHarness_C05_SameLayoutDifferentOffsets() {
	offs := []int{0, 60, 330, 345, -210, -660}
	la := []int{7, 8, 9}[verifrt.Choose("layoutTZ", 3)] // dtHourLayoutTZ, dtMinuteLayoutTZ, dtSecondLayoutTZ
	rank := verifDTRank(la)
	mk := func(label string) (DateTime, verifCivil) {
		off := offs[verifrt.Choose(label+".off", len(offs))]
		h, mi, s := verifrt.NondetIntRange(label+".h", 0, 23), 0, 0
		if rank >= 4 {
			mi = verifrt.NondetIntRange(label+".mi", 0, 59)
		}
		if rank >= 5 {
			s = verifrt.NondetIntRange(label+".s", 0, 59)
		}
		t := time.Date(2024, 3, 10, h, mi, s, 0, time.FixedZone("", off*60))
		// reference: the UTC wall clock by integer arithmetic on the minutes of the day (the date may move by a day)
		total := h*60 + mi - off
		day := 10
		if total < 0 {
			total, day = total+1440, 9
		} else if total >= 1440 {
			total, day = total-1440, 11
		}
		return DateTime{t, verifDTLayouts[la]}, verifCivil{y: 2024, mo: 3, d: day, h: total / 60, mi: total % 60, s: s, rank: rank}
	}
	a, ua := mk("a")
	b, ub := mk("b")
	if rank == 3 {
		ua.mi, ub.mi = 0, 0 // hidden by the precision
	}
	cmp, defined := verifCompare("datetime", ua, ub)
	verifCheckPair(a, b, cmp, defined)
	verifrt.Reach("end")
}
