//go:build verif

package system

import (
	"unicode/utf8"

	"github.com/verily-src/fhirpath-go/internal/verifrt"
)

func verifHex(c byte) (int, bool) {
	switch {
	case c >= '0' && c <= '9':
		return int(c - '0'), true
	case c >= 'a' && c <= 'f':
		return int(c-'a') + 10, true
	case c >= 'A' && c <= 'F':
		return int(c-'A') + 10, true
	}
	return 0, false
}

// verifDecode is the reference for the body of a FHIRPath STRING token (DESIGN Appendix C): every escape
// \' \" \` \\ \/ \f \n \r \t \uXXXX denotes its character, every other character denotes itself.
// valid=false when body is not a sequence the lexer accepts (raw quote, dangling or unknown escape).
func verifDecode(body string) (out string, valid bool) {
	var b []byte
	for i := 0; i < len(body); {
		c := body[i]
		if c == '\'' {
			return "", false
		}
		if c != '\\' {
			b = append(b, c)
			i++
			continue
		}
		if i+1 >= len(body) {
			return "", false
		}
		switch body[i+1] {
		case '\'', '"', '`', '\\', '/':
			b = append(b, body[i+1])
			i += 2
		case 'f':
			b = append(b, '\f')
			i += 2
		case 'n':
			b = append(b, '\n')
			i += 2
		case 'r':
			b = append(b, '\r')
			i += 2
		case 't':
			b = append(b, '\t')
			i += 2
		case 'u':
			if i+5 >= len(body) {
				return "", false
			}
			r := 0
			for k := 2; k < 6; k++ {
				h, ok := verifHex(body[i+k])
				if !ok {
					return "", false
				}
				r = r*16 + h
			}
			if r >= 0xD800 && r <= 0xDBFF && i+11 < len(body) && body[i+6] == '\\' && body[i+7] == 'u' {
				// a surrogate pair spells one character beyond the basic plane
				low := 0
				for k := 8; k < 12; k++ {
					h, ok := verifHex(body[i+k])
					if !ok {
						return "", false
					}
					low = low*16 + h
				}
				if low >= 0xDC00 && low <= 0xDFFF {
					b = utf8.AppendRune(b, rune(0x10000+(r-0xD800)*0x400+(low-0xDC00)))
					i += 12
					continue
				}
			}
			if r >= 0xD800 && r <= 0xDFFF {
				return "", false // a lone surrogate is not a character
			}
			b = utf8.AppendRune(b, rune(r))
			i += 6
		default:
			return "", false
		}
	}
	return string(b), true
}

// C15-L1: string literals decode every FHIRPath escape and leave all other characters intact.
func VerifHarness_C15_StringEscapes() {
	body := verifrt.NondetString("body", verifrt.Bound(4, 6))
	want, valid := verifDecode(body)
	verifrt.Assume(valid)
	got, err := ParseString("'" + body + "'")
	verifrt.Assert(err == nil && string(got) == want, "string-literal-decodes-escapes")
	verifrt.Reach("end")
}

// C15-L1 (unicode escapes, which need six characters): \uXXXX denotes the code point, next to an ordinary character.
func VerifHarness_C15_UnicodeEscape() {
	// quick: two leading digits from a menu that covers every encoding width and the surrogate gap, two symbolic
	// low digits; thorough: all four digits symbolic
	var hex string
	if verifrt.Thorough() {
		hex = verifrt.NondetStringN("hex", 4)
	} else {
		hex = []string{"00", "07", "08", "20", "d7", "D8", "E0", "fF"}[verifrt.Choose("hexHi", 8)] + verifrt.NondetStringN("hexLo", 2)
	}
	tail := verifrt.NondetString("tail", 1)
	body := "\\u" + hex + tail
	want, valid := verifDecode(body)
	verifrt.Assume(valid)
	got, err := ParseString("'" + body + "'")
	verifrt.Assert(err == nil && string(got) == want, "unicode-escape-decodes-to-its-code-point")
	verifrt.Reach("end")
}

// C15-L1 (escapes next to each other): a two-character escape followed by text that looks like the tail of a unicode
// escape ('\\u0041' is a backslash and the five characters u0041), and a unicode escape followed by another escape.
func VerifHarness_C15_AdjacentEscapes() {
	esc := []string{"\\\\", "\\'", "\\n", "\\/", "\\u0041"}[verifrt.Choose("first", 5)]
	var rest string
	switch verifrt.Choose("rest", 3) {
	case 0:
		rest = "u" + []string{"00", "20", "fF"}[verifrt.Choose("hexHi", 3)] + verifrt.NondetStringN("hexLo", 2)
	case 1:
		rest = "\\" + verifrt.NondetStringN("second", 1) + verifrt.NondetString("tail", 1)
	default:
		rest = verifrt.NondetString("text", 2)
	}
	body := esc + rest
	want, valid := verifDecode(body)
	verifrt.Assume(valid)
	got, err := ParseString("'" + body + "'")
	verifrt.Assert(err == nil && string(got) == want, "adjacent-escapes-decode-independently")
	verifrt.Reach("end")
}

// C15-L1 (characters beyond the basic plane): the pair \uD8xx..\uDBxx \uDCxx..\uDFxx denotes the one character it
// spells (the only way to write such a character with escapes), followed by an ordinary character.
func VerifHarness_C15_SurrogatePairEscape() {
	// one hexadecimal digit of the low half is symbolic, the others come from menus (more symbolic digits through two
	// ParseUint calls and the four-byte encoding do not finish within the quick solver budget: 150 s unknown)
	hi := []string{"D800", "d83D", "DAff", "dBFF"}[verifrt.Choose("hi", 4)]
	lo := []string{"DC", "dd", "DE", "dF"}[verifrt.Choose("lo", 4)] + verifrt.NondetStringN("lo2", 1) + []string{"0", "A", "f"}[verifrt.Choose("lo3", 3)]
	body := "\\u" + hi + "\\u" + lo + []string{"", "x"}[verifrt.Choose("tail", 2)]
	want, valid := verifDecode(body)
	verifrt.Assume(valid)
	got, err := ParseString("'" + body + "'")
	verifrt.Assert(err == nil && string(got) == want, "surrogate-pair-decodes-to-one-character")
	verifrt.Reach("end")
}
