//go:build verif

package system

import (
	dtpb "github.com/google/fhir/go/proto/google/fhir/proto/r4/core/datatypes_go_proto"
	"github.com/verily-src/fhirpath-go/internal/verifrt"
)

// item kinds: 0 Integer, 1 String, 2 FHIR integer element, 3 complex element (HumanName with a symbolic family)
type verifItemRef struct {
	kind int
	i    int
	s    string
}

func verifCollItem(label string) (any, verifItemRef) {
	switch k := verifrt.Choose(label+".kind", 4); k {
	case 0:
		v := verifrt.NondetIntRange(label+".i", 0, 2)
		return Integer(v), verifItemRef{kind: 0, i: v}
	case 1:
		s := verifrt.NondetString(label+".s", 1)
		return String(s), verifItemRef{kind: 1, s: s}
	case 2:
		v := verifrt.NondetIntRange(label+".fi", 0, 2)
		return &dtpb.Integer{Value: int32(v)}, verifItemRef{kind: 0, i: v}
	default:
		s := verifrt.NondetString(label+".fam", 1)
		return &dtpb.HumanName{Family: &dtpb.String{Value: s}}, verifItemRef{kind: 3, s: s}
	}
}

func (a verifItemRef) equal(b verifItemRef) bool {
	return a.kind == b.kind && a.i == b.i && a.s == b.s
}

// C05-E3: two collections are equal iff they have the same length and every corresponding pair of items is equal
// (complex elements structurally) - every pair, not just the first.
func VerifHarness_C05_CollectionEquality() {
	n := 1 + verifrt.Choose("n", verifrt.Bound(2, 3))
	m := n
	if verifrt.NondetBool("differentLength") {
		m = 1 + verifrt.Choose("m", verifrt.Bound(2, 3))
	}
	var a, b Collection
	var ra, rb []verifItemRef
	for i := 0; i < n; i++ {
		v, r := verifCollItem("a")
		a, ra = append(a, v), append(ra, r)
	}
	for i := 0; i < m; i++ {
		v, r := verifCollItem("b")
		b, rb = append(b, v), append(rb, r)
	}
	want := n == m
	for i := 0; want && i < n; i++ {
		want = ra[i].equal(rb[i])
	}
	got, has := a.TryEqual(b)
	verifrt.Assert(has && got == want, "collections-equal-iff-every-pair-equal")
	verifrt.Reach("end")
}
