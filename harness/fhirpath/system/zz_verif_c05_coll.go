//go:build verif

package system

import (
	dtpb "github.com/google/fhir/go/proto/google/fhir/proto/r4/core/datatypes_go_proto"
	"github.com/verily-src/fhirpath-go/internal/verifrt"
)

// item kinds: 0 Integer, 1 String, 2 FHIR integer element, 3 complex element (HumanName with a symbolic family),
// 4 Date of year or month precision (two dates of different precision that agree on the year have no answer),
// 5 FHIR Quantity element without a value (no System value: compared structurally)
type verifItemRef struct {
	kind int
	i    int
	s    string
}

func verifCollItem(label string, kinds []int) (any, verifItemRef) {
	switch k := kinds[verifrt.Choose(label+".kind", len(kinds))]; k {
	case 0:
		v := verifrt.NondetIntRange(label+".i", 0, 2)
		return Integer(v), verifItemRef{kind: 0, i: v}
	case 1:
		s := verifrt.NondetString(label+".s", 1)
		return String(s), verifItemRef{kind: 1, s: s}
	case 2:
		v := verifrt.NondetIntRange(label+".fi", 0, 2)
		return &dtpb.Integer{Value: int32(v)}, verifItemRef{kind: 0, i: v}
	case 4:
		text := []string{"2020", "2021", "2020-01", "2020-02", "2021-01"}[verifrt.Choose(label+".date", 5)]
		return MustParseDate(text), verifItemRef{kind: 4, s: text}
	case 5:
		code := []string{"mg", "kg"}[verifrt.Choose(label+".code", 2)]
		return &dtpb.Quantity{Code: &dtpb.Code{Value: code}}, verifItemRef{kind: 5, s: code}
	default:
		s := verifrt.NondetString(label+".fam", 1)
		return &dtpb.HumanName{Family: &dtpb.String{Value: s}}, verifItemRef{kind: 3, s: s}
	}
}

// compare: 1 equal, 0 unequal, 2 no answer
func (a verifItemRef) compare(b verifItemRef) int {
	if a.kind == 4 && b.kind == 4 && len(a.s) != len(b.s) {
		if a.s[:4] == b.s[:4] {
			return 2 // the shared components (the year) agree, the precisions differ
		}
		return 0
	}
	if a.kind == b.kind && a.i == b.i && a.s == b.s {
		return 1
	}
	return 0
}

// C05-E3: two collections are equal iff they have the same length and every corresponding pair of items is equal
// (complex elements structurally) - every pair, not just the first.
func VerifHarness_C05_CollectionEquality() {
	n := 1 + verifrt.Choose("n", verifrt.Bound(2, 3))
	m := n
	if verifrt.NondetBool("differentLength") {
		m = 1 + verifrt.Choose("m", verifrt.Bound(2, 3))
	}
	verifCollectionEquality(n, m, []int{0, 1, 2, 3})
}

// C05-E3 with pairs that have no answer (dates of different precision) and items without a System value (a Quantity
// element without a value) among the pairs: an unequal pair decides wherever it stands, and x = x.
func VerifHarness_C05_CollectionEqualityThreeValued() {
	n := verifrt.Bound(2, 3)
	verifCollectionEquality(n, n, []int{0, 4, 5})
}

func verifCollectionEquality(n, m int, kinds []int) {
	var a, b Collection
	var ra, rb []verifItemRef
	for i := 0; i < n; i++ {
		v, r := verifCollItem("a", kinds)
		a, ra = append(a, v), append(ra, r)
	}
	for i := 0; i < m; i++ {
		v, r := verifCollItem("b", kinds)
		b, rb = append(b, v), append(rb, r)
	}
	// an unequal pair decides wherever it stands; otherwise a pair without an answer leaves the comparison open
	want := 1
	if n != m {
		want = 0
	}
	for i := 0; n == m && i < n; i++ {
		switch ra[i].compare(rb[i]) {
		case 0:
			want = 0
		case 2:
			if want == 1 {
				want = 2
			}
		}
	}
	got, has := a.TryEqual(b)
	if want == 2 {
		verifrt.Assert(!has, "collections-with-an-unanswerable-pair-and-no-unequal-pair-have-no-answer")
	} else {
		verifrt.Assert(has && got == (want == 1), "collections-equal-iff-every-pair-equal")
	}
	verifrt.Reach("end")
}
