//go:build verif

package system

import "github.com/shopspring/decimal"

func decimalOf(d Decimal) decimal.Decimal { return decimal.Decimal(d) }
