//go:build verif

package system

import (
	dtpb "github.com/google/fhir/go/proto/google/fhir/proto/r4/core/datatypes_go_proto"
	"time"

	"github.com/verily-src/fhirpath-go/internal/verifrt"
)

func verifFloorDiv(a, b int) int {
	q := a / b
	if a%b != 0 && (a < 0) != (b < 0) {
		q--
	}
	return q
}

func verifMin(a, b int) int {
	if a < b {
		return a
	}
	return b
}

// verifAddMonths: calendar month arithmetic clamping to the end of the month.
func verifAddMonths(y, m, d, n int) (int, int, int) {
	t := y*12 + (m - 1) + n
	y2 := verifFloorDiv(t, 12)
	m2 := t - y2*12 + 1
	return y2, m2, verifMin(d, verifDaysIn(y2, m2))
}

// verifDateUnits: the calendar keywords Date arithmetic accepts, with the amount expressed in days (0 = calendar unit).
var verifDateUnits = []string{"year", "years", "month", "months", "week", "weeks", "day", "days"}

// verifDateArith is the reference for Date +/- quantity (statement of C09): an amount in a unit finer than the
// value's precision is first converted to whole units of that precision (1 year = 365 days = 12 months, 1 month =
// 30 days, fractions dropped); years and months clamp to the end of the month; a week is seven days.
func verifDateArith(c verifCivil, n int, ui int) time.Time {
	unit := ui / 2 // 0 year 1 month 2 week 3 day
	days := 0
	switch unit {
	case 2:
		days = 7 * n
	case 3:
		days = n
	}
	switch c.rank {
	case 0: // year precision
		switch unit {
		case 0:
			return time.Date(c.y+n, 1, 1, 0, 0, 0, 0, time.UTC)
		case 1:
			return time.Date(c.y+n/12, 1, 1, 0, 0, 0, 0, time.UTC)
		default:
			return time.Date(c.y+days/365, 1, 1, 0, 0, 0, 0, time.UTC)
		}
	case 1: // month precision
		switch unit {
		case 0:
			return time.Date(c.y+n, time.Month(c.mo), 1, 0, 0, 0, 0, time.UTC)
		case 1:
			y, m, _ := verifAddMonths(c.y, c.mo, 1, n)
			return time.Date(y, time.Month(m), 1, 0, 0, 0, 0, time.UTC)
		default:
			y, m, _ := verifAddMonths(c.y, c.mo, 1, days/30)
			return time.Date(y, time.Month(m), 1, 0, 0, 0, 0, time.UTC)
		}
	}
	switch unit {
	case 0:
		y, m, d := verifAddMonths(c.y, c.mo, c.d, 12*n)
		return time.Date(y, time.Month(m), d, 0, 0, 0, 0, time.UTC)
	case 1:
		y, m, d := verifAddMonths(c.y, c.mo, c.d, n)
		return time.Date(y, time.Month(m), d, 0, 0, 0, 0, time.UTC)
	}
	return time.Date(c.y, time.Month(c.mo), c.d+days, 0, 0, 0, 0, time.UTC)
}

// C09-B: Date + quantity and Date - quantity equal the reference calendar computation and keep the precision.
// Window: years 2019..2024; |amount| <= 13 (months/years) or <= 61 (days/weeks) in the quick tier.
func verifDateAddSub(sub bool) {
	verifSplitYM = true
	verifrt.SplitCalendar()
	d, c := verifDate("d")
	ui := verifrt.Choose("unit", len(verifDateUnits)/verifrt.Bound(2, 1)) * verifrt.Bound(2, 1) // quick: singular keywords only
	lim := verifrt.Bound(13, 25)
	if ui >= 4 {
		lim = verifrt.Bound(35, 1000)
	}
	n := verifrt.NondetIntRange("n", -lim, lim)
	verifrt.Tag("rank", []string{"year", "month", "day"}[c.rank])
	verifrt.Tag("unitName", verifDateUnits[ui])
	// is the unit finer than the value's precision? (year 0, month 1, week/day 2)
	finer := "no"
	if []int{0, 0, 1, 1, 2, 2, 2, 2}[ui] > c.rank {
		finer = "yes"
	}
	verifrt.Tag("unitFinerThanPrecision", finer)
	var got Date
	var err error
	if sub {
		got, err = d.Sub(verifQty(n, verifDateUnits[ui]))
		n = -n
	} else {
		got, err = d.Add(verifQty(n, verifDateUnits[ui]))
	}
	verifrt.Assert(err == nil, "date-arithmetic-accepts-calendar-units")
	if err != nil {
		return
	}
	verifrt.Assert(got.l == d.l, "date-arithmetic-preserves-precision")
	want := verifDateArith(c, n, ui)
	verifrt.Assert(got.date.Equal(want), "date-arithmetic-equals-calendar-reference")
	verifrt.Reach("end")
}

func VerifHarness_C09_DateAdd() { verifDateAddSub(false) }
func VerifHarness_C09_DateSub() { verifDateAddSub(true) }

// C09-B: (x + q) - q = x whenever no month-end clamping or truncation occurs (day precision, day/week units; month
// precision, month/year units), and the result is monotone in the amount.
func VerifHarness_C09_DateRoundTripMonotone() {
	verifSplitYM = true
	verifrt.SplitCalendar()
	d, c := verifDate("d")
	verifrt.Assume(c.rank >= 1)
	var unit string
	if c.rank == 2 {
		unit = []string{"day", "days", "week", "weeks"}[verifrt.Choose("unit", 4)]
	} else {
		unit = []string{"month", "months", "year", "years"}[verifrt.Choose("unit", 4)]
	}
	n := verifrt.NondetIntRange("n", 0, verifrt.Bound(6, 60))
	m := verifrt.NondetIntRange("m", 0, verifrt.Bound(6, 60))
	p, e1 := d.Add(verifQty(n, unit))
	verifrt.Assert(e1 == nil, "date-add-accepts-unit")
	if e1 != nil {
		return
	}
	back, e2 := p.Sub(verifQty(n, unit))
	verifrt.Assert(e2 == nil && back.l == d.l && back.date.Equal(d.date), "add-then-subtract-is-identity-without-clamping")
	q, e3 := d.Add(verifQty(m, unit))
	if e3 == nil && n <= m {
		verifrt.Assert(!q.date.Before(p.date), "date-add-is-monotone-in-the-amount")
	}
	verifrt.Reach("end")
}

// C09-B: DateTime + / - calendar and clock units at every precision (no offset): same precision, equals the reference.
func verifDateTimeAddSub(sub bool, clockUnits bool, half int) {
	verifSplitYM = true
	verifrt.SplitCalendar()
	var dt DateTime
	var c verifCivil
	// half: -1 every layout; 0 / 1 one half of them (the addition of calendar units is two harnesses, to share the work)
	if verifrt.Thorough() {
		dt, c = verifDateTime("dt", false)
		verifrt.Assume(half < 0 || c.rank%2 == half)
	} else {
		// quick: four representative layouts (year, month, day, second with offset designator)
		ls := []int{0, 1, 2, 9}
		if !sub {
			ls = []int{0, 1, 2, 3} // Add re-parses its own rendering: sub-day layouts with seconds are thorough-only
		}
		if half >= 0 {
			ls = []int{ls[half], ls[half+2]}
		}
		dt, c = verifDateTimeL("dt", false, ls[verifrt.Choose("dt.layoutQ", len(ls))])
	}
	units := []string{"year", "years", "month", "months", "week", "weeks", "day", "days", "hour", "hours", "minute", "minutes", "second", "seconds", "millisecond"}
	// the calendar units (year .. day) and the clock units (hour .. millisecond) are two harnesses, to share the work
	ui := verifrt.Choose("unit", 8)
	if clockUnits {
		ui = 8 + verifrt.Choose("unit", len(units)-8)
	}
	if !verifrt.Thorough() {
		verifrt.Assume(ui%2 == 0) // quick: singular keywords only (spelling dispatch is C09_UnitDispatch / C09_TimeDuration)
	}
	n := verifrt.NondetIntRange("n", -verifrt.Bound(13, 25), verifrt.Bound(13, 25))
	q := verifQty(n, units[ui])
	verifrt.Tag("rank", []string{"year", "month", "day", "hour", "minute", "second", "millisecond"}[c.rank])
	verifrt.Tag("unitName", units[ui])
	finer := "no"
	if []int{0, 0, 1, 1, 2, 2, 2, 2, 3, 3, 4, 4, 5, 5, 6}[ui] > c.rank {
		finer = "yes"
	}
	verifrt.Tag("unitFinerThanPrecision", finer)
	var got DateTime
	var err error
	if sub {
		got, err = dt.Sub(q)
		n = -n
	} else {
		got, err = dt.Add(q)
	}
	verifrt.Assert(err == nil, "datetime-arithmetic-accepts-time-valued-units")
	if err != nil {
		return
	}
	verifrt.Assert(got.l == dt.l, "datetime-arithmetic-preserves-precision")
	// reference: convert the amount to whole units of the value's precision first
	// ranks: 0 year 1 month 2 day 3 hour 4 minute 5 second 6 millisecond
	unitRank := []int{0, 0, 1, 1, 2, 2, 2, 2, 3, 3, 4, 4, 5, 5, 6}[ui]
	// amount in milliseconds for clock/day/week units
	perMs := []int64{0, 0, 0, 0, 7 * 86400000, 7 * 86400000, 86400000, 86400000, 3600000, 3600000, 60000, 60000, 1000, 1000, 1}[ui]
	rank := c.rank
	var want time.Time
	base := time.Date(c.y, time.Month(c.mo), c.d, c.h, c.mi, c.s, c.ms*1000000, time.UTC)
	switch {
	case unitRank == 0 && rank >= 2:
		y, m, d := verifAddMonths(c.y, c.mo, c.d, 12*n)
		want = time.Date(y, time.Month(m), d, c.h, c.mi, c.s, c.ms*1000000, time.UTC)
	case unitRank == 0:
		want = time.Date(c.y+n, time.Month(c.mo), 1, 0, 0, 0, 0, time.UTC)
	case unitRank == 1 && rank >= 2:
		y, m, d := verifAddMonths(c.y, c.mo, c.d, n)
		want = time.Date(y, time.Month(m), d, c.h, c.mi, c.s, c.ms*1000000, time.UTC)
	case unitRank == 1 && rank == 1:
		y, m, _ := verifAddMonths(c.y, c.mo, 1, n)
		want = time.Date(y, time.Month(m), 1, 0, 0, 0, 0, time.UTC)
	case unitRank == 1:
		want = time.Date(c.y+n/12, 1, 1, 0, 0, 0, 0, time.UTC)
	default:
		ms := int64(n) * perMs
		switch rank {
		case 0:
			want = time.Date(c.y+int(ms/(365*86400000)), 1, 1, 0, 0, 0, 0, time.UTC)
		case 1:
			y, m, _ := verifAddMonths(c.y, c.mo, 1, int(ms/(30*86400000)))
			want = time.Date(y, time.Month(m), 1, 0, 0, 0, 0, time.UTC)
		default:
			prec := []int64{0, 0, 86400000, 3600000, 60000, 1000, 1}[rank]
			ms = ms / prec * prec
			want = base.Add(time.Duration(ms) * time.Millisecond)
		}
	}
	verifrt.Assert(got.dateTime.Equal(want), "datetime-arithmetic-equals-calendar-reference")
	verifrt.Reach("end")
}

func VerifHarness_C09_DateTimeAdd()             { verifDateTimeAddSub(false, false, 0) }
func VerifHarness_C09_DateTimeAddOtherLayouts() { verifDateTimeAddSub(false, false, 1) }
func VerifHarness_C09_DateTimeSub()             { verifDateTimeAddSub(true, false, -1) }
func VerifHarness_C09_DateTimeAddClockUnits()   { verifDateTimeAddSub(false, true, -1) }
func VerifHarness_C09_DateTimeSubClockUnits()   { verifDateTimeAddSub(true, true, -1) }

// C09-B2: clock units on DateTimes that carry an offset (whole-hour, half-hour and 45-minute zones): the result keeps
// layout and offset and equals the instant plus the amount truncated to the value's precision; (x + q) - q = x.
// The date is fixed (a leap day), time of day and amount are symbolic.
func VerifHarness_C09_DateTimeOffsetClockUnits() {
	verifrt.SplitCalendar()
	li := 7 + verifrt.Choose("layout", 4) // hour, minute, second, millisecond with an offset designator
	rank := verifDTRank(li)
	offMin := []int{0, 330, -480, 825, -30}[verifrt.Choose("offset", 5)]
	loc := time.FixedZone("", offMin*60)
	h := verifrt.NondetIntRange("h", 0, 23)
	mi, s, ms := 0, 0, 0
	if rank >= 4 {
		mi = verifrt.NondetIntRange("mi", 0, 59)
	}
	if rank >= 5 {
		s = verifrt.NondetIntRange("s", 0, 59)
	}
	if rank >= 6 {
		ms = verifrt.NondetIntRange("ms", 0, 999)
	}
	base := time.Date(2020, 2, 29, h, mi, s, ms*1000000, loc)
	dt := DateTime{base, verifDTLayouts[li]}
	units := []string{"hour", "minute", "second", "millisecond"}
	ui := verifrt.Choose("unit", len(units))
	perMs := []int64{3600000, 60000, 1000, 1}[ui]
	n := verifrt.NondetIntRange("n", -verifrt.Bound(200, 5000), verifrt.Bound(200, 5000))
	q := verifQty(n, units[ui])
	verifrt.Tag("rank", []string{"year", "month", "day", "hour", "minute", "second", "millisecond"}[rank])
	verifrt.Tag("unitName", units[ui])
	finer := "no"
	if ui+3 > rank {
		finer = "yes"
	}
	verifrt.Tag("unitFinerThanPrecision", finer)
	got, err := dt.Add(q)
	verifrt.Assert(err == nil, "datetime-arithmetic-accepts-time-valued-units")
	if err != nil {
		return
	}
	verifrt.Assert(got.l == dt.l, "datetime-arithmetic-preserves-precision")
	_, off := got.dateTime.Zone()
	verifrt.Assert(off == offMin*60, "datetime-arithmetic-preserves-offset")
	prec := []int64{0, 0, 86400000, 3600000, 60000, 1000, 1}[rank]
	amount := int64(n) * perMs / prec * prec
	want := base.Add(time.Duration(amount) * time.Millisecond)
	verifrt.Assert(got.dateTime.Equal(want), "datetime-arithmetic-equals-calendar-reference")
	back, err2 := got.Sub(q)
	verifrt.Assert(err2 == nil && back.dateTime.Equal(base) && back.l == dt.l, "adding-then-subtracting-returns-the-value")
	verifrt.Reach("end")
}

// C09-B3: years and months added to a leap day, across the Gregorian century rule (2100 and 1900 are not leap years,
// 2000 and 2400 are): the result clamps to the end of February exactly when the target year has no Feb 29. The start
// year comes from a menu, the amount is symbolic.
func VerifHarness_C09_LeapDayAcrossCenturies() {
	verifrt.SplitCalendar()
	y := []int{2096, 2104, 1996, 1896, 2396}[verifrt.Choose("year", 5)]
	unit := []string{"years", "months"}[verifrt.Choose("unit", 2)]
	var amount, months int
	if unit == "years" {
		amount = verifrt.NondetIntRange("n", -5, 5) // symbolic: the engine case-splits the target year
		months = 12 * amount
	} else {
		amount = []int{48, -48, 36, 60, -96, 1}[verifrt.Choose("months", 6)] // the months route on the same dates
		months = amount
	}
	q := verifQty(amount, unit)
	wy, wm, wd := verifAddMonths(y, 2, 29, months)
	want := time.Date(wy, time.Month(wm), wd, 0, 0, 0, 0, time.UTC)
	if verifrt.NondetBool("dateTime") {
		dt := DateTime{time.Date(y, 2, 29, 10, 30, 0, 0, time.UTC), dtSecondLayout}
		got, err := dt.Add(q)
		verifrt.Assert(err == nil && got.dateTime.Equal(want.Add(10*time.Hour+30*time.Minute)), "leap-day-plus-years-clamps-by-the-gregorian-rule")
		back, err2 := dt.Sub(verifQty(-amount, unit))
		verifrt.Assert(err2 == nil && back.dateTime.Equal(got.dateTime), "subtracting-the-negated-amount-agrees")
	} else {
		d := Date{time.Date(y, 2, 29, 0, 0, 0, 0, time.UTC), dayLayout}
		got, err := d.Add(q)
		verifrt.Assert(err == nil && got.date.Equal(want), "leap-day-plus-years-clamps-by-the-gregorian-rule")
		back, err2 := d.Sub(verifQty(-amount, unit))
		verifrt.Assert(err2 == nil && back.date.Equal(got.date), "subtracting-the-negated-amount-agrees")
	}
	verifrt.Reach("end")
}

// C09: a day is a calendar day and a week seven of them for every amount a date can move by - far beyond what a
// time.Duration holds (106751 days): Date and DateTime plus / minus n days or weeks lands exactly n (7n) days away,
// for every n that keeps the year within 1..9999.
func VerifHarness_C09_LargeDayAndWeekAmounts() {
	weeks := verifrt.NondetBool("weeks")
	n := verifrt.NondetIntRange("n", -700000, 2900000)
	unit, days := "days", int64(n)
	if weeks {
		verifrt.Assume(n >= -100000 && n <= 414000)
		unit, days = "weeks", 7*int64(n)
	}
	q := verifQty(n, unit)
	sub := verifrt.NondetBool("sub")
	if sub {
		days = -days
		verifrt.Assume(days >= -700000 && days <= 2900000)
	}
	if verifrt.NondetBool("dateTime") {
		x := MustParseDateTime("2020-01-01T10:00:00Z")
		var got DateTime
		var err error
		if sub {
			got, err = x.Sub(q)
		} else {
			got, err = x.Add(q)
		}
		verifrt.Assert(err == nil && got.dateTime.Unix() == x.dateTime.Unix()+days*86400, "datetime-moves-by-exactly-that-many-calendar-days")
	} else {
		x := MustParseDate("2020-01-01")
		var got Date
		var err error
		if sub {
			got, err = x.Sub(q)
		} else {
			got, err = x.Add(q)
		}
		verifrt.Assert(err == nil && got.date.Unix() == x.date.Unix()+days*86400, "date-moves-by-exactly-that-many-calendar-days")
	}
	verifrt.Reach("end")
}

// C09: a month-precision element may stand on any day of its month (the proto keeps the day it was built from):
// subtracting n months lands in the month n before it, whatever that day is - also the 29th to 31st, which have no
// counterpart in every month.
func VerifHarness_C09_MonthPrecisionValuesOnAnyDay() {
	day := verifrt.NondetIntRange("day", 1, 31)
	n := verifrt.Choose("months", 15) // (case-split: with both symbolic the solver does not finish the no-counterexample query)
	us := time.Date(2020, 3, day, 0, 0, 0, 0, time.UTC).UnixMicro()
	q := verifQty(n, "months")
	wantY, wantM := 2020, 3-n
	for wantM < 1 {
		wantM, wantY = wantM+12, wantY-1
	}
	want := string([]byte{byte('0' + wantY/1000), byte('0' + wantY/100%10), byte('0' + wantY/10%10), byte('0' + wantY%10), '-', byte('0' + wantM/10), byte('0' + wantM%10)})
	if verifrt.NondetBool("dateTime") {
		x, err := DateTimeFromProto(&dtpb.DateTime{ValueUs: us, Precision: dtpb.DateTime_MONTH, Timezone: "Z"})
		got, err2 := x.Sub(q)
		verifrt.Assert(err == nil && err2 == nil && got.String() == want+"T", "month-precision-datetime-minus-months")
	} else {
		x, err := DateFromProto(&dtpb.Date{ValueUs: us, Precision: dtpb.Date_MONTH, Timezone: "Z"})
		got, err2 := x.Sub(q)
		verifrt.Assert(err == nil && err2 == nil && got.String() == want, "month-precision-date-minus-months")
	}
	verifrt.Reach("end")
}

// C09: a month step that clamps to the end of a shorter month changes the day and nothing else: the time of day -
// hours, minutes, seconds and the fraction - stays, for millisecond-precision values too. Days from a menu (each one
// clamps), the time of day from a menu.
func VerifHarness_C09_MonthClampKeepsTheTimeOfDay() {
	cases := []struct {
		from, to int64 // midnight UTC, seconds
		months   int
	}{{1580428800, 1582934400, 1}, {1585612800, 1588204800, 1}, {1548720000, 1551312000, 1}, {1598832000, 1601424000, 1},
		{1585612800, 1582934400, -1}, {1580428800, 1582934400, 13 - 12}}
	k := cases[verifrt.Choose("case", len(cases))]
	// (time of day and fraction from menus: with them symbolic the addition - which renders and re-parses its result -
	// does not finish in the quick solver budget; the thorough tier's DateTimeAdd harnesses have symbolic clocks)
	ofDay := []int64{0, 36930, 86399}[verifrt.Choose("secondOfDay", 3)]*1000000 + []int64{0, 1, 250, 999}[verifrt.Choose("ms", 4)]*1000
	p := []dtpb.DateTime_Precision{dtpb.DateTime_MILLISECOND, dtpb.DateTime_SECOND}[verifrt.Choose("precision", 2)]
	if p == dtpb.DateTime_SECOND {
		ofDay -= ofDay % 1000000
	}
	dt, err := DateTimeFromProto(&dtpb.DateTime{ValueUs: k.from*1000000 + ofDay, Precision: p, Timezone: "Z"})
	verifrt.Assume(err == nil)
	var got DateTime
	if verifrt.NondetBool("bySubtraction") {
		got, err = dt.Sub(verifQty(-k.months, "months"))
	} else {
		got, err = dt.Add(verifQty(k.months, "months"))
	}
	verifrt.Assert(err == nil, "month-step-is-accepted")
	if err == nil {
		back := got.ToProtoDateTime()
		verifrt.Assert(back.ValueUs == k.to*1000000+ofDay && back.Precision == p, "month-clamp-keeps-the-time-of-day")
	}
	verifrt.Reach("end")
}

// C09: the sum has the UTC offset of the value - also for the precisions whose text writes no offset (year, month, day):
// a dateTime element of such a precision carries its zone, and `+` must not read its own rendering back as UTC. Zone,
// precision, unit and amount from menus; `x + q` is compared with `x - (-q)`, which does not go through text.
func VerifHarness_C09_AdditionKeepsTheOffsetOfTheElement() {
	zone := []string{"+05:30", "-08:00", "Z", "+14:00"}[verifrt.Choose("zone", 4)]
	p := []dtpb.DateTime_Precision{dtpb.DateTime_YEAR, dtpb.DateTime_MONTH, dtpb.DateTime_DAY}[verifrt.Choose("precision", 3)]
	unit := []string{"year", "month", "day"}[verifrt.Choose("unit", 3)]
	n := []int{1, -1, 13}[verifrt.Choose("n", 3)]
	// local midnight of 2020-01-31 in that zone
	zones := map[string]int64{"+05:30": 19800, "-08:00": -28800, "Z": 0, "+14:00": 50400}
	in := &dtpb.DateTime{ValueUs: (1580428800 - zones[zone]) * 1000000, Timezone: zone, Precision: p}
	dt, err := DateTimeFromProto(in)
	verifrt.Assume(err == nil)
	sum, err := dt.Add(verifQty(n, unit+"s"))
	verifrt.Assert(err == nil, "calendar-amount-is-accepted")
	if err != nil {
		return
	}
	got := sum.ToProtoDateTime()
	sameOffset := got.Timezone == zone || (zone == "Z" && (got.Timezone == "+00:00" || got.Timezone == "UTC")) // one offset, three spellings
	verifrt.Assert(sameOffset && got.Precision == p, "sum-has-the-offset-and-precision-of-the-value")
	// units at or above the precision: no conversion or truncation is involved, and '-' of the opposite amount is the same step
	rank := map[string]int{"year": 0, "month": 1, "day": 2}
	if rank[unit] <= int(p-dtpb.DateTime_YEAR) {
		diff, err2 := dt.Sub(verifQty(-n, unit+"s"))
		verifrt.Assert(err2 == nil && sum.String() == diff.String(), "adding-equals-subtracting-the-opposite-amount")
		if p == dtpb.DateTime_DAY && err2 == nil {
			verifrt.Assert(got.ValueUs == diff.ToProtoDateTime().ValueUs, "sum-is-the-same-instant-as-the-difference-of-the-opposite-amount")
		}
	}
	verifrt.Reach("end")
}

// C09: a sum is the value it prints - nothing below its precision survives in it: adding to a sum gives what adding
// to the same value written afresh gives, and its element is the one of that value. Partial Dates and DateTimes,
// amounts and units from menus (the first amount is finer than the precision or not a whole number of its units).
func VerifHarness_C09_SumsCarryNothingBelowTheirPrecision() {
	text := []string{"2020", "2019", "2020-01", "2020-12"}[verifrt.Choose("value", 4)]
	first := []Quantity{verifQty(6, "months"), verifQty(11, "months"), verifQty(13, "months"), verifQty(200, "days"), verifQty(5, "weeks"), verifQty(1, "year")}[verifrt.Choose("first", 6)]
	second := []Quantity{verifQty(6, "months"), verifQty(1, "month"), verifQty(11, "months"), verifQty(200, "days"), verifQty(1, "year")}[verifrt.Choose("second", 5)]
	if verifrt.NondetBool("dateTime") {
		x := MustParseDateTime(text + "T")
		sum, err := x.Add(first)
		verifrt.Assume(err == nil)
		fresh := MustParseDateTime(sum.String())
		a, errA := sum.Add(second)
		b, errB := fresh.Add(second)
		verifrt.Assert((errA == nil) == (errB == nil), "adding-to-a-sum-is-adding-to-the-value-it-prints")
		if errA == nil && errB == nil {
			verifrt.Assert(a.String() == b.String(), "adding-to-a-sum-is-adding-to-the-value-it-prints")
		}
	} else {
		x := MustParseDate(text)
		sum, err := x.Add(first)
		verifrt.Assume(err == nil)
		fresh := MustParseDate(sum.String())
		a, errA := sum.Add(second)
		b, errB := fresh.Add(second)
		verifrt.Assert((errA == nil) == (errB == nil), "adding-to-a-sum-is-adding-to-the-value-it-prints")
		if errA == nil && errB == nil {
			verifrt.Assert(a.String() == b.String(), "adding-to-a-sum-is-adding-to-the-value-it-prints")
		}
		verifrt.Assert(sum.ToProtoDate().ValueUs == fresh.ToProtoDate().ValueUs, "the-element-of-a-sum-is-the-element-of-the-value-it-prints")
	}
	verifrt.Reach("end")
}
