//go:build verif

package system

import (
	"errors"
	"time"

	"github.com/shopspring/decimal"
	"github.com/verily-src/fhirpath-go/internal/verifrt"
)

func verifQty(n int, unit string) Quantity {
	return Quantity{Decimal(decimal.NewFromInt(int64(n))), unit}
}

// C09-A: the rounding helpers return a whole multiple of the unit that lies within one unit of the input.
func VerifHarness_C09_RoundToTimePrecision() {
	d := time.Duration(verifrt.NondetInt64("d"))
	verifrt.Assume(d > -1000*time.Hour && d < 1000*time.Hour)
	p := []timePrecision{hour, minute, second}[verifrt.Choose("p", 3)]
	unit := []time.Duration{time.Hour, time.Minute, 1}[p]
	r := roundToTimePrecision(p, d)
	verifrt.Assert(r%unit == 0 && r-d < unit && d-r < unit, "time-rounding-is-a-multiple-of-the-unit-near-the-input")
	verifrt.Reach("end")
}

func VerifHarness_C09_RoundToDateTimePrecision() {
	d := time.Duration(verifrt.NondetInt64("d"))
	verifrt.Assume(d > -100000*time.Hour && d < 100000*time.Hour)
	pi := verifrt.Choose("p", 6)
	p := []dateTimePrecision{dtYear, dtMonth, dtDay, dtHour, dtMinute, dtSecond}[pi]
	unit := []time.Duration{time.Hour * 24 * 365, time.Hour * 24 * 30, time.Hour * 24, time.Hour, time.Minute, 1}[pi]
	r := roundToDateTimePrecision(p, d)
	verifrt.Assert(r%unit == 0 && r-d < unit && d-r < unit, "datetime-rounding-is-a-multiple-of-the-unit-near-the-input")
	verifrt.Reach("end")
}

// C09-A: a time-valued quantity denotes amount * unit (no wrap-around for amounts up to a million units);
// every calendar keyword, singular and plural; anything else is an error.
func VerifHarness_C09_TimeDuration() {
	units := []string{"hour", "hours", "minute", "minutes", "second", "seconds", "millisecond", "milliseconds", "day", "mg", ""}
	per := []time.Duration{time.Hour, time.Hour, time.Minute, time.Minute, time.Second, time.Second, time.Millisecond, time.Millisecond, 0, 0, 0}
	ui := verifrt.Choose("unit", len(units))
	n := verifrt.NondetIntRange("n", -1000000, 1000000)
	got, err := verifQty(n, units[ui]).timeDuration()
	if per[ui] == 0 {
		verifrt.Assert(err != nil, "non-time-unit-is-an-error")
	} else {
		verifrt.Assert(err == nil && got == time.Duration(n)*per[ui], "duration-is-amount-times-unit")
	}
	verifrt.Reach("end")
}

// C09-A: conversion of finer units to whole years / months (1 year = 365 days = 12 months, 1 month = 30 days, a week is 7 days).
func VerifHarness_C09_ToYearsMonths() {
	units := []string{"year", "years", "month", "months", "week", "weeks", "day", "days", "hour", "hours", "minute", "minutes", "second", "seconds", "millisecond", "milliseconds", "mg"}
	ui := verifrt.Choose("unit", len(units))
	n := verifrt.NondetIntRange("n", -100000, 100000)
	q := verifQty(n, units[ui])
	y, errY := q.toYears()
	m, errM := q.toMonths()
	var days int64
	ok := true
	switch ui / 2 {
	case 0:
		verifrt.Assert(errY == nil && errM == nil && y == n && m == n*12, "years-convert")
		verifrt.Reach("end")
		return
	case 1:
		verifrt.Assert(errY == nil && errM == nil && y == n/12 && m == n, "months-convert")
		verifrt.Reach("end")
		return
	case 2:
		days = int64(n) * 7
	case 3:
		days = int64(n)
	case 4:
		days = int64(n) / 24
	case 5:
		days = int64(n) / (24 * 60)
	case 6:
		days = int64(n) / (24 * 60 * 60)
	case 7:
		days = int64(n) / (24 * 60 * 60 * 1000)
	default:
		ok = false
	}
	if !ok {
		verifrt.Assert(errY != nil && errM != nil, "non-time-unit-is-an-error")
	} else {
		verifrt.Assert(errY == nil && errM == nil && int64(y) == days/365 && int64(m) == days/30, "finer-units-convert-with-fractions-dropped")
	}
	verifrt.Reach("end")
}

// C09-A: Time + / - a time-valued quantity: same precision, wraps around midnight, amount first reduced to whole
// units of the value's precision.
func VerifHarness_C09_TimeAddSub() {
	t, c := verifTime("t")
	units := []string{"hour", "hours", "minute", "minutes", "second", "seconds", "millisecond"}
	perMs := []int64{3600000, 3600000, 60000, 60000, 1000, 1000, 1}
	ui := verifrt.Choose("unit", len(units))
	n := verifrt.NondetIntRange("n", -100, 100)
	sub := verifrt.NondetBool("sub")
	var got Time
	var err error
	if sub {
		got, err = t.Sub(verifQty(n, units[ui]))
	} else {
		got, err = t.Add(verifQty(n, units[ui]))
	}
	verifrt.Assert(err == nil, "time-arithmetic-accepts-time-valued-units")
	if err != nil {
		return
	}
	verifrt.Assert(got.l == t.l, "time-arithmetic-preserves-precision")
	// reference in milliseconds of the day
	amount := int64(n) * perMs[ui]
	precMs := []int64{3600000, 60000, 1000, 1}[c.rank]
	amount = amount / precMs * precMs // whole units of the value's precision, fractions dropped
	if sub {
		amount = -amount
	}
	base := ((int64(c.h)*60+int64(c.mi))*60+int64(c.s))*1000 + int64(c.ms)
	want := ((base+amount)%86400000 + 86400000) % 86400000
	ref := Time{time.Date(0, 1, 1, 0, 0, 0, 0, time.UTC).Add(time.Duration(want) * time.Millisecond), t.l}
	eq, has := got.TryEqual(ref)
	verifrt.Assert(has && eq, "time-arithmetic-wraps-around-midnight-and-equals-reference")
	verifrt.Reach("end")
}

// C09-A: units that are not time-valued are an error rather than a silently unchanged value.
func VerifHarness_C09_UnitDispatch() {
	bad := []string{"mg", "", "Year", "d", "wk", "month "}[verifrt.Choose("unit", 6)]
	q := verifQty(verifrt.NondetIntRange("n", -5, 5), bad)
	switch verifrt.Choose("kind", 3) {
	case 0:
		d, _ := verifDate("d")
		_, e1 := d.Add(q)
		_, e2 := d.Sub(q)
		verifrt.Assert(e1 != nil && e2 != nil && errors.Is(e1, ErrMismatchedUnit), "date-rejects-non-time-unit")
	case 1:
		t, _ := verifTime("t")
		_, e1 := t.Add(q)
		_, e2 := t.Sub(q)
		verifrt.Assert(e1 != nil && e2 != nil, "time-rejects-non-time-unit")
	default:
		dt, _ := verifDateTime("dt", false)
		_, e1 := dt.Add(q)
		_, e2 := dt.Sub(q)
		verifrt.Assert(e1 != nil && e2 != nil, "datetime-rejects-non-time-unit")
	}
	verifrt.Reach("end")
}

// C09: quantities add and subtract only within one unit.
func VerifHarness_C09_QuantityAddSub() {
	units := []string{"mg", "kg", "days", ""}
	ua, ub := units[verifrt.Choose("ua", 4)], units[verifrt.Choose("ub", 4)]
	va, vb := verifrt.NondetIntRange("va", -1000, 1000), verifrt.NondetIntRange("vb", -1000, 1000)
	a, b := verifQty(va, ua), verifQty(vb, ub)
	s, e1 := a.Add(b)
	d, e2 := a.Sub(b)
	if ua != ub {
		verifrt.Assert(errors.Is(e1, ErrMismatchedUnit) && errors.Is(e2, ErrMismatchedUnit), "quantity-arithmetic-rejects-different-units")
	} else {
		verifrt.Assert(e1 == nil && e2 == nil && s.unit == ua && d.unit == ua &&
			decimal.Decimal(s.value).Equal(decimal.NewFromInt(int64(va+vb))) && decimal.Decimal(d.value).Equal(decimal.NewFromInt(int64(va-vb))), "quantity-arithmetic-exact-within-unit")
	}
	verifrt.Reach("end")
}
