//go:build verif

package system

import (
	"errors"
	"time"

	"github.com/shopspring/decimal"
	"github.com/verily-src/fhirpath-go/internal/verifrt"
)

func verifQty(n int, unit string) Quantity {
	return Quantity{Decimal(decimal.NewFromInt(int64(n))), unit}
}

// C09-A: the rounding helpers return a whole multiple of the unit that lies within one unit of the input.
func VerifHarness_C09_RoundToTimePrecision() {
	d := time.Duration(verifrt.NondetInt64("d"))
	verifrt.Assume(d > -1000*time.Hour && d < 1000*time.Hour)
	p := []timePrecision{hour, minute, second}[verifrt.Choose("p", 3)]
	unit := []time.Duration{time.Hour, time.Minute, 1}[p]
	r := roundToTimePrecision(p, d)
	verifrt.Assert(r%unit == 0 && r-d < unit && d-r < unit, "time-rounding-is-a-multiple-of-the-unit-near-the-input")
	verifrt.Reach("end")
}

func VerifHarness_C09_RoundToDateTimePrecision() {
	d := time.Duration(verifrt.NondetInt64("d"))
	verifrt.Assume(d > -100000*time.Hour && d < 100000*time.Hour)
	pi := verifrt.Choose("p", 6)
	p := []dateTimePrecision{dtYear, dtMonth, dtDay, dtHour, dtMinute, dtSecond}[pi]
	unit := []time.Duration{time.Hour * 24 * 365, time.Hour * 24 * 30, time.Hour * 24, time.Hour, time.Minute, 1}[pi]
	r := roundToDateTimePrecision(p, d)
	verifrt.Assert(r%unit == 0 && r-d < unit && d-r < unit, "datetime-rounding-is-a-multiple-of-the-unit-near-the-input")
	verifrt.Reach("end")
}

// C09-A: a time-valued quantity denotes amount * unit (no wrap-around for amounts up to a million units);
// every calendar keyword, singular and plural; anything else is an error.
func VerifHarness_C09_TimeDuration() {
	units := []string{"hour", "hours", "minute", "minutes", "second", "seconds", "millisecond", "milliseconds", "day", "mg", ""}
	per := []time.Duration{time.Hour, time.Hour, time.Minute, time.Minute, time.Second, time.Second, time.Millisecond, time.Millisecond, 0, 0, 0}
	ui := verifrt.Choose("unit", len(units))
	n := verifrt.NondetIntRange("n", -1000000, 1000000)
	got, err := verifQty(n, units[ui]).timeDuration()
	if per[ui] == 0 {
		verifrt.Assert(err != nil, "non-time-unit-is-an-error")
	} else {
		verifrt.Assert(err == nil && got == time.Duration(n)*per[ui], "duration-is-amount-times-unit")
	}
	verifrt.Reach("end")
}

// C09-A: a fractional amount keeps its whole units only, whatever its sign (fractions are dropped, not rounded down:
// x + (-1.5 hours) is x - 1 hour, the mirror image of x + 1.5 hours); seconds keep their milliseconds.
func VerifHarness_C09_TimeDurationOfFractionalAmounts() {
	units := []string{"hour", "hours", "minute", "minutes", "second", "seconds", "millisecond", "milliseconds"}
	per := []time.Duration{time.Hour, time.Hour, time.Minute, time.Minute, time.Second, time.Second, time.Millisecond, time.Millisecond}
	ui := verifrt.Choose("unit", len(units))
	k := verifrt.NondetIntRange("tenths", -100000, 100000) // the amount is k/10
	q := Quantity{Decimal(decimal.New(int64(k), -1)), units[ui]}
	got, err := q.timeDuration()
	want := time.Duration(k/10) * per[ui] // Go's integer division truncates toward zero
	if per[ui] == time.Second {
		want = time.Duration(k) * 100 * time.Millisecond
	}
	verifrt.Assert(err == nil && got == want, "fractions-of-the-unit-are-dropped-toward-zero")
	neg, err2 := Quantity{Decimal(decimal.New(int64(-k), -1)), units[ui]}.timeDuration()
	verifrt.Assert(err2 == nil && neg == -got, "negated-amount-is-the-negated-duration")
	verifrt.Reach("end")
}

// C09: an amount too large for the conversions (to int, to time.Duration, to calendar steps) is refused with an error,
// for every unit and every 64-bit amount, also scaled by a thousand beyond 64 bits: the result is never a date or
// time that silently wrapped around (@2020-01-01 + 18446744073709551617 days was 2020-01-02).
func VerifHarness_C09_HugeAmountsAreRefused() {
	units := []string{"year", "month", "week", "day", "hour", "minute", "second", "millisecond"}
	ui := verifrt.Choose("unit", len(units))
	n := verifrt.NondetInt64("n")
	// ten thousand years in each unit (clock units: what a time.Duration holds is less, and also enough)
	limit := []int64{10000, 120000, 530000, 3660000, 87840000, 5270400000, 316224000000, 316224000000000}[ui]
	verifrt.Assume(n > limit || n < -limit)
	exp := int32(3 * verifrt.Choose("thousands", 2))
	q := Quantity{Decimal(decimal.New(n, exp)), units[ui]}
	switch verifrt.Choose("target", 3) {
	case 0:
		d := MustParseDate([]string{"2020", "2020-01", "2020-01-01"}[verifrt.Choose("dp", 3)])
		_, err := d.Add(q)
		_, err2 := d.Sub(q)
		verifrt.Assert(err != nil && err2 != nil, "huge-amount-is-an-error-for-dates")
	case 1:
		dt := MustParseDateTime([]string{"2020T", "2020-01-01T10", "2020-01-01T10:00:00Z", "2020-01-01T10:00:00.000+02:00"}[verifrt.Choose("dtp", 4)])
		_, err := dt.Add(q)
		_, err2 := dt.Sub(q)
		verifrt.Assert(err != nil && err2 != nil, "huge-amount-is-an-error-for-datetimes")
	default:
		// a Time wraps around midnight: the exact wrapped value is as good as a refusal, anything else is wrong
		verifrt.Assume(ui >= 4 && exp == 0)
		rank := verifrt.Choose("tp", 4)
		t := MustParseTime([]string{"10", "10:00", "10:00:00", "10:00:00.000"}[rank])
		per := []int64{3600000, 60000, 1000, 1}[ui-4]
		prec := []int64{3600000, 60000, 1000, 1}[rank]
		var amount int64 // in milliseconds, modulo one day
		if per >= prec {
			amount = n % (86400000 / per) * per
		} else {
			amount = n / (prec / per) % (86400000 / prec) * prec // whole units of the value's precision first
		}
		base := int64(10 * 3600000)
		for k, sub := range []bool{false, true} {
			var got Time
			var err error
			a := amount
			if sub {
				got, err = t.Sub(q)
				a = -amount
			} else {
				got, err = t.Add(q)
			}
			_ = k
			want := ((base+a)%86400000 + 86400000) % 86400000
			ok := err != nil
			if err == nil {
				ref := Time{time.Date(0, 1, 1, 0, 0, 0, 0, time.UTC).Add(time.Duration(want) * time.Millisecond), t.l}
				eq, has := got.TryEqual(ref)
				ok = has && eq
			}
			verifrt.Assert(ok, "huge-amount-is-refused-or-wraps-around-midnight-exactly")
		}
	}
	verifrt.Reach("end")
}

// C09-A: conversion of finer units to whole years / months (1 year = 365 days = 12 months, 1 month = 30 days, a week is 7 days).
func VerifHarness_C09_ToYearsMonths() {
	units := []string{"year", "years", "month", "months", "week", "weeks", "day", "days", "hour", "hours", "minute", "minutes", "second", "seconds", "millisecond", "milliseconds", "mg"}
	ui := verifrt.Choose("unit", len(units))
	n := verifrt.NondetIntRange("n", -100000, 100000)
	q := verifQty(n, units[ui])
	y, errY := q.toYears()
	m, errM := q.toMonths()
	var days int64
	ok := true
	switch ui / 2 {
	case 0:
		if n > 10000 || n < -10000 {
			// more than ten thousand years: no date moves that far, the amount is refused (the operator yields empty)
			verifrt.Assert(errors.Is(errY, ErrIntOverflow) && errors.Is(errM, ErrIntOverflow), "amount-beyond-ten-thousand-years-is-refused")
			verifrt.Reach("end")
			return
		}
		verifrt.Assert(errY == nil && errM == nil && y == n && m == n*12, "years-convert")
		verifrt.Reach("end")
		return
	case 1:
		verifrt.Assert(errY == nil && errM == nil && y == n/12 && m == n, "months-convert")
		verifrt.Reach("end")
		return
	case 2:
		days = int64(n) * 7
	case 3:
		days = int64(n)
	case 4:
		days = int64(n) / 24
	case 5:
		days = int64(n) / (24 * 60)
	case 6:
		days = int64(n) / (24 * 60 * 60)
	case 7:
		days = int64(n) / (24 * 60 * 60 * 1000)
	default:
		ok = false
	}
	if !ok {
		verifrt.Assert(errY != nil && errM != nil, "non-time-unit-is-an-error")
	} else {
		verifrt.Assert(errY == nil && errM == nil && int64(y) == days/365 && int64(m) == days/30, "finer-units-convert-with-fractions-dropped")
	}
	verifrt.Reach("end")
}

// C09-A: Time + / - a time-valued quantity: same precision, wraps around midnight, amount first reduced to whole
// units of the value's precision.
func VerifHarness_C09_TimeAddSub() {
	t, c := verifTime("t")
	units := []string{"hour", "hours", "minute", "minutes", "second", "seconds", "millisecond"}
	perMs := []int64{3600000, 3600000, 60000, 60000, 1000, 1000, 1}
	ui := verifrt.Choose("unit", len(units))
	n := verifrt.NondetIntRange("n", -100, 100)
	sub := verifrt.NondetBool("sub")
	var got Time
	var err error
	if sub {
		got, err = t.Sub(verifQty(n, units[ui]))
	} else {
		got, err = t.Add(verifQty(n, units[ui]))
	}
	verifrt.Assert(err == nil, "time-arithmetic-accepts-time-valued-units")
	if err != nil {
		return
	}
	verifrt.Assert(got.l == t.l, "time-arithmetic-preserves-precision")
	// reference in milliseconds of the day
	amount := int64(n) * perMs[ui]
	precMs := []int64{3600000, 60000, 1000, 1}[c.rank]
	amount = amount / precMs * precMs // whole units of the value's precision, fractions dropped
	if sub {
		amount = -amount
	}
	base := ((int64(c.h)*60+int64(c.mi))*60+int64(c.s))*1000 + int64(c.ms)
	want := ((base+amount)%86400000 + 86400000) % 86400000
	ref := Time{time.Date(0, 1, 1, 0, 0, 0, 0, time.UTC).Add(time.Duration(want) * time.Millisecond), t.l}
	eq, has := got.TryEqual(ref)
	verifrt.Assert(has && eq, "time-arithmetic-wraps-around-midnight-and-equals-reference")
	verifrt.Reach("end")
}

// C09-A: units that are not time-valued are an error rather than a silently unchanged value.
func VerifHarness_C09_UnitDispatch() {
	bad := []string{"mg", "", "Year", "d", "wk", "month "}[verifrt.Choose("unit", 6)]
	q := verifQty(verifrt.NondetIntRange("n", -5, 5), bad)
	switch verifrt.Choose("kind", 3) {
	case 0:
		d, _ := verifDate("d")
		_, e1 := d.Add(q)
		_, e2 := d.Sub(q)
		verifrt.Assert(e1 != nil && e2 != nil && errors.Is(e1, ErrMismatchedUnit), "date-rejects-non-time-unit")
	case 1:
		t, _ := verifTime("t")
		_, e1 := t.Add(q)
		_, e2 := t.Sub(q)
		verifrt.Assert(e1 != nil && e2 != nil, "time-rejects-non-time-unit")
	default:
		dt, _ := verifDateTime("dt", false)
		_, e1 := dt.Add(q)
		_, e2 := dt.Sub(q)
		verifrt.Assert(e1 != nil && e2 != nil, "datetime-rejects-non-time-unit")
	}
	verifrt.Reach("end")
}

// C09: quantities add and subtract only within one unit.
func VerifHarness_C09_QuantityAddSub() {
	// a unit is one unit only as the same string (UCUM codes are case sensitive: 'mg' milligram, 'Mg' megagram):
	// besides the menu both units are arbitrary two-byte strings
	unit := func(label string) string {
		units := []string{"mg", "kg", "days", "", "Mg", "Days"}
		if k := verifrt.Choose(label, len(units)+1); k < len(units) {
			return units[k]
		}
		return verifrt.NondetStringN(label+".s", 2)
	}
	ua, ub := unit("ua"), unit("ub")
	va, vb := verifrt.NondetIntRange("va", -1000, 1000), verifrt.NondetIntRange("vb", -1000, 1000)
	a, b := verifQty(va, ua), verifQty(vb, ub)
	s, e1 := a.Add(b)
	d, e2 := a.Sub(b)
	if ua != ub {
		verifrt.Assert(errors.Is(e1, ErrMismatchedUnit) && errors.Is(e2, ErrMismatchedUnit), "quantity-arithmetic-rejects-different-units")
	} else {
		verifrt.Assert(e1 == nil && e2 == nil && s.unit == ua && d.unit == ua &&
			decimal.Decimal(s.value).Equal(decimal.NewFromInt(int64(va+vb))) && decimal.Decimal(d.value).Equal(decimal.NewFromInt(int64(va-vb))), "quantity-arithmetic-exact-within-unit")
	}
	verifrt.Reach("end")
}
