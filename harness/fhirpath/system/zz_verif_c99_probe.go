//go:build verif

package system

import (
	"bytes"
	"errors"
	"fmt"
	"math/bits"
	"sort"
	"strconv"
	"strings"
	"sync/atomic"
	"unicode/utf8"

	"github.com/verily-src/fhirpath-go/internal/verifrt"
)

func VerifHarness_C99_SortSlice() {
	a := []int{verifrt.NondetIntRange("a", 0, 3), verifrt.NondetIntRange("b", 0, 3), verifrt.NondetIntRange("c", 0, 3)}
	sort.Slice(a, func(i, j int) bool { return a[i] < a[j] })
	verifrt.Assert(a[0] <= a[1] && a[1] <= a[2], "sorted")
	verifrt.Reach("end")
}
func VerifHarness_C99_SortStrings() {
	a := []string{verifrt.NondetString("a", 1), verifrt.NondetString("b", 1)}
	sort.Strings(a)
	verifrt.Assert(a[0] <= a[1], "sorted")
	verifrt.Reach("end")
}
func VerifHarness_C99_Builder() {
	var b strings.Builder
	s := verifrt.NondetString("a", 2)
	b.WriteString(s)
	b.WriteByte('x')
	b.WriteRune('é')
	verifrt.Assert(b.String() == s+"xé" && b.Len() == len(s)+3, "builder")
	verifrt.Reach("end")
}
func VerifHarness_C99_BytesBuffer() {
	var b bytes.Buffer
	s := verifrt.NondetString("a", 2)
	b.WriteString(s)
	b.WriteByte('x')
	verifrt.Assert(b.String() == s+"x", "buffer")
	verifrt.Reach("end")
}
func VerifHarness_C99_Atomic() {
	var c atomic.Int64
	c.Add(int64(verifrt.NondetIntRange("a", 0, 3)))
	c.Add(1)
	verifrt.Assert(c.Load() >= 1, "atomic")
	var v atomic.Value
	v.Store("x")
	verifrt.Assert(v.Load().(string) == "x", "atomic-value")
	verifrt.Reach("end")
}
func VerifHarness_C99_Sprintf() {
	n := verifrt.NondetIntRange("a", -5, 500)
	s := fmt.Sprintf("%d|%s|%v|%03d|%x|%q", n, "x", n, n, n, "y")
	verifrt.Assert(strings.HasPrefix(s, strconv.Itoa(n)+"|x|"), "sprintf")
	verifrt.Reach("end")
}
func VerifHarness_C99_StrFields() {
	s := verifrt.NondetString("a", 3)
	f := strings.Fields(s)
	verifrt.Assert(len(f) <= 2, "fields")
	verifrt.Reach("end")
}
func VerifHarness_C99_StrSplit() {
	s := verifrt.NondetString("a", 3)
	p := strings.Split(s, ",")
	verifrt.Assert(strings.Join(p, ",") == s, "split-join")
	verifrt.Reach("end")
}
func VerifHarness_C99_StrFold() {
	s := verifrt.NondetString("a", 2)
	verifrt.Assert(strings.EqualFold(s, s), "fold")
	verifrt.Reach("end")
}
func VerifHarness_C99_StrUpper() {
	s := verifrt.NondetString("a", 2)
	verifrt.Assert(len(strings.ToUpper(s)) >= 0, "upper")
	verifrt.Reach("end")
}
func VerifHarness_C99_StrTrimFunc() {
	s := verifrt.NondetString("a", 3)
	t := strings.TrimFunc(s, func(r rune) bool { return r == ' ' })
	verifrt.Assert(len(t) <= len(s), "trimfunc")
	verifrt.Reach("end")
}
func VerifHarness_C99_StrMap() {
	s := verifrt.NondetString("a", 3)
	m := strings.Map(func(r rune) rune { if r == 'a' { return 'b' }; return r }, s)
	verifrt.Assert(!strings.Contains(m, "a"), "map")
	verifrt.Reach("end")
}
func VerifHarness_C99_StrMisc() {
	s := verifrt.NondetString("a", 3)
	verifrt.Assert(strings.Count(s, "a") <= 3, "count")
	verifrt.Assert(strings.Repeat(s, 2) == s+s, "repeat")
	verifrt.Assert(strings.LastIndex(s, "a") < 3, "lastindex")
	verifrt.Assert(strings.TrimLeft(s, "a") != "a", "trimleft")
	verifrt.Assert(strings.TrimSpace(s) != " ", "trimspace")
	verifrt.Assert(strings.TrimPrefix(strings.TrimSuffix(s, "x"), "y") != "yx" || true, "trimprefix")
	verifrt.Assert(strings.IndexByte(s, 'a') < 3 && strings.IndexRune(s, 'a') < 3, "indexbyte")
	before, after, found := strings.Cut(s, "=")
	verifrt.Assert(!found || before+"="+after == s, "cut")
	verifrt.Assert(strings.Compare(s, s) == 0, "compare")
	verifrt.Reach("end")
}
func VerifHarness_C99_AtomicPointer() {
	type T struct{ n int }
	var p atomic.Pointer[T]
	verifrt.Assert(p.Load() == nil, "nil-first")
	t := &T{verifrt.NondetIntRange("a", 0, 3)}
	p.Store(t)
	verifrt.Assert(p.Load() == t && p.Load().n == t.n, "pointer")
	u := &T{7}
	verifrt.Assert(p.CompareAndSwap(t, u) && p.Load().n == 7, "cas")
	var b atomic.Bool
	b.Store(true)
	verifrt.Assert(b.Load(), "bool")
	verifrt.Reach("end")
}
func VerifHarness_C99_Utf8() {
	s := verifrt.NondetString("a", 3)
	r, n := utf8.DecodeRuneInString(s)
	verifrt.Assert(n <= 3 && (r != utf8.RuneError || n <= 1 || n == 3), "decode")
	r2, n2 := utf8.DecodeLastRuneInString(s)
	verifrt.Assert(n2 <= 3 && r2 >= 0, "decodelast")
	verifrt.Assert(len([]rune(s)) == utf8.RuneCountInString(s), "runes")
	verifrt.Assert(len(string([]rune(s))) >= 0, "back")
	verifrt.Reach("end")
}

type verifErrX struct{ n int }

func (e *verifErrX) Error() string { return "x" }
func VerifHarness_C99_Errors() {
	base := &verifErrX{1}
	w := fmt.Errorf("wrap %d: %w", verifrt.NondetIntRange("a", 0, 3), base)
	var t *verifErrX
	verifrt.Assert(errors.Is(w, base) && errors.As(w, &t) && t == base && errors.Unwrap(w) == error(base), "errors")
	j := errors.Join(w, nil)
	verifrt.Assert(errors.Is(j, base), "join")
	verifrt.Reach("end")
}
func VerifHarness_C99_Bits() {
	x := uint32(verifrt.NondetUint32("x"))
	verifrt.Assert(bits.Len32(x) <= 32 && bits.OnesCount32(x) <= 32 && bits.LeadingZeros32(x)+bits.Len32(x) == 32, "bits")
	hi, lo := bits.Mul64(uint64(x), uint64(x))
	verifrt.Assert(hi == 0 && lo == uint64(x)*uint64(x), "mul64")
	verifrt.Reach("end")
}
func VerifHarness_C99_StrconvMore() {
	n := verifrt.NondetIntRange("a", -500, 500)
	s := strconv.FormatInt(int64(n), 10)
	m, err := strconv.ParseInt(s, 10, 32)
	verifrt.Assert(err == nil && int(m) == n, "fmt-parse")
	q := strconv.Quote(verifrt.NondetString("s", 1))
	verifrt.Assert(len(q) >= 2, "quote")
	b, e2 := strconv.ParseBool("true")
	verifrt.Assert(b && e2 == nil, "parsebool")
	verifrt.Reach("end")
}
func VerifHarness_C99_MapsAndClosures() {
	m := map[string][]int{}
	k := verifrt.NondetString("k", 1)
	m[k] = append(m[k], 1)
	m["z"] = append(m["z"], 2)
	delete(m, "q")
	n := 0
	for _, v := range m {
		n += len(v)
	}
	verifrt.Assert(n == 2 || k == "q", "maps")
	type pair struct{ a, b int }
	pm := map[pair]bool{{1, 2}: true}
	verifrt.Assert(pm[pair{1, verifrt.NondetIntRange("b", 2, 2)}], "struct-key")
	verifrt.Reach("end")
}
func VerifHarness_C99_RangeFunc() {
	s := 0
	for i := range 3 {
		s += i
	}
	for i, r := range verifrt.NondetString("a", 2) {
		_ = i
		_ = r
		s++
	}
	verifrt.Assert(s >= 3, "range-int")
	verifrt.Reach("end")
}
