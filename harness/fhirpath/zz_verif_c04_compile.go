//go:build verif

package fhirpath

import (
	"github.com/verily-src/fhirpath-go/fhirpath/compopts"
	"github.com/verily-src/fhirpath-go/fhirpath/system"
	"github.com/verily-src/fhirpath-go/internal/verifrt"
)

// C04: Compile calls are isolated: what a call accepts and what its expression means depend on that call's text and
// options only - not on what was compiled before it, with or without options. A function registered through an option
// exists only in the expression being compiled. The source texts come from a menu and run through the real recogniser
// (executed from its source: the engine runs it as ordinary concrete code); the history of calls is the harness's choice.
func VerifHarness_C04_CompileCallsAreIsolated() {
	verifrt.LongRun()
	tag := verifrt.NondetInt32("tag")
	custom := compopts.AddFunction("probe", func(in system.Collection) (system.Collection, error) {
		return system.Collection{system.Integer(tag)}, nil
	})
	text := []string{"probe()", "1 = probe()", "{}.probe()"}[verifrt.Choose("text", 3)]
	history := verifrt.Choose("history", 3)
	if history >= 1 {
		// an earlier call registered the function for itself
		e, err := Compile(text, custom)
		verifrt.Assert(err == nil && e != nil, "text-compiles-with-its-function")
	}
	if history == 2 {
		// ... and yet another one compiled something else in between
		_, _ = Compile("1 + 1")
	}
	e, err := Compile(text)
	verifrt.Assert(err != nil && e == nil, "a-function-registered-by-another-compile-call-does-not-exist-here")
	// and the other way round: a failed plain compile does not stop the call that brings the function
	e2, err2 := Compile(text, custom)
	verifrt.Assert(err2 == nil && e2 != nil, "text-compiles-with-its-function")
	if err2 == nil {
		out, errE := e2.Evaluate(nil)
		want := text != "1 = probe()" || tag == 1
		_ = want
		verifrt.Assert(errE == nil && len(out) == 1, "the-compiled-expression-evaluates")
	}
	verifrt.Reach("end")
}
