//go:build verif

package fhirpath

import (
	dtpb "github.com/google/fhir/go/proto/google/fhir/proto/r4/core/datatypes_go_proto"
	ppb "github.com/google/fhir/go/proto/google/fhir/proto/r4/core/resources/patient_go_proto"
	"github.com/verily-src/fhirpath-go/fhirpath/internal/expr"
	"github.com/verily-src/fhirpath-go/fhirpath/system"
	"github.com/verily-src/fhirpath-go/internal/fhir"
	"github.com/verily-src/fhirpath-go/internal/verifrt"
)

// verifIdentity is a compiled expression's stand-in that yields its input collection itself, or a part of it - what
// $this, %context, take(), skip() and tail() do.
type verifIdentity struct{ skip int }

func (v *verifIdentity) Evaluate(ctx *expr.Context, in system.Collection) (system.Collection, error) {
	if v.skip <= len(in) {
		return in[v.skip:], nil
	}
	return in, nil
}

// C03: evaluating leaves the compiled expression and the caller's list of resources unchanged, and what one evaluation
// returned is not rewritten by the next: the public Evaluate keeps nothing of an evaluation in the expression.
func VerifHarness_C03_EvaluateKeepsNothingInTheExpression() {
	a := &ppb.Patient{Id: &dtpb.Id{Value: "a"}}
	b := &ppb.Patient{Id: &dtpb.Id{Value: "b"}}
	c := &ppb.Patient{Id: &dtpb.Id{Value: "c"}}
	e := &Expression{expression: &verifIdentity{skip: verifrt.Choose("skip", 2)}, path: "$this"}
	first := []fhir.Resource{a, b}
	if verifrt.NondetBool("oneResource") {
		first = []fhir.Resource{a}
	}
	verifrt.Protect("compiled expression", e)
	r1, err1 := e.Evaluate(first)
	verifrt.CheckFrames()
	kept := append(system.Collection{}, r1...)
	r2, err2 := e.Evaluate([]fhir.Resource{c, c})
	verifrt.CheckFrames()
	verifrt.Assert(err1 == nil && err2 == nil, "evaluation-succeeds")
	verifrt.Assert(first[0] == fhir.Resource(a) && (len(first) == 1 || first[1] == fhir.Resource(b)), "the-caller's-list-of-resources-is-unchanged")
	same := len(r1) == len(kept)
	for i := 0; same && i < len(kept); i++ {
		same = r1[i] == kept[i]
	}
	verifrt.Assert(same, "an-earlier-result-is-not-rewritten-by-a-later-evaluation")
	for _, item := range r2 {
		verifrt.Assert(item == any(c), "a-result-holds-the-resources-of-its-own-evaluation")
	}
	verifrt.Reach("end")
}
