//go:build verif

package fhirpath

import (
	"time"

	"github.com/verily-src/fhirpath-go/fhirpath/evalopts"
	"github.com/verily-src/fhirpath-go/internal/verifrt"
)

// C04: each evaluation gets its own context (nothing per-evaluation is shared between calls), reads the clock at most
// once, and uses the OverrideTime value when given.
func VerifHarness_C04_FreshContextOneClockRead() {
	p1, p2 := &verifProbe{}, &verifProbe{}
	e1 := &Expression{expression: p1, path: "p1"}
	e2 := &Expression{expression: p2, path: "p2"}
	before := verifrt.ClockReads()
	_, err1 := e1.Evaluate(nil)
	mid := verifrt.ClockReads()
	_, err2 := e2.Evaluate(nil, evalopts.EnvVariable("x", nil2any(1)))
	verifrt.Assert(err1 == nil, "plain-evaluation-succeeds")
	_ = err2
	verifrt.Assert(before == -1 || mid-before == 1, "one-clock-read-per-evaluation")
	if p1.ctx != nil && p2.ctx != nil {
		verifrt.Assert(p1.ctx != p2.ctx, "context-is-fresh-per-evaluation")
		p1.ctx.ExternalConstants["leak"] = 1
		_, leaked := p2.ctx.ExternalConstants["leak"]
		verifrt.Assert(!leaked, "variable-maps-are-not-shared-between-evaluations")
		c := p1.ctx.Clone()
		verifrt.Assert(c != p1.ctx && c.Now.Equal(p1.ctx.Now), "clone-copies-the-instant")
	}
	// OverrideTime: the evaluation's instant is exactly the given one
	t := time.Unix(int64(verifrt.NondetIntRange("sec", 0, 4102444799)), int64(verifrt.NondetIntRange("nsec", 0, 999999999))).UTC()
	p3 := &verifProbe{}
	_, err3 := (&Expression{expression: p3, path: "p3"}).Evaluate(nil, evalopts.OverrideTime(t))
	verifrt.Assert(err3 == nil && p3.ctx != nil && p3.ctx.Now.Equal(t), "override-time-is-the-evaluation-instant")
	verifrt.Reach("end")
}

func nil2any(x int) any { return nil }
