//go:build verif

package fhirpath

import (
	dtpb "github.com/google/fhir/go/proto/google/fhir/proto/r4/core/datatypes_go_proto"
	bcrpb "github.com/google/fhir/go/proto/google/fhir/proto/r4/core/resources/bundle_and_contained_resource_go_proto"
	ppb "github.com/google/fhir/go/proto/google/fhir/proto/r4/core/resources/patient_go_proto"
	"github.com/verily-src/fhirpath-go/fhirpath/evalopts"
	"github.com/verily-src/fhirpath-go/fhirpath/internal/expr"
	"github.com/verily-src/fhirpath-go/fhirpath/internal/funcs/impl"
	"github.com/verily-src/fhirpath-go/fhirpath/system"
	"github.com/verily-src/fhirpath-go/internal/fhir"
	"github.com/verily-src/fhirpath-go/internal/verifrt"
)

// verifFn adapts a built-in to an expression node over the input collection.
type verifFn struct {
	target expr.Expression
	fn     func(*expr.Context, system.Collection, ...expr.Expression) (system.Collection, error)
}

func (f *verifFn) Evaluate(ctx *expr.Context, in system.Collection) (system.Collection, error) {
	recv, err := f.target.Evaluate(ctx, in)
	if err != nil {
		return nil, err
	}
	return f.fn(ctx, recv)
}

// C01: Evaluate is total on degenerate inputs - a nil resource (nil interface or nil pointer), a bundle entry or
// an environment variable whose ContainedResource wrapper holds no resource, a nil element pointer as a variable -
// for navigation, children(), descendants(), a Boolean operator, equality and a string function over them. A panic
// anywhere below is the violation (the engine's own nil-dereference / type-assertion / index obligations).
func VerifHarness_C01_EvaluateDegenerateInputs() {
	var input []fhir.Resource
	switch verifrt.Choose("input", 5) {
	case 0:
		input = []fhir.Resource{nil}
	case 1:
		input = []fhir.Resource{(*ppb.Patient)(nil)}
	case 2:
		input = []fhir.Resource{&bcrpb.Bundle{Entry: []*bcrpb.Bundle_Entry{
			{Resource: &bcrpb.ContainedResource{}},
			{Resource: &bcrpb.ContainedResource{OneofResource: &bcrpb.ContainedResource_Patient{Patient: &ppb.Patient{Id: &dtpb.Id{Value: "p"}}}}},
		}}}
	case 3:
		input = []fhir.Resource{&ppb.Patient{Id: &dtpb.Id{Value: "p"}}, nil}
	default:
		input = nil
	}
	var x any
	switch verifrt.Choose("x", 6) {
	case 0:
		x = (*dtpb.Boolean)(nil)
	case 1:
		x = (*dtpb.String)(nil)
	case 2:
		x = &bcrpb.ContainedResource{}
	case 3:
		x = system.Collection{(*dtpb.Integer)(nil), &bcrpb.ContainedResource{}}
	case 4:
		x = (*dtpb.HumanName)(nil)
	default:
		x = (*dtpb.Quantity)(nil)
	}
	vx := &expr.ExternalConstantExpression{Identifier: "x"}
	this := &expr.IdentityExpression{}
	var tree expr.Expression
	switch verifrt.Choose("tree", 9) {
	case 0:
		tree = &expr.ExpressionSequence{Expressions: []expr.Expression{vx, &expr.FieldExpression{FieldName: "id"}}}
	case 1:
		tree = &expr.ExpressionSequence{Expressions: []expr.Expression{&expr.FieldExpression{FieldName: "entry"}, &expr.FieldExpression{FieldName: "resource"}, &expr.FieldExpression{FieldName: "id"}}}
	case 2:
		tree = &verifFn{vx, impl.Children}
	case 3:
		tree = &verifFn{vx, impl.Descendants}
	case 4:
		tree = &expr.BooleanExpression{Left: vx, Right: &expr.LiteralExpression{Literal: system.Boolean(true)}, Op: expr.And}
	case 5:
		tree = &expr.EqualityExpression{Left: vx, Right: vx}
	case 6:
		tree = &verifFn{vx, impl.Length}
	case 7:
		tree = &verifFn{this, impl.Descendants}
	default:
		tree = &expr.ArithmeticExpression{Left: vx, Right: &expr.LiteralExpression{Literal: system.Integer(1)}, Op: expr.EvaluateAdd}
	}
	e := &Expression{expression: tree, path: "degenerate"}
	options := []EvaluateOption{evalopts.EnvVariable("x", x)}
	if verifrt.NondetBool("nilOption") {
		options = append(options, nil) // a nil option is an error, not a panic
	}
	res, err := e.Evaluate(input, options...)
	verifrt.Assert(err != nil || res != nil || len(res) == 0, "a-collection-or-an-error")
	for _, it := range res {
		verifrt.Assert(it != nil, "no-nil-item-in-a-result")
	}
	verifrt.Reach("end")
}
