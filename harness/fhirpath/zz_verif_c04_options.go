//go:build verif

package fhirpath

import (
	"github.com/verily-src/fhirpath-go/fhirpath/compopts"
	"github.com/verily-src/fhirpath-go/fhirpath/internal/compile"
	"github.com/verily-src/fhirpath-go/fhirpath/internal/opts"
	"github.com/verily-src/fhirpath-go/fhirpath/system"
	"github.com/verily-src/fhirpath-go/internal/verifrt"
)

// C04: histories of Compile configurations through the real option constructors. What a configuration's function
// table contains is a function of that call's options only - nothing an earlier call did is visible, in particular not
// its experimental functions or its custom function - and no package-level table is written.
func VerifHarness_C04_CompileOptionHistories() {
	verifrt.ProtectGlobals()
	custom := func(in system.Collection) (system.Collection, error) { return in, nil }
	names := []string{"join", "count", "myFn"} // experimental, built-in, fresh
	calls := 2 + verifrt.Choose("extraCall", verifrt.Bound(1, 2)) // three-call histories in the thorough tier
	for k := 0; k < calls; k++ {
		var options []opts.CompileOption
		experimental := verifrt.NondetBool("experimental")
		add := verifrt.Choose("addFunction", len(names)+1) // len(names): no AddFunction
		addFirst := verifrt.NondetBool("addBeforeExperimental")
		if add < len(names) && addFirst {
			options = append(options, compopts.AddFunction(names[add], custom))
		}
		if experimental {
			options = append(options, compopts.WithExperimentalFuncs())
		}
		if add < len(names) && !addFirst {
			options = append(options, compopts.AddFunction(names[add], custom))
		}
		if verifrt.NondetBool("permissive") {
			options = append(options, compopts.Permissive())
		}
		cfg, err := compile.PopulateConfig(options...)
		// registering an existing name fails: built-in always, experimental once the experimental table is in
		wantErr := add < len(names) && (names[add] == "count" || (names[add] == "join" && experimental && !addFirst))
		verifrt.Assert((err != nil) == wantErr, "only-registering-an-existing-name-fails")
		if err != nil {
			continue
		}
		_, hasJoin := cfg.Table["join"]
		_, hasCount := cfg.Table["count"]
		_, hasMine := cfg.Table["myFn"]
		verifrt.Assert(hasCount, "built-ins-are-always-present")
		verifrt.Assert(hasJoin == (experimental || (add < len(names) && names[add] == "join")), "experimental-function-only-with-this-calls-options")
		verifrt.Assert(hasMine == (add < len(names) && names[add] == "myFn"), "custom-function-only-in-the-call-that-registered-it")
	}
	verifrt.CheckFrames()
	verifrt.Reach("end")
}
