//go:build verif

package fhirpath

import (
	"github.com/verily-src/fhirpath-go/fhirpath/internal/expr"
	"github.com/verily-src/fhirpath-go/fhirpath/system"
)

// verifProbe is the compiled expression's stand-in: it records whether (and with what) it was evaluated.
type verifProbe struct {
	ran int
	ctx *expr.Context
	in  system.Collection
}

func (p *verifProbe) Evaluate(ctx *expr.Context, in system.Collection) (system.Collection, error) {
	p.ran++
	p.ctx = ctx
	p.in = in
	return system.Collection{system.Integer(7)}, nil
}

