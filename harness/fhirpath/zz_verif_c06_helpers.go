//go:build verif

package fhirpath

import (
	dtpb "github.com/google/fhir/go/proto/google/fhir/proto/r4/core/datatypes_go_proto"
	"github.com/verily-src/fhirpath-go/fhirpath/internal/expr"
	"github.com/verily-src/fhirpath-go/fhirpath/system"
	"github.com/verily-src/fhirpath-go/internal/verifrt"
)

// verifResult is a compiled expression's stand-in that evaluates to a prepared collection.
type verifResult struct{ out system.Collection }

func (r *verifResult) Evaluate(*expr.Context, system.Collection) (system.Collection, error) {
	return r.out, nil
}

// verifAnyResult draws a result collection of any form with its three-valued meaning (0 false, 1 true, 2 empty, 3 multi-item).
func verifAnyResult() (system.Collection, int) {
	b2i := func(b bool) int {
		if b {
			return 1
		}
		return 0
	}
	switch verifrt.Choose("form", 9) {
	case 8: // a primitive element that has no System value is a single non-Boolean item like any other
		if verifrt.NondetBool("unsigned") {
			return system.Collection{&dtpb.UnsignedInt{Value: 3000000000}}, 1
		}
		return system.Collection{&dtpb.Quantity{Code: &dtpb.Code{Value: "mg"}}}, 1
	case 0:
		v := verifrt.NondetBool("b")
		return system.Collection{system.Boolean(v)}, b2i(v)
	case 1:
		return system.Collection{}, 2
	case 2:
		v := verifrt.NondetBool("fb")
		return system.Collection{&dtpb.Boolean{Value: v}}, b2i(v)
	case 3:
		return system.Collection{system.Integer(verifrt.NondetInt32("i"))}, 1
	case 4:
		return system.Collection{system.String(verifrt.NondetString("s", 1))}, 1
	case 5:
		return system.Collection{&dtpb.HumanName{Family: &dtpb.String{Value: verifrt.NondetString("fam", 1)}}}, 1
	case 6:
		return nil, 2
	default:
		return system.Collection{system.Boolean(verifrt.NondetBool("m0")), system.Boolean(verifrt.NondetBool("m1"))}, 3
	}
}

// C06 / C01: EvaluateAsBool applies the singleton rule to whatever the expression produced; the other EvaluateAs*
// helpers return a value or an error for every result form.
func VerifHarness_C06_EvaluateAsBool() {
	out, v := verifAnyResult()
	e := &Expression{expression: &verifResult{out}, path: "stub"}
	got, err := e.EvaluateAsBool(nil)
	switch v {
	case 3:
		verifrt.Assert(err != nil, "multi-item-result-is-an-error-not-its-first-item")
	case 2:
		verifrt.Assert(err == nil && !got, "empty-result-is-false")
	default:
		verifrt.Assert(err == nil && got == (v == 1), "singleton-rule")
	}
	s, errS := e.EvaluateAsString(nil)
	verifrt.Assert(errS != nil || len(s) >= 0, "string-helper-is-total")
	i, errI := e.EvaluateAsInt32(nil)
	verifrt.Assert(errI != nil || i == i, "int32-helper-is-total")
	c, errC := e.EvaluateAsCanonical(nil)
	verifrt.Assert(errC != nil || c != nil, "canonical-helper-returns-a-value-or-an-error")
	verifrt.Reach("end")
}
