//go:build verif

package reflection

import (
	dtpb "github.com/google/fhir/go/proto/google/fhir/proto/r4/core/datatypes_go_proto"
	bpb "github.com/google/fhir/go/proto/google/fhir/proto/r4/core/resources/bundle_and_contained_resource_go_proto"
	oopb "github.com/google/fhir/go/proto/google/fhir/proto/r4/core/resources/operation_outcome_go_proto"
	ppb "github.com/google/fhir/go/proto/google/fhir/proto/r4/core/resources/patient_go_proto"
	tcpb "github.com/google/fhir/go/proto/google/fhir/proto/r4/core/resources/terminology_capabilities_go_proto"
	"github.com/verily-src/fhirpath-go/internal/verifrt"
)

// C12: nested backbone components - including those whose short name is also the name of a resource or datatype
// (Patient.communication / Communication, Patient.link / no such type, Bundle.entry.request) - are BackboneElements and
// Elements, never resources, and never the resource or datatype they happen to share a name with.
func VerifHarness_C12_NestedComponents() {
	var x any
	short := ""
	switch verifrt.Choose("component", 6) {
	case 5: // a component whose name ends in "Code" without being a code (its only own field is "translations")
		x, short = &tcpb.TerminologyCapabilities_ValidateCode{}, "ValidateCode"
	case 0:
		x, short = &ppb.Patient_Communication{}, "Communication"
	case 1:
		x, short = &ppb.Patient_Contact{}, "Contact"
	case 2:
		x, short = &ppb.Patient_Link{}, "Link"
	case 3:
		x, short = &bpb.Bundle_Entry{}, "Entry"
	default:
		x, short = &bpb.Bundle_Entry_Request{}, "Request"
	}
	ts, err := TypeOf(x)
	verifrt.Assert(err == nil, "typeof-accepts-a-backbone-component")
	if err != nil {
		return
	}
	verifrt.Assert(bool(ts.Is(TypeSpecifier{FHIR, "BackboneElement"})), "nested-component-is-BackboneElement")
	verifrt.Assert(bool(ts.Is(TypeSpecifier{FHIR, "Element"})), "nested-component-is-Element")
	verifrt.Assert(!bool(ts.Is(TypeSpecifier{FHIR, "DomainResource"})) && !bool(ts.Is(TypeSpecifier{FHIR, "Resource"})), "nested-component-is-not-a-resource")
	verifrt.Assert(!bool(ts.Is(TypeSpecifier{FHIR, short})), "nested-component-is-not-the-type-it-shares-a-short-name-with")
	verifrt.Assert(bool(ts.Is(ts)), "is-reflexive")
	verifrt.Assert(!bool(ts.Is(TypeSpecifier{FHIR, "code"})) && !bool(ts.Is(TypeSpecifier{FHIR, "string"})), "nested-component-is-not-a-code")
	verifrt.Reach("end")
}

// C12: bound code elements - generated as <Owner>_<Name>Code, or <Owner>_CodeType when the element itself is called
// "code" - are FHIR codes: 'is code', 'is string' and 'is Element' hold, 'is BackboneElement' does not.
func VerifHarness_C12_BoundCodes() {
	var x any
	switch verifrt.Choose("code", 4) {
	case 0:
		x = &ppb.Patient_GenderCode{}
	case 1:
		x = &oopb.OperationOutcome_Issue_CodeType{}
	case 2:
		x = &oopb.OperationOutcome_Issue_SeverityCode{}
	default:
		x = &ppb.Patient_Link_TypeCode{}
	}
	ts, err := TypeOf(x)
	verifrt.Assert(err == nil && ts.namespace == FHIR && ts.typeName == "code", "bound-code-is-typed-code")
	if err != nil {
		return
	}
	verifrt.Assert(bool(ts.Is(TypeSpecifier{FHIR, "string"})) && bool(ts.Is(TypeSpecifier{FHIR, "Element"})), "code-is-string-and-Element")
	verifrt.Assert(!bool(ts.Is(TypeSpecifier{FHIR, "BackboneElement"})), "code-is-not-a-backbone-component")
	verifrt.Reach("end")
}

// verifR4Datatypes: the complex datatypes of FHIR R4 (hl7.org/fhir/R4/datatypes.html and metadatatypes.html), written
// down independently of the repository's registry; true marks those that specialise BackboneElement.
var verifR4Datatypes = map[string]bool{
	"Address": false, "Age": false, "Annotation": false, "Attachment": false, "CodeableConcept": false, "Coding": false,
	"ContactDetail": false, "ContactPoint": false, "Contributor": false, "Count": false, "DataRequirement": false,
	"Distance": false, "Dosage": true, "Duration": false, "ElementDefinition": true, "Expression": false, "Extension": false,
	"HumanName": false, "Identifier": false, "MarketingStatus": true, "Meta": false, "Money": false, "MoneyQuantity": false,
	"Narrative": false, "ParameterDefinition": false, "Period": false, "Population": true, "ProdCharacteristic": true,
	"ProductShelfLife": true, "Quantity": false, "Range": false, "Ratio": false, "Reference": false, "RelatedArtifact": false,
	"SampledData": false, "Signature": false, "SimpleQuantity": false, "SubstanceAmount": true, "Timing": true,
	"TriggerDefinition": false, "UsageContext": false,
}

// C12: every R4 complex datatype is a type name Compile accepts, is an Element, and is a BackboneElement exactly
// when R4 says so.
func VerifHarness_C12_R4Datatypes() {
	names := make([]string, 0, len(verifR4Datatypes))
	for n := range verifR4Datatypes {
		names = append(names, n)
	}
	verifrt.SortStrings(names)
	name := names[verifrt.Choose("datatype", len(names))]
	verifrt.Tag("typeName", name)
	ts, err := NewTypeSpecifier(name)
	verifrt.Assert(err == nil, "r4-datatype-is-a-known-type-name")
	if err != nil {
		return
	}
	verifrt.Assert(bool(ts.Is(TypeSpecifier{FHIR, "Element"})), "datatype-is-Element")
	verifrt.Assert(bool(ts.Is(TypeSpecifier{FHIR, "BackboneElement"})) == verifR4Datatypes[name], "datatype-is-BackboneElement-exactly-when-r4-says-so")
	verifrt.Assert(!bool(ts.Is(TypeSpecifier{FHIR, "Resource"})), "datatype-is-not-a-resource")
	verifrt.Reach("end")
}

// C12: TypeOf is a function of the value alone - calling it for one variant of a choice element (or for any other
// value) first does not change what it says about the next one. (What a per-type cache keyed before the choice is
// looked through would break.)
func VerifHarness_C12_TypeOfHasNoMemory() {
	mk := func(label string) (any, string) {
		switch verifrt.Choose(label, 4) {
		case 0:
			return &ppb.Patient_DeceasedX{Choice: &ppb.Patient_DeceasedX_Boolean{Boolean: &dtpb.Boolean{}}}, "boolean"
		case 1:
			return &ppb.Patient_DeceasedX{Choice: &ppb.Patient_DeceasedX_DateTime{DateTime: &dtpb.DateTime{}}}, "dateTime"
		case 2:
			return &ppb.Patient_MultipleBirthX{Choice: &ppb.Patient_MultipleBirthX_Integer{Integer: &dtpb.Integer{}}}, "integer"
		default:
			return &dtpb.HumanName{}, "HumanName"
		}
	}
	first, want1 := mk("first")
	second, want2 := mk("second")
	t1, err1 := TypeOf(first)
	t2, err2 := TypeOf(second)
	t3, err3 := TypeOf(first)
	verifrt.Assert(err1 == nil && t1.namespace == FHIR && t1.typeName == want1, "typeof-looks-through-the-choice-wrapper")
	verifrt.Assert(err2 == nil && t2.namespace == FHIR && t2.typeName == want2, "typeof-of-the-next-value-is-not-influenced-by-the-previous-call")
	verifrt.Assert(err3 == nil && t3 == t1, "typeof-is-repeatable")
	verifrt.Reach("end")
}
