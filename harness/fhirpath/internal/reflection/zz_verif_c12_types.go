//go:build verif

package reflection

import (
	dtpb "github.com/google/fhir/go/proto/google/fhir/proto/r4/core/datatypes_go_proto"
	"github.com/verily-src/fhirpath-go/fhirpath/system"
	"github.com/verily-src/fhirpath-go/internal/protofields"
	"github.com/verily-src/fhirpath-go/internal/verifrt"
)

// names the code mentions explicitly, plus representatives of each class
var verifFHIRNames = []string{
	"code", "markdown", "id", "string", "unsignedInt", "positiveInt", "integer", "url", "canonical", "uuid", "oid", "uri",
	"boolean", "decimal", "date", "dateTime", "time", "instant", "base64Binary",
	"Duration", "MoneyQuantity", "Age", "Count", "Distance", "SimpleQuantity", "Quantity",
	"Timing", "Dosage", "ElementDefinition", "BackboneElement",
	"Bundle", "Binary", "Parameters", "DomainResource", "Resource", "Element",
	"Patient", "Observation", "HumanName", "Coding", "Period", "Reference", "Extension",
	"Contact", "Communication_Payload",
}

// verifName: a type name - one of the concrete names above, or an arbitrary (symbolic) short string.
func verifName(label string) string {
	k := verifrt.Choose(label+".which", len(verifFHIRNames)+1)
	if k == len(verifFHIRNames) {
		return verifrt.NondetString(label+".sym", verifrt.Bound(5, 8))
	}
	return verifFHIRNames[k]
}

func verifSpec(label string) TypeSpecifier {
	if verifrt.NondetBool(label + ".system") {
		return TypeSpecifier{System, []string{"String", "Boolean", "Integer", "Decimal", "Date", "DateTime", "Time", "Quantity", "Any"}[verifrt.Choose(label+".sys", 9)]}
	}
	return TypeSpecifier{FHIR, verifName(label)}
}

// Is is reflexive; the parent chain reaches a root within 4 steps (termination).
func VerifHarness_C12_ReflexiveAndChain() {
	t := verifSpec("t")
	verifrt.Assert(bool(t.Is(t)), "is-reflexive")
	p := t
	steps := 0
	for i := 0; i < 5 && p != p.parent(); i++ {
		p = p.parent()
		steps++
	}
	verifrt.Assert(p == p.parent() && steps <= 4, "parent-chain-reaches-a-root-within-4-steps")
	root := p.typeName
	verifrt.Assert((t.namespace == System && root == "Any") || (t.namespace == FHIR && (root == "Element" || root == "Resource")), "root-is-Any-Element-or-Resource")
	verifrt.Reach("end")
}

// Is is transitive and never crosses namespaces.
var verifSuperNames = []string{"string", "integer", "uri", "Quantity", "BackboneElement", "Element", "DomainResource", "Resource", "Patient", "HumanName"}

// verifSuper: a candidate supertype - one of the names the hierarchy is built from, a System type, or a symbolic name.
func verifSuper(label string) TypeSpecifier {
	k := verifrt.Choose(label+".which", len(verifSuperNames)+verifrt.Bound(1, 2)) // the symbolic supertype name is thorough-only
	switch {
	case k < len(verifSuperNames):
		return TypeSpecifier{FHIR, verifSuperNames[k]}
	case k == len(verifSuperNames):
		return TypeSpecifier{System, []string{"Any", "Integer", "String"}[verifrt.Choose(label+".sys", 3)]}
	}
	return TypeSpecifier{FHIR, verifrt.NondetString(label+".sym", verifrt.Bound(4, 8))}
}

func VerifHarness_C12_Transitive() {
	a, b, c := verifSpec("a"), verifSuper("b"), verifSuper("c")
	if bool(a.Is(b)) && bool(b.Is(c)) {
		verifrt.Assert(bool(a.Is(c)), "is-transitive")
	}
	if a.namespace != b.namespace {
		verifrt.Assert(!bool(a.Is(b)), "namespaces-never-mix")
	}
	verifrt.Reach("end")
}

// The primitive specialisations of the R4 hierarchy.
func VerifHarness_C12_PrimitiveSpecialisations() {
	pairs := [][2]string{{"code", "string"}, {"id", "string"}, {"markdown", "string"}, {"positiveInt", "integer"}, {"unsignedInt", "integer"},
		{"url", "uri"}, {"canonical", "uri"}, {"uuid", "uri"}, {"oid", "uri"}}
	p := pairs[verifrt.Choose("pair", len(pairs))]
	sub, sup := TypeSpecifier{FHIR, p[0]}, TypeSpecifier{FHIR, p[1]}
	verifrt.Assert(bool(sub.Is(sup)) && !bool(sup.Is(sub)), "primitive-specialises")
	verifrt.Assert(bool(sub.Is(TypeSpecifier{FHIR, "Element"})) && !bool(sub.Is(TypeSpecifier{FHIR, "Resource"})), "primitive-is-an-element-not-a-resource")
	verifrt.Reach("end")
}

// Hierarchy soundness against the real registry: t is Resource => t is a resource type (or Resource/DomainResource);
// t is Element => t is not a resource type; a nested backbone component (neither a datatype nor a resource)
// is a BackboneElement and an Element, never a DomainResource.
func VerifHarness_C12_HierarchySoundness() {
	name := verifName("t")
	t := TypeSpecifier{FHIR, name}
	isRes := protofields.IsValidResourceType(name)
	isElem := IsValidFHIRPathElement(name)
	isResource := bool(t.Is(TypeSpecifier{FHIR, "Resource"}))
	isElement := bool(t.Is(TypeSpecifier{FHIR, "Element"}))
	isDomain := bool(t.Is(TypeSpecifier{FHIR, "DomainResource"}))
	isBackbone := bool(t.Is(TypeSpecifier{FHIR, "BackboneElement"}))
	if isResource {
		verifrt.Assert(isRes || name == "Resource" || name == "DomainResource", "only-resources-are-Resources")
	}
	if isElement {
		verifrt.Assert(!isRes, "a-resource-type-is-not-an-Element")
	}
	if isRes {
		verifrt.Assert(isResource && !isElement, "resource-types-are-Resources")
	}
	if isElem && name != "BackboneElement" {
		verifrt.Assert(isElement && !isResource && !isDomain, "datatypes-are-Elements")
	}
	if !isRes && !isElem && name != "Resource" && name != "DomainResource" && name != "Element" {
		// e.g. Patient.contact -> "Contact": a nested backbone component
		verifrt.Assert(isBackbone && isElement && !isDomain && !isResource, "nested-components-are-BackboneElements")
	}
	verifrt.Reach("end")
}

// the R4 primitive types, by their FHIR names, and the spellings of their proto messages (which are not type names)
var verifPrimitiveNames = []string{"instant", "time", "date", "dateTime", "base64Binary", "decimal", "boolean", "url", "code", "string", "integer", "uri",
	"canonical", "markdown", "id", "oid", "uuid", "unsignedInt", "positiveInt", "xhtml"}
var verifPrimitiveMessages = []string{"Instant", "Time", "Date", "DateTime", "Base64Binary", "Decimal", "Boolean", "Url", "Code", "String", "Integer", "Uri",
	"Canonical", "Markdown", "Id", "Oid", "Uuid", "UnsignedInt", "PositiveInt", "Xhtml"}

// verifIsFHIRTypeName is the reference for "name is a FHIR type": a primitive by its (lower camel case) FHIR name, a
// complex datatype or resource by the name of its message, or one of the abstract bases - written without the
// resolver's own helper, so that a change to that helper does not move the reference with it.
func verifIsFHIRTypeName(name string) bool {
	for _, p := range verifPrimitiveNames {
		if name == p {
			return true
		}
	}
	for _, m := range verifPrimitiveMessages {
		if name == m {
			return false
		}
	}
	switch name {
	case "BackboneElement", "Element", "Resource", "DomainResource":
		return true
	}
	return protofields.IsValidElementType(name) || protofields.IsValidResourceType(name)
}

// Resolution: unqualified names resolve FHIR first, then System, case-sensitively; unknown names and namespaces are rejected.
func VerifHarness_C12_Resolution() {
	name := verifName("n")
	if verifrt.NondetBool("systemName") {
		// the System names, and every proto message spelling of a primitive (the mixed-case ones included)
		pool := append([]string{"Quantity", "Any", "string", "Patient", "xhtml"}, verifPrimitiveMessages...)
		name = pool[verifrt.Choose("sysname", len(pool))]
	}
	known := verifIsFHIRTypeName(name)
	ts, err := NewTypeSpecifier(name)
	switch {
	case known:
		verifrt.Assert(err == nil && ts.namespace == FHIR && ts.typeName == name, "fhir-names-resolve-to-FHIR-first")
	case system.IsValid(name):
		verifrt.Assert(err == nil && ts.namespace == System && ts.typeName == name, "system-names-resolve-to-System")
	default:
		verifrt.Assert(err != nil, "unknown-type-name-is-rejected")
	}
	ns := []string{"FHIR", "System", "fhir", "system", "", "X"}[verifrt.Choose("ns", 6)]
	qs, qerr := NewQualifiedTypeSpecifier(ns, name)
	switch {
	case ns == "FHIR" && known, ns == "System" && system.IsValid(name):
		verifrt.Assert(qerr == nil && qs.namespace == ns && qs.typeName == name, "qualified-name-resolves-in-its-namespace")
	default:
		verifrt.Assert(qerr != nil, "unknown-namespace-or-name-is-rejected")
	}
	verifrt.Reach("end")
}

// TypeOf: System values have their System type; harness-built FHIR elements have their FHIR type
// (primitives in lower camel case); and `is` agrees with the hierarchy for that declared type.
func VerifHarness_C12_TypeOf() {
	var x any
	var wantNS, wantName string
	switch verifrt.Choose("kind", 9) {
	case 0:
		x, wantNS, wantName = system.Integer(verifrt.NondetInt32("i")), System, "Integer"
	case 1:
		x, wantNS, wantName = system.String(verifrt.NondetString("s", 2)), System, "String"
	case 2:
		x, wantNS, wantName = system.Boolean(verifrt.NondetBool("b")), System, "Boolean"
	case 3:
		x, wantNS, wantName = &dtpb.String{Value: verifrt.NondetString("fs", 2)}, FHIR, "string"
	case 4:
		x, wantNS, wantName = &dtpb.Code{Value: verifrt.NondetString("fc", 2)}, FHIR, "code"
	case 5:
		x, wantNS, wantName = &dtpb.PositiveInt{Value: verifrt.NondetUint32("pi")}, FHIR, "positiveInt"
	case 6:
		x, wantNS, wantName = &dtpb.HumanName{Family: &dtpb.String{Value: verifrt.NondetString("fam", 1)}}, FHIR, "HumanName"
	case 7:
		x, wantNS, wantName = &dtpb.DateTime{ValueUs: verifrt.NondetInt64("us")}, FHIR, "dateTime"
	default:
		x, wantNS, wantName = &dtpb.Canonical{Value: verifrt.NondetString("can", 2)}, FHIR, "canonical"
	}
	ts, err := TypeOf(x)
	verifrt.Assert(err == nil && ts.namespace == wantNS && ts.typeName == wantName, "typeof-is-the-declared-type")
	verifrt.Reach("end")
}
