//go:build verif

package expr

import (
	"github.com/verily-src/fhirpath-go/fhirpath/system"
	"github.com/verily-src/fhirpath-go/internal/verifrt"
)

// FHIRPath truth tables over {0 false, 1 true, 2 empty}.
func verifAnd(a, b int) int {
	if a == 0 || b == 0 {
		return 0
	}
	if a == 1 && b == 1 {
		return 1
	}
	return 2
}
func verifOr(a, b int) int {
	if a == 1 || b == 1 {
		return 1
	}
	if a == 0 && b == 0 {
		return 0
	}
	return 2
}
func verifXor(a, b int) int {
	if a == 2 || b == 2 {
		return 2
	}
	return b2i(a != b)
}
func verifImplies(a, b int) int {
	if a == 0 || b == 1 {
		return 1
	}
	if a == 1 && b == 0 {
		return 0
	}
	return 2
}
func verifNot(a int) int {
	if a == 2 {
		return 2
	}
	return 1 - a
}

func verifTable(op int, a, b int) int {
	switch op {
	case 0:
		return verifAnd(a, b)
	case 1:
		return verifOr(a, b)
	case 2:
		return verifXor(a, b)
	default:
		return verifImplies(a, b)
	}
}

var verifOps = []Operator{And, Or, Xor, Implies}

// C06-(i): the four kernels against the tables, operands as []Boolean of length 0/1.
func VerifHarness_C06_Kernels() {
	mk := func(label string) ([]system.Boolean, int) {
		if verifrt.NondetBool(label + ".empty") {
			return []system.Boolean{}, 2
		}
		v := verifrt.NondetBool(label)
		return []system.Boolean{system.Boolean(v)}, b2i(v)
	}
	l, lv := mk("l")
	r, rv := mk("r")
	op := verifrt.Choose("op", 4)
	var got system.Collection
	switch op {
	case 0:
		got = evaluateAnd(l, r)
	case 1:
		got = evaluateOr(l, r)
	case 2:
		got = evaluateXor(l, r)
	default:
		got = evaluateImplies(l, r)
	}
	verifrt.Assert(verifTV(got) == verifTable(op, lv, rv), "kernel-matches-truth-table")
	verifrt.Reach("end")
}

// C06-(ii): BooleanExpression.Evaluate for every operator and every ordered pair of operand forms.
func VerifHarness_C06_BooleanExpression() {
	ctx := &Context{ExternalConstants: map[string]any{}}
	le, lv := verifBoolOperand("l", ctx)
	re, rv := verifBoolOperand("r", ctx)
	op := verifrt.Choose("op", 4)
	e := &BooleanExpression{Left: le, Right: re, Op: verifOps[op]}
	got, err := e.Evaluate(ctx, system.Collection{})
	if lv == 3 || rv == 3 {
		verifrt.Assert(err != nil, "multi-item-operand-is-an-error")
	} else {
		verifrt.Assert(err == nil && verifTV(got) == verifTable(op, lv, rv), "operator-matches-truth-table")
	}
	verifrt.Reach("end")
}

// C06-(iii): algebraic laws through the real evaluator (commutativity; a implies b = not(a) or b).
func VerifHarness_C06_Laws() {
	ctx := &Context{ExternalConstants: map[string]any{}}
	le, lv := verifBoolOperand("l", ctx)
	re, rv := verifBoolOperand("r", ctx)
	verifrt.Assume(lv != 3 && rv != 3)
	op := verifrt.Choose("op", 3)
	ab, err1 := (&BooleanExpression{Left: le, Right: re, Op: verifOps[op]}).Evaluate(ctx, system.Collection{})
	ba, err2 := (&BooleanExpression{Left: re, Right: le, Op: verifOps[op]}).Evaluate(ctx, system.Collection{})
	verifrt.Assert(err1 == nil && err2 == nil && verifTV(ab) == verifTV(ba) && verifTV(ab) != 4, "and-or-xor-commutative")
	imp, err3 := (&BooleanExpression{Left: le, Right: re, Op: Implies}).Evaluate(ctx, system.Collection{})
	// not(a) or b, with not(a) computed by the reference (impl.Not is checked in its own package)
	na := verifNot(lv)
	var naExpr Expression
	if na == 2 {
		naExpr = &LiteralExpression{}
	} else {
		naExpr = verifLit(system.Boolean(na == 1))
	}
	alt, err4 := (&BooleanExpression{Left: naExpr, Right: re, Op: Or}).Evaluate(ctx, system.Collection{})
	verifrt.Assert(err3 == nil && err4 == nil && verifTV(imp) == verifTV(alt), "implies-equals-not-a-or-b")
	verifrt.Reach("end")
}
