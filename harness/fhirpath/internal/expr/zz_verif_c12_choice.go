//go:build verif

package expr

import (
	dtpb "github.com/google/fhir/go/proto/google/fhir/proto/r4/core/datatypes_go_proto"
	opb "github.com/google/fhir/go/proto/google/fhir/proto/r4/core/resources/observation_go_proto"
	ppb "github.com/google/fhir/go/proto/google/fhir/proto/r4/core/resources/patient_go_proto"
	"github.com/verily-src/fhirpath-go/internal/verifrt"
	"google.golang.org/protobuf/proto"
)

// C12 (and C06, C03): navigation looks through every choice wrapper - value[x], deceased[x], multipleBirth[x],
// effective[x] - and hands on the chosen element itself (the input's own node), so that `is`/`as`, the Boolean
// operators and arithmetic see a boolean, an integer, a dateTime and not a wrapper message.
func VerifHarness_C12_ChoiceWrappersAreUnwrapped() {
	var wrapper, inner proto.Message
	switch verifrt.Choose("choice", 5) {
	case 0:
		b := &dtpb.Boolean{Value: verifrt.NondetBool("b")}
		wrapper, inner = &ppb.Patient_DeceasedX{Choice: &ppb.Patient_DeceasedX_Boolean{Boolean: b}}, b
	case 1:
		i := &dtpb.Integer{Value: verifrt.NondetInt32("i")}
		wrapper, inner = &ppb.Patient_MultipleBirthX{Choice: &ppb.Patient_MultipleBirthX_Integer{Integer: i}}, i
	case 2:
		d := &dtpb.DateTime{ValueUs: 1577836800000000, Precision: dtpb.DateTime_DAY}
		wrapper, inner = &opb.Observation_EffectiveX{Choice: &opb.Observation_EffectiveX_DateTime{DateTime: d}}, d
	case 3:
		q := &dtpb.Quantity{Value: &dtpb.Decimal{Value: "1.5"}}
		wrapper, inner = &opb.Observation_ValueX{Choice: &opb.Observation_ValueX_Quantity{Quantity: q}}, q
	default:
		s := &dtpb.String{Value: verifrt.NondetString("s", 1)}
		wrapper, inner = &opb.Observation_ValueX{Choice: &opb.Observation_ValueX_StringValue{StringValue: s}}, s
	}
	got := (&FieldExpression{FieldName: "x"}).unwrapOneof(wrapper)
	verifrt.Assert(got == inner, "choice-element-yields-its-chosen-value-itself")
	// a message that is no choice wrapper is handed on as it is
	name := &dtpb.HumanName{}
	verifrt.Assert((&FieldExpression{FieldName: "x"}).unwrapOneof(name) == proto.Message(name), "other-elements-are-handed-on-unchanged")
	verifrt.Reach("end")
}
