//go:build verif

package expr

import (
	dtpb "github.com/google/fhir/go/proto/google/fhir/proto/r4/core/datatypes_go_proto"
	"github.com/verily-src/fhirpath-go/fhirpath/internal/reflection"
	"github.com/verily-src/fhirpath-go/fhirpath/system"
	"github.com/verily-src/fhirpath-go/internal/verifrt"
)

// verifInstantUs: an instant in 2024 (symbolic in the thorough tier, one of two days in the quick tier).
func verifInstantUs(label string) int64 {
	if verifrt.Thorough() {
		return int64(verifrt.NondetIntRange(label, 1704067200, 1704067200+400*86400)) * 1000000
	}
	return []int64{1704067200, 1709164800 + 86399}[verifrt.Choose(label, 2)] * 1000000
}

// verifFhirOperand draws a FHIR primitive or Quantity element the way a resource may carry it: optional parts absent,
// text fields arbitrary (a FHIR Quantity need not have a value; a decimal is text; a date carries a zone name).
func verifFhirOperand(label string) Expression {
	var el any
	switch verifrt.Choose(label+".element", 8) {
	case 0:
		q := &dtpb.Quantity{}
		if verifrt.NondetBool(label + ".hasValue") {
			q.Value = &dtpb.Decimal{Value: verifrt.NondetString(label+".qv", verifrt.Bound(1, 2))}
		}
		if verifrt.NondetBool(label + ".hasCode") {
			q.Code = &dtpb.Code{Value: []string{"mg", "", "a"}[verifrt.Choose(label+".code", 3)]}
		}
		if verifrt.NondetBool(label + ".hasUnit") {
			q.Unit = &dtpb.String{Value: "mg"}
		}
		el = q
	case 1:
		el = &dtpb.Decimal{Value: verifrt.NondetString(label+".dv", verifrt.Bound(2, 3))}
	case 2:
		el = &dtpb.Date{ValueUs: verifInstantUs(label+".date.s"),
			Timezone:  []string{"", "Z", "+05:00", "x", "UTC"}[verifrt.Choose(label+".tz", 5)],
			Precision: dtpb.Date_Precision(verifrt.Choose(label+".dp", 4))}
	case 3:
		el = &dtpb.DateTime{ValueUs: verifInstantUs(label+".dt.s"),
			Timezone:  []string{"", "Z", "-08:00", "?"}[verifrt.Choose(label+".tz", 4)],
			Precision: dtpb.DateTime_Precision(verifrt.Choose(label+".dtp", 7))}
	case 4:
		el = &dtpb.Time{ValueUs: int64(verifrt.NondetInt32(label+".t.us")) * 1000, Precision: dtpb.Time_Precision(verifrt.Choose(label+".tp", 4))}
	case 5:
		el = &dtpb.Instant{ValueUs: verifInstantUs(label+".in.s"),
			Timezone: []string{"", "Z", "+05:30"}[verifrt.Choose(label+".tz", 3)], Precision: dtpb.Instant_Precision(verifrt.Choose(label+".ip", 4))}
	case 6:
		el = &dtpb.UnsignedInt{Value: verifrt.NondetUint32(label + ".ui")}
	default:
		el = &dtpb.Base64Binary{Value: []byte{0xfb, 0xff, 0x01}}
	}
	return verifConst(system.Collection{el})
}

// C01: operators over FHIR elements in every shape a resource may carry, against System operands of every form.
func verifElementSweep(node int) {
	ctx := &Context{ExternalConstants: map[string]any{}}
	l := verifFhirOperand("l")
	var r Expression
	if verifrt.Thorough() && verifrt.NondetBool("rightIsElement") { // element x element only in the thorough tier
		r = verifFhirOperand("r")
	} else {
		switch verifrt.Choose("r.form", 6) {
		case 0:
			r = &LiteralExpression{}
		case 1:
			r = verifLit(system.Integer(verifrt.NondetInt32("r.i")))
		case 2:
			r = verifLit(system.String(verifrt.NondetString("r.s", 1)))
		case 3:
			q, err := system.ParseQuantity("1", []string{"mg", ""}[verifrt.Choose("r.qu", 2)])
			verifrt.Assume(err == nil)
			r = verifLit(q)
		case 4:
			r = verifLit(system.MustParseDate("2024-01-01"))
		default:
			r = verifLit(system.MustParseTime("10:00:00"))
		}
	}
	if verifrt.NondetBool("swap") {
		l, r = r, l
	}
	var e Expression
	switch node {
	case 0:
		e = &ArithmeticExpression{Left: l, Right: r, Op: verifArithOps[verifrt.Choose("arith", 3)]}
	case 1:
		e = &ComparisonExpression{Left: l, Right: r, Op: []Operator{Lt, Gte}[verifrt.Choose("cmp", 2)]}
	case 2:
		e = &EqualityExpression{Left: l, Right: r, Not: verifrt.NondetBool("neq")}
	case 3:
		e = &ConcatExpression{Left: l, Right: r}
	case 4:
		e = &NegationExpression{Expr: l}
	case 5:
		e = &IsExpression{Expr: l, Type: reflection.MustCreateTypeSpecifier("FHIR", "Quantity")}
	default:
		e = &AsExpression{Expr: l, Type: reflection.MustCreateTypeSpecifier("System", "Decimal")}
	}
	res, err := e.Evaluate(ctx, system.Collection{})
	verifrt.Assert(err != nil || res != nil, "returns-a-collection-or-an-error")
	verifrt.Reach("end")
}

func VerifHarness_C01_Elements_Arithmetic() { verifElementSweep(0) }
func VerifHarness_C01_Elements_Comparison() { verifElementSweep(1) }
func VerifHarness_C01_Elements_Equality()   { verifElementSweep(2) }
func VerifHarness_C01_Elements_Concat()     { verifElementSweep(3) }
func VerifHarness_C01_Elements_Negation()   { verifElementSweep(4) }
func VerifHarness_C01_Elements_Is()         { verifElementSweep(5) }
func VerifHarness_C01_Elements_As()         { verifElementSweep(6) }
