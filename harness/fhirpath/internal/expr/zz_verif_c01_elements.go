//go:build verif

package expr

import (
	"github.com/verily-src/fhirpath-go/fhirpath/internal/reflection"
	"github.com/verily-src/fhirpath-go/fhirpath/system"
	"github.com/verily-src/fhirpath-go/internal/verifrt"
)

// C01: operators over FHIR elements in every shape a resource may carry, against System operands of every form.
func verifElementSweep(node int) {
	ctx := &Context{ExternalConstants: map[string]any{}}
	l := verifFhirOperand("l")
	var r Expression
	if verifrt.Thorough() && verifrt.NondetBool("rightIsElement") { // element x element only in the thorough tier
		r = verifFhirOperand("r")
	} else {
		switch verifrt.Choose("r.form", 6) {
		case 0:
			r = &LiteralExpression{}
		case 1:
			r = verifLit(system.Integer(verifrt.NondetInt32("r.i")))
		case 2:
			r = verifLit(system.String(verifrt.NondetString("r.s", 1)))
		case 3:
			q, err := system.ParseQuantity("1", []string{"mg", ""}[verifrt.Choose("r.qu", 2)])
			verifrt.Assume(err == nil)
			r = verifLit(q)
		case 4:
			r = verifLit(system.MustParseDate("2024-01-01"))
		default:
			r = verifLit(system.MustParseTime("10:00:00"))
		}
	}
	if verifrt.NondetBool("swap") {
		l, r = r, l
	}
	var e Expression
	switch node {
	case 0:
		e = &ArithmeticExpression{Left: l, Right: r, Op: verifArithOps[verifrt.Choose("arith", 3)]}
	case 1:
		e = &ComparisonExpression{Left: l, Right: r, Op: []Operator{Lt, Gte}[verifrt.Choose("cmp", 2)]}
	case 2:
		e = &EqualityExpression{Left: l, Right: r, Not: verifrt.NondetBool("neq")}
	case 3:
		e = &ConcatExpression{Left: l, Right: r}
	case 4:
		e = &NegationExpression{Expr: l}
	case 5:
		e = &IsExpression{Expr: l, Type: reflection.MustCreateTypeSpecifier("FHIR", "Quantity")}
	default:
		e = &AsExpression{Expr: l, Type: reflection.MustCreateTypeSpecifier("System", "Decimal")}
	}
	res, err := e.Evaluate(ctx, system.Collection{})
	verifrt.Assert(err != nil || res != nil, "returns-a-collection-or-an-error")
	verifrt.Reach("end")
}

func VerifHarness_C01_Elements_Arithmetic() { verifElementSweep(0) }
func VerifHarness_C01_Elements_Comparison() { verifElementSweep(1) }
func VerifHarness_C01_Elements_Equality()   { verifElementSweep(2) }
func VerifHarness_C01_Elements_Concat()     { verifElementSweep(3) }
func VerifHarness_C01_Elements_Negation()   { verifElementSweep(4) }
func VerifHarness_C01_Elements_Is()         { verifElementSweep(5) }
func VerifHarness_C01_Elements_As()         { verifElementSweep(6) }
