//go:build verif

package expr

import (
	dtpb "github.com/google/fhir/go/proto/google/fhir/proto/r4/core/datatypes_go_proto"
	opb "github.com/google/fhir/go/proto/google/fhir/proto/r4/core/resources/observation_go_proto"
	ppb "github.com/google/fhir/go/proto/google/fhir/proto/r4/core/resources/patient_go_proto"
	"github.com/verily-src/fhirpath-go/fhirpath/system"
	"github.com/verily-src/fhirpath-go/internal/verifrt"
)

// C02: dotted paths over a Patient yield exactly the elements at that path - the resource's own nodes, in document
// order, repeated elements flattened, absent elements contributing nothing, a choice element reached by its base name
// yielding the chosen value.
func VerifHarness_C02_PatientNavigation() {
	p := verifPatient()
	in := system.Collection{p}
	ctx := &Context{ExternalConstants: map[string]any{}}
	check := func(label string, got system.Collection, err error, want []any) {
		ok := err == nil && len(got) == len(want)
		for i := 0; ok && i < len(want); i++ {
			ok = got[i] == want[i]
		}
		verifrt.Assert(ok, label)
	}
	// Patient.name
	var names, families, givens []any
	for _, n := range p.Name {
		names = append(names, n)
		if n.Family != nil {
			families = append(families, n.Family)
		}
		for _, g := range n.Given {
			givens = append(givens, g)
		}
	}
	got, err := verifPath("name").Evaluate(ctx, in)
	check("name-yields-every-name-in-order", got, err, names)
	got, err = verifPath("name", "family").Evaluate(ctx, in)
	check("absent-elements-contribute-nothing", got, err, families)
	got, err = verifPath("name", "given").Evaluate(ctx, in)
	check("repeated-elements-are-flattened-in-document-order", got, err, givens)
	var active []any
	if p.Active != nil {
		active = append(active, p.Active)
	}
	got, err = verifPath("active").Evaluate(ctx, in)
	check("singular-element-is-itself-or-nothing", got, err, active)
	var deceased []any
	if p.Deceased != nil {
		switch c := p.Deceased.Choice.(type) {
		case *ppb.Patient_DeceasedX_Boolean:
			deceased = append(deceased, c.Boolean)
		case *ppb.Patient_DeceasedX_DateTime:
			deceased = append(deceased, c.DateTime)
		}
	}
	got, err = verifPath("deceased").Evaluate(ctx, in)
	check("choice-element-yields-the-chosen-value", got, err, deceased)
	// an indexer selects by position in the flattened list
	k := verifrt.NondetIntRange("k", -1, 4)
	idx := &ExpressionSequence{Expressions: []Expression{verifPath("name", "given"), &IndexExpression{Index: verifLit(system.Integer(k))}}}
	got, err = idx.Evaluate(ctx, in)
	var at []any
	if k >= 0 && k < len(givens) {
		at = append(at, givens[k])
	}
	check("indexer-selects-by-position", got, err, at)
	// a name that is not an element of the type is an error, not empty
	_, err = verifPath("nosuch").Evaluate(ctx, in)
	verifrt.Assert(err != nil, "unknown-element-name-is-an-error")
	verifrt.Reach("end")
}

// C02: nested backbone components and their own repeated and singular children: Patient.contact.name.given,
// Patient.contact.telecom, Patient.link.other - lists inside lists are flattened in document order, a missing middle
// element contributes nothing.
func VerifHarness_C02_NestedComponents() {
	p := &ppb.Patient{}
	var contactNames, contactGivens, telecoms []any
	nc := verifrt.Choose("contacts", 3)
	for i := 0; i < nc; i++ {
		c := &ppb.Patient_Contact{}
		if verifrt.NondetBool("hasName") {
			c.Name = &dtpb.HumanName{}
			contactNames = append(contactNames, c.Name)
			ng := verifrt.Choose("givens", 3)
			for j := 0; j < ng; j++ {
				g := &dtpb.String{Value: "g"}
				c.Name.Given = append(c.Name.Given, g)
				contactGivens = append(contactGivens, g)
			}
		}
		nt := verifrt.Choose("telecoms", 3)
		for j := 0; j < nt; j++ {
			t := &dtpb.ContactPoint{Value: &dtpb.String{Value: "t"}}
			c.Telecom = append(c.Telecom, t)
			telecoms = append(telecoms, t)
		}
		p.Contact = append(p.Contact, c)
	}
	in := system.Collection{p}
	ctx := &Context{ExternalConstants: map[string]any{}}
	got, err := verifPathOf("Patient", "contact", "name").Evaluate(ctx, in)
	verifrt.Assert(verifSameNodes(got, err, contactNames), "singular-child-of-a-repeated-component")
	got, err = verifPathOf("Patient", "contact", "name", "given").Evaluate(ctx, in)
	verifrt.Assert(verifSameNodes(got, err, contactGivens), "list-inside-singular-inside-list-is-flattened-in-order")
	got, err = verifPathOf("Patient", "contact", "telecom").Evaluate(ctx, in)
	verifrt.Assert(verifSameNodes(got, err, telecoms), "list-inside-list-is-flattened-in-order")
	// a resource of another type contributes nothing to a path that starts with Patient
	got, err = verifPathOf("Observation", "status").Evaluate(ctx, in)
	verifrt.Assert(err == nil && len(got) == 0, "type-step-filters-by-resource-type")
	verifrt.Reach("end")
}

// C02: typed references read back through the `reference` element as Type/id[/_history/vid]; untyped references as
// their URI; fragments as #id; an absent reference contributes nothing.
func VerifHarness_C02_ReferenceElement() {
	ref := &dtpb.Reference{}
	want := ""
	id := []string{"a1", "x"}[verifrt.Choose("id", 2)]
	switch verifrt.Choose("form", 6) {
	case 0: // no reference at all
	case 1:
		ref.Reference, want = &dtpb.Reference_Uri{Uri: &dtpb.String{Value: "Organization/" + id}}, "Organization/"+id
	case 2:
		ref.Reference, want = &dtpb.Reference_Uri{Uri: &dtpb.String{Value: "http://h/fhir/Organization/" + id}}, "http://h/fhir/Organization/"+id
	case 3:
		ref.Reference, want = &dtpb.Reference_Fragment{Fragment: &dtpb.String{Value: id}}, "#"+id
	case 4:
		ref.Reference, want = &dtpb.Reference_OrganizationId{OrganizationId: &dtpb.ReferenceId{Value: id}}, "Organization/"+id
	default:
		ref.Reference, want = &dtpb.Reference_MedicinalProductPackagedId{MedicinalProductPackagedId: &dtpb.ReferenceId{Value: id, History: &dtpb.Id{Value: "2"}}}, "MedicinalProductPackaged/"+id+"/_history/2"
	}
	// the sibling elements of Reference do not take part in its `reference`: a type given as a URL (logical models,
	// profiles), as another resource's name or as arbitrary text, and a display
	switch verifrt.Choose("type", 5) {
	case 1:
		ref.Type = &dtpb.Uri{Value: "http://hl7.org/fhir/StructureDefinition/Organization"}
	case 2:
		ref.Type = &dtpb.Uri{Value: "Organization"}
	case 3:
		ref.Type = &dtpb.Uri{Value: "Patient"}
	case 4:
		ref.Type = &dtpb.Uri{Value: verifrt.NondetString("typeText", 2)}
	}
	if verifrt.NondetBool("display") {
		ref.Display = &dtpb.String{Value: "d"}
	}
	p := &ppb.Patient{ManagingOrganization: ref}
	got, err := verifPathOf("Patient", "managingOrganization", "reference").Evaluate(&Context{ExternalConstants: map[string]any{}}, system.Collection{p})
	if want == "" {
		verifrt.Assert(err == nil && len(got) == 0, "absent-reference-contributes-nothing")
	} else {
		ok := err == nil && len(got) == 1
		if ok {
			s, isStr := got[0].(*dtpb.String)
			ok = isStr && s.Value == want
		}
		verifrt.Assert(ok, "reference-element-reads-back-as-type-id-history")
	}
	verifrt.Reach("end")
}

// C02: choice elements of an Observation - value[x] on the resource and on each component, effective[x] - reached by
// their base name yield the chosen value; `.value` of a primitive yields the System value the element denotes
// (strings exactly, booleans, integers; dates and times as their FHIR text).
func VerifHarness_C02_ChoicesAndPrimitiveValues() {
	o := &opb.Observation{}
	var values, compValues []any
	switch verifrt.Choose("value", 5) {
	case 4:
		// an allocated wrapper that holds no choice (a state only the proto has): the JSON has no value[x], so nothing is yielded
		o.Value = &opb.Observation_ValueX{}
	case 1:
		q := &dtpb.Quantity{Value: &dtpb.Decimal{Value: "1.5"}}
		o.Value, values = &opb.Observation_ValueX{Choice: &opb.Observation_ValueX_Quantity{Quantity: q}}, []any{q}
	case 2:
		s := &dtpb.String{Value: "s"}
		o.Value, values = &opb.Observation_ValueX{Choice: &opb.Observation_ValueX_StringValue{StringValue: s}}, []any{s}
	case 3:
		b := &dtpb.Boolean{Value: verifrt.NondetBool("vb")}
		o.Value, values = &opb.Observation_ValueX{Choice: &opb.Observation_ValueX_Boolean{Boolean: b}}, []any{b}
	}
	nc := verifrt.Choose("components", 3)
	for i := 0; i < nc; i++ {
		c := &opb.Observation_Component{}
		if verifrt.NondetBool("componentHasValue") {
			iv := &dtpb.Integer{Value: int32(i)}
			c.Value = &opb.Observation_Component_ValueX{Choice: &opb.Observation_Component_ValueX_Integer{Integer: iv}}
			compValues = append(compValues, iv)
		}
		o.Component = append(o.Component, c)
	}
	in := system.Collection{o}
	ctx := &Context{ExternalConstants: map[string]any{}}
	got, err := verifPathOf("Observation", "value").Evaluate(ctx, in)
	verifrt.Assert(verifSameNodes(got, err, values), "value-x-yields-the-chosen-value")
	got, err = verifPathOf("Observation", "component", "value").Evaluate(ctx, in)
	verifrt.Assert(verifSameNodes(got, err, compValues), "component-value-x-yields-the-chosen-values-in-order")
	// primitive values
	active := verifrt.NondetBool("active")
	text := verifrt.NondetString("family", 2)
	birthZone := verifrt.Choose("birthZone", 4)
	p := &ppb.Patient{Active: &dtpb.Boolean{Value: active}, Name: []*dtpb.HumanName{{Family: &dtpb.String{Value: text}}},
		// (a date element holds the midnight of its own zone: 2024-02-29 wherever it was recorded)
		BirthDate: &dtpb.Date{ValueUs: 1709164800000000 - 1000000*[]int64{0, 19800, -28800, 50400}[birthZone],
			Timezone: []string{"Z", "+05:30", "-08:00", "+14:00"}[birthZone], Precision: dtpb.Date_DAY}}
	pin := system.Collection{p}
	got, err = verifPathOf("Patient", "active", "value").Evaluate(ctx, pin)
	verifrt.Assert(err == nil && len(got) == 1 && got[0] == system.Boolean(active), "boolean-value")
	got, err = verifPathOf("Patient", "name", "family", "value").Evaluate(ctx, pin)
	verifrt.Assert(err == nil && len(got) == 1 && got[0] == system.String(text), "string-value-exactly")
	got, err = verifPathOf("Patient", "birthDate", "value").Evaluate(ctx, pin)
	verifrt.Assert(err == nil && len(got) == 1 && got[0] == system.String("2024-02-29"), "date-value-as-its-fhir-text")
	// the proto-only fields of the time types are not elements
	_, err = verifPathOf("Patient", "birthDate", "valueUs").Evaluate(ctx, pin)
	verifrt.Assert(err != nil, "proto-only-fields-are-not-reachable")
	verifrt.Reach("end")
}
