//go:build verif

package expr

import (
	dtpb "github.com/google/fhir/go/proto/google/fhir/proto/r4/core/datatypes_go_proto"
	orgpb "github.com/google/fhir/go/proto/google/fhir/proto/r4/core/resources/organization_go_proto"
	ppb "github.com/google/fhir/go/proto/google/fhir/proto/r4/core/resources/patient_go_proto"
	"github.com/verily-src/fhirpath-go/fhirpath/system"
	"github.com/verily-src/fhirpath-go/internal/verifrt"
)

// C04: a compiled expression has no memory: what one path step yields for an input is what a fresh node yields for
// it, whatever the same node was evaluated on before - items of another type that shares the short name of its
// message (Patient.Contact / Organization.Contact), an item where the name is a plain element and one where it is a
// choice (Identifier.value / Extension.value).
func VerifHarness_C04_ExpressionHasNoMemoryOfEarlierInputs() {
	pc := &ppb.Patient_Contact{Name: &dtpb.HumanName{Family: &dtpb.String{Value: "p"}}}
	oc := &orgpb.Organization_Contact{Name: &dtpb.HumanName{Family: &dtpb.String{Value: "o"}}}
	ident := &dtpb.Identifier{Value: &dtpb.String{Value: "abc"}}
	ext := &dtpb.Extension{Value: &dtpb.Extension_ValueX{Choice: &dtpb.Extension_ValueX_StringValue{StringValue: &dtpb.String{Value: "abc"}}}}
	pool := []any{pc, oc, ident, ext}
	names := []string{"name", "name", "value", "value"}
	i, j := verifrt.Choose("first", 4), verifrt.Choose("second", 4)
	verifrt.Assume(names[i] == names[j])
	ctx := &Context{ExternalConstants: map[string]any{}}
	used := &FieldExpression{FieldName: names[i]}
	_, _ = used.Evaluate(ctx, system.Collection{pool[i]})
	got, err := used.Evaluate(ctx, system.Collection{pool[j]})
	want, errW := (&FieldExpression{FieldName: names[j]}).Evaluate(ctx, system.Collection{pool[j]})
	same := (err == nil) == (errW == nil) && len(got) == len(want)
	for k := 0; same && k < len(got); k++ {
		same = got[k] == want[k]
	}
	verifrt.Assert(same, "a-used-expression-evaluates-like-a-fresh-one")
	verifrt.Reach("end")
}
