//go:build verif

package expr

import (
	dtpb "github.com/google/fhir/go/proto/google/fhir/proto/r4/core/datatypes_go_proto"
	orgpb "github.com/google/fhir/go/proto/google/fhir/proto/r4/core/resources/organization_go_proto"
	ppb "github.com/google/fhir/go/proto/google/fhir/proto/r4/core/resources/patient_go_proto"
	"github.com/shopspring/decimal"
	"github.com/verily-src/fhirpath-go/fhirpath/system"
	"github.com/verily-src/fhirpath-go/internal/verifrt"
)

// C04: a compiled expression has no memory: what one path step yields for an input is what a fresh node yields for
// it, whatever the same node was evaluated on before - items of another type that shares the short name of its
// message (Patient.Contact / Organization.Contact), an item where the name is a plain element and one where it is a
// choice (Identifier.value / Extension.value).
func VerifHarness_C04_ExpressionHasNoMemoryOfEarlierInputs() {
	pc := &ppb.Patient_Contact{Name: &dtpb.HumanName{Family: &dtpb.String{Value: "p"}}}
	oc := &orgpb.Organization_Contact{Name: &dtpb.HumanName{Family: &dtpb.String{Value: "o"}}}
	ident := &dtpb.Identifier{Value: &dtpb.String{Value: "abc"}}
	ext := &dtpb.Extension{Value: &dtpb.Extension_ValueX{Choice: &dtpb.Extension_ValueX_StringValue{StringValue: &dtpb.String{Value: "abc"}}}}
	pool := []any{pc, oc, ident, ext}
	names := []string{"name", "name", "value", "value"}
	i, j := verifrt.Choose("first", 4), verifrt.Choose("second", 4)
	verifrt.Assume(names[i] == names[j])
	ctx := &Context{ExternalConstants: map[string]any{}}
	used := &FieldExpression{FieldName: names[i]}
	_, _ = used.Evaluate(ctx, system.Collection{pool[i]})
	got, err := used.Evaluate(ctx, system.Collection{pool[j]})
	want, errW := (&FieldExpression{FieldName: names[j]}).Evaluate(ctx, system.Collection{pool[j]})
	same := (err == nil) == (errW == nil) && len(got) == len(want)
	for k := 0; same && k < len(got); k++ {
		same = got[k] == want[k]
	}
	verifrt.Assert(same, "a-used-expression-evaluates-like-a-fresh-one")
	verifrt.Reach("end")
}

// C04: the arithmetic operators share nothing that they write: with every package-level variable of the repository
// and the settings of the decimal library protected, an operation on Decimals of up to 20 decimal places writes to none
// of them - and what `a / b` yields does not depend on which operation was evaluated before it.
func VerifHarness_C04_OperatorsHaveNoMemory() {
	verifrt.ProtectGlobals()
	ops := []func(system.Any, system.Any) (system.Any, error){EvaluateAdd, EvaluateSub, EvaluateMul, EvaluateDiv, EvaluateFloorDiv, EvaluateMod}
	first := ops[verifrt.Choose("op", len(ops))]
	scale := []int32{0, 2, 16, 17, 20}[verifrt.Choose("scale", 5)]
	a := system.Decimal(decimal.New(int64(verifrt.NondetIntRange("a", 1, 9)), -scale))
	b := system.Decimal(decimal.New(int64(verifrt.NondetIntRange("b", 1, 9)), -[]int32{0, 1, 20}[verifrt.Choose("scaleB", 3)]))
	before, errB := EvaluateDiv(system.Decimal(decimal.New(1, 0)), system.Decimal(decimal.New(3, 0)))
	_, _ = first(a, b)
	verifrt.CheckFrames()
	after, errA := EvaluateDiv(system.Decimal(decimal.New(1, 0)), system.Decimal(decimal.New(3, 0)))
	same := errB == nil && errA == nil
	if same {
		x, y := decimal.Decimal(before.(system.Decimal)), decimal.Decimal(after.(system.Decimal))
		same = x.Cmp(y) == 0 && x.Exponent() == y.Exponent()
	}
	verifrt.Assert(same, "a-quotient-does-not-depend-on-what-was-evaluated-before")
	verifrt.Reach("end")
}
