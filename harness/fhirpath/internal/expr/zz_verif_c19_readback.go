//go:build verif

package expr

import (
	dtpb "github.com/google/fhir/go/proto/google/fhir/proto/r4/core/datatypes_go_proto"
	ppb "github.com/google/fhir/go/proto/google/fhir/proto/r4/core/resources/patient_go_proto"
	"github.com/verily-src/fhirpath-go/fhirpath/system"
	"github.com/verily-src/fhirpath-go/internal/verifrt"
)

// C19: a typed (strong) reference and the untyped URI reference naming the same resource - with or without a version -
// read back through the FHIRPath `reference` element as the same string, Type/id[/_history/version].
func VerifHarness_C19_StrongAndWeakReadBackAlike() {
	id := verifrt.NondetString("id", 2)
	verifrt.Assume(len(id) > 0)
	version := ""
	if verifrt.NondetBool("versioned") {
		version = verifrt.NondetString("version", 1)
		verifrt.Assume(len(version) > 0)
	}
	rid := &dtpb.ReferenceId{Value: id}
	if version != "" {
		rid.History = &dtpb.Id{Value: version}
	} else if verifrt.NondetBool("emptyHistoryElement") {
		rid.History = &dtpb.Id{} // an allocated history element without a value is no version
	}
	strong := &dtpb.Reference{}
	typeName := ""
	switch verifrt.Choose("type", 3) {
	case 0:
		strong.Reference, typeName = &dtpb.Reference_OrganizationId{OrganizationId: rid}, "Organization"
	case 1:
		strong.Reference, typeName = &dtpb.Reference_PatientId{PatientId: rid}, "Patient"
	default:
		strong.Reference, typeName = &dtpb.Reference_MedicinalProductPackagedId{MedicinalProductPackagedId: rid}, "MedicinalProductPackaged"
	}
	text := typeName + "/" + id
	if version != "" {
		text += "/_history/" + version
	}
	weak := &dtpb.Reference{Reference: &dtpb.Reference_Uri{Uri: &dtpb.String{Value: text}}}
	read := func(r *dtpb.Reference) (string, bool) {
		got, err := verifPathOf("Patient", "managingOrganization", "reference").Evaluate(&Context{ExternalConstants: map[string]any{}}, system.Collection{&ppb.Patient{ManagingOrganization: r}})
		if err != nil || len(got) != 1 {
			return "", false
		}
		s, isStr := got[0].(*dtpb.String)
		if !isStr {
			return "", false
		}
		return s.Value, true
	}
	s1, ok1 := read(strong)
	s2, ok2 := read(weak)
	verifrt.Assert(ok1 && ok2 && s1 == s2 && s2 == text, "strong-and-weak-reference-read-back-as-the-same-string")
	verifrt.Reach("end")
}
