//go:build verif

package expr

import (
	"errors"

	dtpb "github.com/google/fhir/go/proto/google/fhir/proto/r4/core/datatypes_go_proto"
	devpb "github.com/google/fhir/go/proto/google/fhir/proto/r4/core/resources/device_go_proto"
	encpb "github.com/google/fhir/go/proto/google/fhir/proto/r4/core/resources/encounter_go_proto"
	mkpb "github.com/google/fhir/go/proto/google/fhir/proto/r4/core/resources/medication_knowledge_go_proto"
	mspb "github.com/google/fhir/go/proto/google/fhir/proto/r4/core/resources/molecular_sequence_go_proto"
	pdpb "github.com/google/fhir/go/proto/google/fhir/proto/r4/core/resources/plan_definition_go_proto"
	"github.com/verily-src/fhirpath-go/fhirpath/system"
	"github.com/verily-src/fhirpath-go/internal/fhir"
	"github.com/verily-src/fhirpath-go/internal/verifrt"
)

// C02: every element of a type is reachable under its FHIR name - the JSON name of its field, whatever digits or runs
// of capitals it has (lethalDose50, carrierAIDC, truthTP, class) - and a name that is not an element of the type fails
// with ErrInvalidField (classValue, dynamic, class_value). The field is drawn over all fields of backbone components
// and resources whose names are not the snake-case image of their proto field.
func VerifHarness_C02_ElementsAreKnownByTheirFHIRNames() {
	var msg fhir.Base
	var notElements []string
	switch verifrt.Choose("type", 5) {
	case 0:
		msg, notElements = &devpb.Device_UdiCarrier{}, []string{"carrierAidc", "carrier_aidc", "carrierHrf"}
	case 1:
		msg, notElements = &mkpb.MedicationKnowledge_Kinetics{}, []string{"lethalDose", "lethal_dose50", "lethalDose_50"}
	case 2:
		msg, notElements = &encpb.Encounter{}, []string{"classValue", "class_value", "Class"}
	case 3:
		msg, notElements = &mspb.MolecularSequence_Quality{}, []string{"truthTp", "truth_tp", "gtFp"}
	default:
		msg, notElements = &pdpb.PlanDefinition_Action{}, []string{"dynamic", "dynamic_value", "Title"}
	}
	ctx := &Context{ExternalConstants: map[string]any{}}
	fields := msg.ProtoReflect().Descriptor().Fields()
	i := verifrt.Choose("field", fields.Len())
	name := fields.Get(i).JSONName()
	verifrt.Tag("fieldName", name)
	got, err := (&FieldExpression{FieldName: name}).Evaluate(ctx, system.Collection{msg})
	verifrt.Assert(err == nil && len(got) == 0, "every-element-of-the-type-is-reachable-under-its-FHIR-name")
	bad := notElements[verifrt.Choose("notElement", len(notElements))]
	_, err2 := (&FieldExpression{FieldName: bad}).Evaluate(ctx, system.Collection{msg})
	verifrt.Assert(errors.Is(err2, ErrInvalidField), "a-name-that-is-not-an-element-is-an-invalid-field")
	verifrt.Reach("end")
}

// C02: a populated element with such a name yields its value.
func VerifHarness_C02_OddlyNamedElementsYieldTheirValues() {
	q := &dtpb.SimpleQuantity{Value: &dtpb.Decimal{Value: "1"}}
	k := &mkpb.MedicationKnowledge_Kinetics{LethalDose50: []*dtpb.SimpleQuantity{q}}
	mk := &mkpb.MedicationKnowledge{Kinetics: []*mkpb.MedicationKnowledge_Kinetics{k}}
	got, err := verifPathOf("MedicationKnowledge", "kinetics", "lethalDose50").Evaluate(&Context{ExternalConstants: map[string]any{}}, system.Collection{mk})
	verifrt.Assert(err == nil && len(got) == 1 && got[0] == any(q), "lethalDose50-yields-its-value")
	hrf := &dtpb.String{Value: verifrt.NondetString("hrf", 1)}
	dev := &devpb.Device{UdiCarrier: []*devpb.Device_UdiCarrier{{CarrierHrf: hrf}}}
	got2, err2 := verifPathOf("Device", "udiCarrier", "carrierHRF").Evaluate(&Context{ExternalConstants: map[string]any{}}, system.Collection{dev})
	verifrt.Assert(err2 == nil && len(got2) == 1 && got2[0] == any(hrf), "carrierHRF-yields-its-value")
	coding := &dtpb.Coding{Code: &dtpb.Code{Value: "AMB"}}
	enc := &encpb.Encounter{ClassValue: coding}
	got3, err3 := verifPathOf("Encounter", "class").Evaluate(&Context{ExternalConstants: map[string]any{}}, system.Collection{enc})
	verifrt.Assert(err3 == nil && len(got3) == 1 && got3[0] == any(coding), "class-yields-its-value")
	verifrt.Reach("end")
}
