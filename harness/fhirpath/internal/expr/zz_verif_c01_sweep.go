//go:build verif

package expr

import (
	"math"

	dtpb "github.com/google/fhir/go/proto/google/fhir/proto/r4/core/datatypes_go_proto"
	"github.com/shopspring/decimal"
	"github.com/verily-src/fhirpath-go/fhirpath/internal/reflection"
	"github.com/verily-src/fhirpath-go/fhirpath/system"
	"github.com/verily-src/fhirpath-go/internal/verifrt"
)

// verifOperand draws an operand expression of an arbitrary form with boundary-rich symbolic payloads.
func verifOperand(label string) Expression { return verifOperandN(label, false) }

// verifInt32 is any int32, or - when narrow - one of a menu of concrete values: the quick tier uses it for the
// divisor of '/', whose rounding branches are non-linear in two symbolic operands (the dividend stays symbolic).
func verifInt32(label string, narrow bool) int32 {
	if !narrow {
		return verifrt.NondetInt32(label)
	}
	return []int32{0, 1, -1, 3, -7, 1000, math.MinInt32, math.MaxInt32}[verifrt.Choose(label+".menu", 8)]
}

func verifOperandN(label string, narrow bool) Expression {
	switch verifrt.Choose(label+".form", 11) {
	case 0:
		return &LiteralExpression{}
	case 1:
		return verifLit(system.Integer(verifInt32(label+".i", narrow)))
	case 2:
		return verifLit(system.String(verifrt.NondetString(label+".s", 2)))
	case 3:
		return verifLit(system.Boolean(verifrt.NondetBool(label + ".b")))
	case 4:
		if narrow {
			return verifLit(system.Decimal(decimal.New([]int64{0, 1, -3, 25, 300}[verifrt.Choose(label+".dmenu", 5)], int32(-verifrt.Choose(label+".scale", 3)))))
		}
		return verifLit(system.Decimal(decimal.New(int64(verifrt.NondetIntRange(label+".dm", -300, 300)), int32(-verifrt.Choose(label+".scale", 3)))))
	case 5:
		q, err := system.ParseQuantity([]string{"1", "-2.5", "0"}[verifrt.Choose(label+".qv", 3)], []string{"mg", "", "days", "hour"}[verifrt.Choose(label+".qu", 4)])
		verifrt.Assume(err == nil)
		return verifLit(q)
	case 6:
		p := []dtpb.Date_Precision{dtpb.Date_YEAR, dtpb.Date_MONTH, dtpb.Date_DAY}[verifrt.Choose(label+".dp", 3)]
		d, err := system.DateFromProto(&dtpb.Date{ValueUs: 1000000 * int64(verifrt.NondetIntRange(label+".date.s", 1704067200, 1704067200+400*86400)), Precision: p})
		verifrt.Assume(err == nil)
		return verifLit(d)
	case 7:
		p := []dtpb.Time_Precision{dtpb.Time_SECOND, dtpb.Time_MILLISECOND}[verifrt.Choose(label+".tp", 2)]
		return verifLit(system.TimeFromProto(&dtpb.Time{ValueUs: 1000 * int64(verifrt.NondetIntRange(label+".t.ms", 0, 86399999)), Precision: p}))
	case 8:
		return verifConst(system.Collection{&dtpb.Integer{Value: verifInt32(label+".fi", narrow)}})
	case 9:
		return verifConst(system.Collection{&dtpb.HumanName{Family: &dtpb.String{Value: verifrt.NondetString(label+".fam", 1)}}})
	default:
		return verifConst(system.Collection{system.Integer(verifrt.NondetInt32(label + ".m0")), system.Integer(verifrt.NondetInt32(label + ".m1"))})
	}
}

// C01: every operator node with operands of every form returns a collection or an error - no run-time panic.
func verifOperatorSweep(node int) {
	ctx := &Context{ExternalConstants: map[string]any{}}
	var l, r Expression
	op := 0
	if node == 0 {
		op = verifrt.Choose("arith", 6)
		narrow := op == 3 && !verifrt.Thorough() // '/'
		l, r = verifOperand("l"), verifOperandN("r", narrow)
	} else {
		l, r = verifOperand("l"), verifOperand("r")
	}
	var e Expression
	switch node {
	case 0:
		e = &ArithmeticExpression{Left: l, Right: r, Op: verifArithOps[op]}
	case 1:
		e = &ComparisonExpression{Left: l, Right: r, Op: []Operator{Lt, Gt, Lte, Gte}[verifrt.Choose("cmp", 4)]}
	case 2:
		e = &EqualityExpression{Left: l, Right: r, Not: verifrt.NondetBool("neq")}
	case 3:
		e = &BooleanExpression{Left: l, Right: r, Op: verifOps3[verifrt.Choose("bool", 4)]}
	case 4:
		e = &ConcatExpression{Left: l, Right: r}
	case 5:
		e = &NegationExpression{Expr: l}
	case 6:
		e = &IndexExpression{Index: r}
	case 7:
		e = &IsExpression{Expr: l, Type: reflection.MustCreateTypeSpecifier("System", "Integer")}
	default:
		e = &AsExpression{Expr: l, Type: reflection.MustCreateTypeSpecifier("FHIR", "string")}
	}
	input := system.Collection{system.Integer(1), system.String("x")}
	res, err := e.Evaluate(ctx, input)
	verifrt.Assert(err != nil || res != nil, "returns-a-collection-or-an-error")
	verifrt.Reach("end")
}

func VerifHarness_C01_Operator_Arithmetic() { verifOperatorSweep(0) }
func VerifHarness_C01_Operator_Comparison() { verifOperatorSweep(1) }
func VerifHarness_C01_Operator_Equality()   { verifOperatorSweep(2) }
func VerifHarness_C01_Operator_Boolean()    { verifOperatorSweep(3) }
func VerifHarness_C01_Operator_Concat()     { verifOperatorSweep(4) }
func VerifHarness_C01_Operator_Negation()   { verifOperatorSweep(5) }
func VerifHarness_C01_Operator_Index()      { verifOperatorSweep(6) }
func VerifHarness_C01_Operator_Is()         { verifOperatorSweep(7) }
func VerifHarness_C01_Operator_As()         { verifOperatorSweep(8) }
