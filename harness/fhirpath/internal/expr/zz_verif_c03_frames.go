//go:build verif

package expr

import (
	dtpb "github.com/google/fhir/go/proto/google/fhir/proto/r4/core/datatypes_go_proto"
	bcrpb "github.com/google/fhir/go/proto/google/fhir/proto/r4/core/resources/bundle_and_contained_resource_go_proto"
	ppb "github.com/google/fhir/go/proto/google/fhir/proto/r4/core/resources/patient_go_proto"
	"github.com/verily-src/fhirpath-go/fhirpath/internal/reflection"
	"github.com/verily-src/fhirpath-go/fhirpath/system"
	"github.com/verily-src/fhirpath-go/internal/verifrt"
)

// verifSpare builds a collection of n items (0..2) with 0..2 cells of spare capacity behind it.
func verifSpare(label string, maxItems int) system.Collection {
	n := verifrt.Choose(label+".n", maxItems+1)
	k := verifrt.Choose(label+".spare", verifrt.Bound(2, 3))
	c := make(system.Collection, 0, n+k)
	for i := 0; i < n; i++ {
		switch verifrt.Choose(label+".kind", verifrt.Bound(2, 3)) {
		case 0:
			c = append(c, system.Integer(verifrt.NondetIntRange(label+".i", 0, 2)))
		case 2:
			c = append(c, system.String(verifrt.NondetString(label+".s", 1)))
		default:
			c = append(c, &dtpb.HumanName{Family: &dtpb.String{Value: "x"}})
		}
	}
	return c
}

// verifChild: an operand expression - the input itself ($this), an environment variable, or a literal.
func verifChild(label string) Expression {
	switch verifrt.Choose(label, 4) {
	case 0:
		return &IdentityExpression{}
	case 1:
		return &ExternalConstantExpression{Identifier: "e"}
	case 2:
		return &ExternalConstantExpression{Identifier: "v"}
	default:
		if label == "l" {
			return verifLit(system.String("lit"))
		}
		return verifLit(system.Integer(1))
	}
}

// C03: evaluating any operator node - successfully or not - leaves the input collection, the environment-variable
// collections (including the cells between len and cap of their backing arrays) and the expression tree unchanged.
func VerifHarness_C03_OperatorsDoNotMutate() {
	verifrt.IgnorePanics()
	input := verifSpare("in", verifrt.Bound(1, 2))
	envE := verifSpare("e", 0) // empty, possibly with spare capacity
	envV := verifSpare("v", verifrt.Bound(1, 2))
	if verifrt.NondetBool("envAliasesInput") {
		envV = input
	}
	ctx := &Context{ExternalConstants: map[string]any{"e": envE, "v": envV}}
	l, r := verifChild("l"), verifChild("r")
	var e Expression
	switch verifrt.Choose("node", 9) {
	case 0:
		e = &ConcatExpression{Left: l, Right: r}
	case 1:
		e = &ArithmeticExpression{Left: l, Right: r, Op: verifArithOps[verifrt.Choose("arith", verifrt.Bound(2, 6))]}
	case 2:
		e = &EqualityExpression{Left: l, Right: r}
	case 3:
		e = &ComparisonExpression{Left: l, Right: r, Op: Lt}
	case 4:
		e = &BooleanExpression{Left: l, Right: r, Op: verifOps3[verifrt.Choose("bool", verifrt.Bound(1, 4))]}
	case 5:
		e = &IndexExpression{Index: r}
	case 6:
		e = &IsExpression{Expr: l, Type: reflection.MustCreateTypeSpecifier("System", "String")}
	case 7:
		e = &AsExpression{Expr: l, Type: reflection.MustCreateTypeSpecifier("System", "Integer")}
	default:
		e = &ExpressionSequence{Expressions: []Expression{l, &NegationExpression{Expr: r}}}
	}
	verifrt.ProtectSlice("input", input)
	verifrt.ProtectSlice("env e", envE)
	verifrt.ProtectSlice("env v", envV)
	verifrt.Protect("expression", e)
	res, _ := e.Evaluate(ctx, input)
	// FHIR elements in a result are the input's own nodes, never copies
	for _, item := range res {
		if hn, ok := item.(*dtpb.HumanName); ok {
			own := false
			for _, src := range []system.Collection{input, envV} {
				for _, x := range src[:cap(src)][:len(src)] {
					if x == any(hn) {
						own = true
					}
				}
			}
			verifrt.Assert(own, "result-elements-are-the-inputs-own-nodes")
		}
	}
	verifrt.CheckFrames()
	verifrt.Reach("end")
}

// C03: a variable holding resources in the wrapper they have as bundle entries or contained resources (as taken from
// Bundle.entry.resource): reading it, navigating into it, comparing it or testing its type leaves the caller's slice -
// every cell up to its capacity - and the wrappers as they were.
func VerifHarness_C03_VariablesHoldingWrappedResources() {
	verifrt.IgnorePanics()
	envV := make(system.Collection, 0, 3)
	n := 1 + verifrt.Choose("entries", 2)
	for i := 0; i < n; i++ {
		if verifrt.NondetBool("emptyWrapper") {
			envV = append(envV, &bcrpb.ContainedResource{})
		} else {
			envV = append(envV, &bcrpb.ContainedResource{OneofResource: &bcrpb.ContainedResource_Patient{Patient: &ppb.Patient{Id: &dtpb.Id{Value: "p"}}}})
		}
	}
	if verifrt.NondetBool("scalar") {
		envV = envV[:1]
	}
	ctx := &Context{ExternalConstants: map[string]any{"v": envV}}
	if verifrt.NondetBool("scalar") && verifrt.NondetBool("asItem") {
		ctx.ExternalConstants["v"] = envV[0]
	}
	v := &ExternalConstantExpression{Identifier: "v"}
	var e Expression
	switch verifrt.Choose("node", 5) {
	case 0:
		e = v
	case 1:
		e = &ExpressionSequence{Expressions: []Expression{v, &FieldExpression{FieldName: "id"}}}
	case 2:
		e = &EqualityExpression{Left: v, Right: v}
	case 3:
		e = &IsExpression{Expr: v, Type: reflection.MustCreateTypeSpecifier("FHIR", "Patient")}
	default:
		e = &ExpressionSequence{Expressions: []Expression{v, &IndexExpression{Index: verifLit(system.Integer(0))}}}
	}
	verifrt.ProtectSlice("env v", envV)
	for _, w := range envV {
		verifrt.Protect("wrapper", w)
	}
	verifrt.Protect("expression", e)
	e.Evaluate(ctx, system.Collection{})
	verifrt.CheckFrames()
	verifrt.Reach("end")
}
