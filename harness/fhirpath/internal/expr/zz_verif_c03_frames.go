//go:build verif

package expr

import (
	dtpb "github.com/google/fhir/go/proto/google/fhir/proto/r4/core/datatypes_go_proto"
	"github.com/verily-src/fhirpath-go/fhirpath/internal/reflection"
	"github.com/verily-src/fhirpath-go/fhirpath/system"
	"github.com/verily-src/fhirpath-go/internal/verifrt"
)

// verifSpare builds a collection of n items (0..2) with 0..2 cells of spare capacity behind it.
func verifSpare(label string, maxItems int) system.Collection {
	n := verifrt.Choose(label+".n", maxItems+1)
	k := verifrt.Choose(label+".spare", verifrt.Bound(2, 3))
	c := make(system.Collection, 0, n+k)
	for i := 0; i < n; i++ {
		switch verifrt.Choose(label+".kind", verifrt.Bound(2, 3)) {
		case 0:
			c = append(c, system.Integer(verifrt.NondetIntRange(label+".i", 0, 2)))
		case 2:
			c = append(c, system.String(verifrt.NondetString(label+".s", 1)))
		default:
			c = append(c, &dtpb.HumanName{Family: &dtpb.String{Value: "x"}})
		}
	}
	return c
}

// verifChild: an operand expression - the input itself ($this), an environment variable, or a literal.
func verifChild(label string) Expression {
	switch verifrt.Choose(label, 4) {
	case 0:
		return &IdentityExpression{}
	case 1:
		return &ExternalConstantExpression{Identifier: "e"}
	case 2:
		return &ExternalConstantExpression{Identifier: "v"}
	default:
		if label == "l" {
			return verifLit(system.String("lit"))
		}
		return verifLit(system.Integer(1))
	}
}

// C03: evaluating any operator node - successfully or not - leaves the input collection, the environment-variable
// collections (including the cells between len and cap of their backing arrays) and the expression tree unchanged.
func VerifHarness_C03_OperatorsDoNotMutate() {
	verifrt.IgnorePanics()
	input := verifSpare("in", verifrt.Bound(1, 2))
	envE := verifSpare("e", 0) // empty, possibly with spare capacity
	envV := verifSpare("v", verifrt.Bound(1, 2))
	if verifrt.NondetBool("envAliasesInput") {
		envV = input
	}
	ctx := &Context{ExternalConstants: map[string]any{"e": envE, "v": envV}}
	l, r := verifChild("l"), verifChild("r")
	var e Expression
	switch verifrt.Choose("node", 9) {
	case 0:
		e = &ConcatExpression{Left: l, Right: r}
	case 1:
		e = &ArithmeticExpression{Left: l, Right: r, Op: verifArithOps[verifrt.Choose("arith", verifrt.Bound(2, 6))]}
	case 2:
		e = &EqualityExpression{Left: l, Right: r}
	case 3:
		e = &ComparisonExpression{Left: l, Right: r, Op: Lt}
	case 4:
		e = &BooleanExpression{Left: l, Right: r, Op: verifOps3[verifrt.Choose("bool", verifrt.Bound(1, 4))]}
	case 5:
		e = &IndexExpression{Index: r}
	case 6:
		e = &IsExpression{Expr: l, Type: reflection.MustCreateTypeSpecifier("System", "String")}
	case 7:
		e = &AsExpression{Expr: l, Type: reflection.MustCreateTypeSpecifier("System", "Integer")}
	default:
		e = &ExpressionSequence{Expressions: []Expression{l, &NegationExpression{Expr: r}}}
	}
	verifrt.ProtectSlice("input", input)
	verifrt.ProtectSlice("env e", envE)
	verifrt.ProtectSlice("env v", envV)
	verifrt.Protect("expression", e)
	res, _ := e.Evaluate(ctx, input)
	// FHIR elements in a result are the input's own nodes, never copies
	for _, item := range res {
		if hn, ok := item.(*dtpb.HumanName); ok {
			own := false
			for _, src := range []system.Collection{input, envV} {
				for _, x := range src[:cap(src)][:len(src)] {
					if x == any(hn) {
						own = true
					}
				}
			}
			verifrt.Assert(own, "result-elements-are-the-inputs-own-nodes")
		}
	}
	verifrt.CheckFrames()
	verifrt.Reach("end")
}
