//go:build verif

package expr

import (
	"errors"
	"math/big"

	"github.com/shopspring/decimal"
	"github.com/verily-src/fhirpath-go/fhirpath/system"
	"github.com/verily-src/fhirpath-go/internal/verifrt"
)

// C08 / C01: a Decimal product is exact - coefficient times coefficient, exponent plus exponent - for every pair of
// exponents within the range of decimals read from text (+-100000); a product whose exponent would leave that range
// is refused like integer overflow (the operator yields empty), so that no chain of multiplications reaches an
// exponent that makes the next operation compute a power of ten of unbounded size (or panic beyond 32 bits).
func VerifHarness_C08_ProductExponentIsBounded() {
	ca, cb := int64(verifrt.NondetIntRange("ca", -999, 999)), int64(verifrt.NondetIntRange("cb", -999, 999))
	ea, eb := int32(verifrt.NondetIntRange("ea", -100000, 100000)), int32(verifrt.NondetIntRange("eb", -100000, 100000))
	a, b := system.Decimal(decimal.New(ca, ea)), system.Decimal(decimal.New(cb, eb))
	got, err := EvaluateMul(a, b)
	sum := int64(ea) + int64(eb)
	if sum > 100000 || sum < -100000 {
		verifrt.Assert(errors.Is(err, system.ErrIntOverflow), "product-outside-the-exponent-range-is-refused")
		verifrt.Reach("refused")
		return
	}
	// ... and likewise a product with more than 100000 digits in front of the decimal point (digits of the coefficient
	// plus exponent, summed over the factors - the bound the library documents for Product and Quotient): refusal is
	// allowed there and nowhere else
	if err != nil {
		verifrt.Assert(errors.Is(err, system.ErrIntOverflow) && verifMagnitude(ca, ea)+verifMagnitude(cb, eb) > 100000, "product-is-refused-only-beyond-the-documented-size")
		verifrt.Reach("refused-for-size")
		return
	}
	d, isDec := got.(system.Decimal)
	ok := err == nil && isDec
	if ok {
		p := decimal.Decimal(d)
		ok = int64(p.Exponent()) == sum && p.Coefficient().Cmp(big.NewInt(ca*cb)) == 0
	}
	verifrt.Assert(ok, "product-is-exact")
	verifrt.Reach("end")
}

func verifMagnitude(c int64, e int32) int64 {
	if c == 0 {
		return 0
	}
	if c < 0 {
		c = -c
	}
	digits := int64(1)
	for c >= 10 {
		c /= 10
		digits++
	}
	return digits + int64(e)
}

// C08 / C01: a quotient whose size (digits in front of the decimal point) would leave the supported range is refused
// like integer overflow, so that a chain of divisions by very small numbers cannot grow a value - and the cost of every
// later operation on it - without bound; inside the range '/' is never refused for size. Exponent pairs from a menu
// (far beyond the range, and ordinary; a quotient of 100000 digits that is *not* refused costs the solver minutes and
// is left out), coefficients symbolic.
func VerifHarness_C08_QuotientSizeIsBounded() {
	ca, cb := int64(verifrt.NondetIntRange("ca", 1, 999)), int64(verifrt.NondetIntRange("cb", 1, 999))
	which := verifrt.Choose("exponents", 7)
	pair := [][2]int32{{100000, -100000}, {100000, -30}, {40, -100000}, {40, -30}, {0, 0}, {0, 7}, {40, 7}}[which]
	ea, eb := pair[0], pair[1]
	if which >= 3 {
		// the division is carried out: concrete coefficients (a symbolic-by-symbolic division is C08_DecimalDiv's subject)
		ca, cb = []int64{7, 999, 1}[verifrt.Choose("a", 3)], []int64{3, 1, 999}[verifrt.Choose("b", 3)]
	}
	a, b := system.Decimal(decimal.New(ca, ea)), system.Decimal(decimal.New(cb, eb))
	got, err := EvaluateDiv(a, b)
	size := verifMagnitude(ca, ea) - verifMagnitude(cb, eb)
	if size > 100001 {
		verifrt.Assert(errors.Is(err, system.ErrIntOverflow), "quotient-beyond-the-supported-size-is-refused")
		verifrt.Reach("refused")
		return
	}
	if size < 100000 {
		_, isDec := got.(system.Decimal)
		verifrt.Assert(err == nil && isDec, "quotient-within-the-supported-size-is-not-refused")
	}
	verifrt.Reach("end")
}
