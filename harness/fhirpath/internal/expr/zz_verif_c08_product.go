//go:build verif

package expr

import (
	"errors"
	"math/big"

	"github.com/shopspring/decimal"
	"github.com/verily-src/fhirpath-go/fhirpath/system"
	"github.com/verily-src/fhirpath-go/internal/verifrt"
)

// C08 / C01: a Decimal product is exact - coefficient times coefficient, exponent plus exponent - for every pair of
// exponents within the range of decimals read from text (+-100000); a product whose exponent would leave that range
// is refused like integer overflow (the operator yields empty), so that no chain of multiplications reaches an
// exponent that makes the next operation compute a power of ten of unbounded size (or panic beyond 32 bits).
func VerifHarness_C08_ProductExponentIsBounded() {
	ca, cb := int64(verifrt.NondetIntRange("ca", -999, 999)), int64(verifrt.NondetIntRange("cb", -999, 999))
	ea, eb := int32(verifrt.NondetIntRange("ea", -100000, 100000)), int32(verifrt.NondetIntRange("eb", -100000, 100000))
	a, b := system.Decimal(decimal.New(ca, ea)), system.Decimal(decimal.New(cb, eb))
	got, err := EvaluateMul(a, b)
	sum := int64(ea) + int64(eb)
	if sum > 100000 || sum < -100000 {
		verifrt.Assert(errors.Is(err, system.ErrIntOverflow), "product-outside-the-exponent-range-is-refused")
		verifrt.Reach("refused")
		return
	}
	d, isDec := got.(system.Decimal)
	ok := err == nil && isDec
	if ok {
		p := decimal.Decimal(d)
		ok = int64(p.Exponent()) == sum && p.Coefficient().Cmp(big.NewInt(ca*cb)) == 0
	}
	verifrt.Assert(ok, "product-is-exact")
	verifrt.Reach("end")
}
