//go:build verif

package expr

import (
	"github.com/verily-src/fhirpath-go/fhirpath/system"
	"github.com/verily-src/fhirpath-go/internal/verifrt"
)

// C03: navigation reads a resource without writing to it: with the whole Patient (every nested message and list)
// protected, evaluating dotted paths, choice elements and indexers stores nothing into it, and the elements returned are
// the resource's own nodes (checked by C02's harnesses on the same shapes).
func VerifHarness_C03_NavigationDoesNotMutate() {
	p := verifPatient()
	verifrt.Protect("input resource", p)
	in := system.Collection{p}
	ctx := &Context{ExternalConstants: map[string]any{}}
	paths := [][]string{{"name"}, {"name", "given"}, {"name", "family", "value"}, {"active"}, {"deceased"}, {"contact", "name"}, {"nosuch"}}
	fields := paths[verifrt.Choose("path", len(paths))]
	verifPath(fields...).Evaluate(ctx, in)
	(&ExpressionSequence{Expressions: []Expression{verifPath("name", "given"), &IndexExpression{Index: verifLit(system.Integer(verifrt.NondetIntRange("k", -1, 3)))}}}).Evaluate(ctx, in)
	verifrt.CheckFrames()
	verifrt.Reach("end")
}
