//go:build verif

package expr

import (
	dtpb "github.com/google/fhir/go/proto/google/fhir/proto/r4/core/datatypes_go_proto"
	"github.com/verily-src/fhirpath-go/fhirpath/system"
	"github.com/verily-src/fhirpath-go/internal/verifrt"
)

// verifStubExpr is an expression whose results are drawn in advance: the k-th call returns r[k].
type verifStubExpr struct {
	r     []system.Collection
	err   []error
	calls int
}

func (s *verifStubExpr) Evaluate(*Context, system.Collection) (system.Collection, error) {
	k := s.calls
	s.calls++
	if k >= len(s.r) {
		return system.Collection{}, nil
	}
	if s.err != nil && s.err[k] != nil {
		return nil, s.err[k]
	}
	return s.r[k], nil
}

// verifLit wraps a system value as a literal expression.
func verifLit(v system.Any) Expression { return &LiteralExpression{Literal: v} }

// verifConst is an expression returning a fixed collection.
func verifConst(c system.Collection) Expression {
	return &verifStubExpr{r: []system.Collection{c, c, c, c}}
}

// verifItem draws one collection item of a form chosen by the solver:
// 0 Integer, 1 Boolean, 2 String(<=2 bytes), 3 FHIR boolean element, 4 FHIR integer element, 5 FHIR string element.
func verifItem(label string, forms int) any {
	switch verifrt.Choose(label+".form", forms) {
	case 0:
		return system.Integer(verifrt.NondetInt32(label + ".i"))
	case 1:
		return system.Boolean(verifrt.NondetBool(label + ".b"))
	case 2:
		return system.String(verifrt.NondetString(label+".s", 2))
	case 3:
		return &dtpb.Boolean{Value: verifrt.NondetBool(label + ".fb")}
	case 4:
		return &dtpb.Integer{Value: verifrt.NondetInt32(label + ".fi")}
	default:
		return &dtpb.String{Value: verifrt.NondetString(label+".fs", 2)}
	}
}

// verifBoolOperand draws an operand form for Boolean operators and returns the expression together
// with its three-valued meaning: 0 false, 1 true, 2 empty, 3 error (multi-item).
func verifBoolOperand(label string, ctx *Context) (Expression, int) {
	switch verifrt.Choose(label+".form", 8) {
	case 0: // literal
		v := verifrt.NondetBool(label + ".lit")
		return verifLit(system.Boolean(v)), b2i(v)
	case 1: // empty literal
		return &LiteralExpression{}, 2
	case 2: // FHIR boolean element from a stub
		v := verifrt.NondetBool(label + ".fhir")
		return verifConst(system.Collection{&dtpb.Boolean{Value: v}}), b2i(v)
	case 3: // computed System Boolean (function result)
		v := verifrt.NondetBool(label + ".comp")
		return verifConst(system.Collection{system.Boolean(v)}), b2i(v)
	case 4: // environment variable holding a Boolean, or an empty collection
		if verifrt.NondetBool(label + ".envEmpty") {
			ctx.ExternalConstants[label] = system.Collection{}
			return &ExternalConstantExpression{Identifier: label}, 2
		}
		v := verifrt.NondetBool(label + ".env")
		ctx.ExternalConstants[label] = system.Boolean(v)
		return &ExternalConstantExpression{Identifier: label}, b2i(v)
	case 5: // non-Boolean singleton counts as true
		switch verifrt.Choose(label+".nb", 3) {
		case 0:
			return verifLit(system.Integer(verifrt.NondetInt32(label + ".nbi"))), 1
		case 1:
			return verifLit(system.String(verifrt.NondetString(label+".nbs", 2))), 1
		default:
			return verifConst(system.Collection{&dtpb.HumanName{Family: &dtpb.String{Value: verifrt.NondetString(label+".fam", 1)}}}), 1
		}
	case 6: // empty from a stub
		return verifConst(system.Collection{}), 2
	default: // multi-item: an error, never silently the first item
		n := 2 + verifrt.Choose(label+".extra", 2)
		c := system.Collection{}
		for i := 0; i < n; i++ {
			c = append(c, system.Boolean(verifrt.NondetBool(label+".mi")))
		}
		return verifConst(c), 3
	}
}

func b2i(b bool) int {
	if b {
		return 1
	}
	return 0
}

// verifTV decodes a result collection into the three-valued domain; 4 = anything else.
func verifTV(c system.Collection) int {
	if len(c) == 0 {
		return 2
	}
	if len(c) == 1 {
		if b, ok := c[0].(system.Boolean); ok {
			return b2i(bool(b))
		}
	}
	return 4
}

var verifArithOps = []func(system.Any, system.Any) (system.Any, error){EvaluateAdd, EvaluateSub, EvaluateMul, EvaluateDiv, EvaluateFloorDiv, EvaluateMod}

var verifOps3 = []Operator{And, Or, Xor, Implies}
