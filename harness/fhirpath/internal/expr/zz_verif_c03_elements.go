//go:build verif

package expr

import (
	"github.com/verily-src/fhirpath-go/fhirpath/system"
	"github.com/verily-src/fhirpath-go/internal/verifrt"
)

// C03: operators read FHIR primitive and Quantity elements (in every shape a resource may carry them) without
// writing to them: converting an element to its System value must not normalise the element itself.
func VerifHarness_C03_ElementOperandsAreNotMutated() {
	verifrt.IgnorePanics()
	el := verifFhirElement("el")
	verifrt.Protect("input element", el)
	l := Expression(&verifAlways{system.Collection{el}})
	var r Expression
	switch verifrt.Choose("r.form", verifrt.Bound(2, 4)) {
	case 0:
		r = verifLit(system.Integer(verifrt.NondetIntRange("r.i", -1, 2)))
	case 2:
		r = verifLit(system.String(verifrt.NondetString("r.s", 1)))
	case 1:
		r = verifLit(system.MustParseDateTime("2024-01-01T00:00:00Z"))
	default:
		q, err := system.ParseQuantity("1", []string{"mg", "day"}[verifrt.Choose("r.qu", 2)])
		verifrt.Assume(err == nil)
		r = verifLit(q)
	}
	if verifrt.NondetBool("swap") {
		l, r = r, l
	}
	var e Expression
	switch verifrt.Choose("node", 5) {
	case 0:
		e = &EqualityExpression{Left: l, Right: r, Not: verifrt.NondetBool("neq")}
	case 1:
		e = &ComparisonExpression{Left: l, Right: r, Op: []Operator{Lt, Gte}[verifrt.Choose("cmp", 2)]}
	case 2:
		e = &ArithmeticExpression{Left: l, Right: r, Op: verifArithOps[verifrt.Choose("arith", 2)]}
	case 3:
		e = &ConcatExpression{Left: l, Right: r}
	default:
		e = &NegationExpression{Expr: l}
	}
	e.Evaluate(&Context{ExternalConstants: map[string]any{}}, system.Collection{})
	verifrt.CheckFrames()
	verifrt.Reach("end")
}
