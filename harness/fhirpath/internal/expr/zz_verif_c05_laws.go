//go:build verif

package expr

import (
	dtpb "github.com/google/fhir/go/proto/google/fhir/proto/r4/core/datatypes_go_proto"
	"github.com/shopspring/decimal"
	"github.com/verily-src/fhirpath-go/fhirpath/system"
	"github.com/verily-src/fhirpath-go/internal/verifrt"
)

// verifFixed evaluates to the same collection every time it is asked.
type verifFixed struct{ c system.Collection }

func (f *verifFixed) Evaluate(*Context, system.Collection) (system.Collection, error) { return f.c, nil }

// verifCmpOperand draws an operand for the comparison operators the way an evaluation meets them: literals, FHIR
// elements (which go through system.From) and the empty collection. kind groups the forms that are mutually comparable.
func verifCmpOperand(label string) Expression {
	switch verifrt.Choose(label+".form", 9) {
	case 0:
		return &LiteralExpression{}
	case 1:
		return verifLit(system.Integer(verifrt.NondetIntRange(label+".i", -3, 3)))
	case 2:
		return verifLit(system.Decimal(decimal.New(int64(verifrt.NondetIntRange(label+".dm", -30, 30)), -1)))
	case 3:
		return &verifFixed{system.Collection{&dtpb.Integer{Value: int32(verifrt.NondetIntRange(label+".fi", -3, 3))}}}
	case 4:
		return verifLit(system.String(verifrt.NondetString(label+".s", 1)))
	case 5:
		return &verifFixed{system.Collection{&dtpb.Code{Value: verifrt.NondetString(label+".code", 1)}}}
	case 6: // a Time literal or a FHIR time element of second precision
		sec := verifrt.NondetIntRange(label+".sec", 0, 86399)
		if verifrt.NondetBool(label + ".timeElement") {
			return &verifFixed{system.Collection{&dtpb.Time{ValueUs: int64(sec) * 1000000, Precision: dtpb.Time_SECOND}}}
		}
		return verifLit(system.TimeFromProto(&dtpb.Time{ValueUs: int64(sec) * 1000000, Precision: dtpb.Time_SECOND}))
	case 7:
		q, err := system.ParseQuantity([]string{"1", "2.5"}[verifrt.Choose(label+".qv", 2)], []string{"mg", "kg"}[verifrt.Choose(label+".qu", 2)])
		verifrt.Assume(err == nil)
		return verifLit(q)
	default:
		return verifLit(system.Boolean(verifrt.NondetBool(label + ".b")))
	}
}

// verifTri evaluates an operator node and decodes the result: 0 false, 1 true, 2 empty, 3 error.
func verifTri(e Expression) int {
	r, err := e.Evaluate(&Context{ExternalConstants: map[string]any{}}, system.Collection{})
	if err != nil {
		return 3
	}
	if len(r) == 0 {
		return 2
	}
	if b, ok := r[0].(system.Boolean); ok && len(r) == 1 {
		return b2i(bool(b))
	}
	return 3
}

// C05: the laws of the six operators through the operator nodes Compile builds (one evaluation of each), for operands
// of every form: symmetry of '=', '!=' as its negation, '<' against '>', '<=' as not '>', trichotomy, and empty operands.
func VerifHarness_C05_OperatorLaws() {
	a, b := verifCmpOperand("a"), verifCmpOperand("b")
	eq := verifTri(&EqualityExpression{Left: a, Right: b})
	eqR := verifTri(&EqualityExpression{Left: b, Right: a})
	ne := verifTri(&EqualityExpression{Left: a, Right: b, Not: true})
	lt := verifTri(&ComparisonExpression{Left: a, Right: b, Op: Lt})
	gt := verifTri(&ComparisonExpression{Left: a, Right: b, Op: Gt})
	le := verifTri(&ComparisonExpression{Left: a, Right: b, Op: Lte})
	ge := verifTri(&ComparisonExpression{Left: a, Right: b, Op: Gte})
	ltR := verifTri(&ComparisonExpression{Left: b, Right: a, Op: Lt})
	gtR := verifTri(&ComparisonExpression{Left: b, Right: a, Op: Gt})
	_, aEmpty := a.(*LiteralExpression)
	_, bEmpty := b.(*LiteralExpression)
	aEmpty = aEmpty && a.(*LiteralExpression).Literal == nil
	bEmpty = bEmpty && b.(*LiteralExpression).Literal == nil
	if aEmpty || bEmpty {
		verifrt.Assert(eq == 2 && ne == 2 && lt == 2 && gt == 2 && le == 2 && ge == 2, "empty-operand-gives-empty")
		verifrt.Reach("empty")
		return
	}
	verifrt.Assert(eq == eqR, "equality-is-symmetric")
	verifrt.Assert((eq == 2 && ne == 2) || (eq <= 1 && ne == 1-eq) || (eq == 3 && ne == 3), "not-equal-is-the-negation-of-equal-or-both-empty")
	verifrt.Assert(lt == gtR && gt == ltR, "less-is-greater-with-the-operands-swapped")
	if lt <= 1 && gt <= 1 {
		verifrt.Assert(le == 1-gt && ge == 1-lt, "less-or-equal-is-not-greater")
		n := lt + gt
		if eq == 1 {
			n++
		}
		verifrt.Assert(n <= 1, "at-most-one-of-less-equal-greater")
		if eq == 0 {
			verifrt.Assert(lt+gt == 1, "unequal-comparable-values-are-ordered")
		}
	} else {
		verifrt.Assert(lt == gt && le == lt && ge == lt, "undefined-or-erroneous-ordering-is-so-for-all-four-operators")
	}
	verifrt.Reach("end")
}

// C05: two FHIR elements are compared by the values they denote, not by their protos: decimals of different scale,
// one instant written in two zones, quantities that differ in display unit or scale only. Values are drawn so that the
// expected verdict is known: numbers by exact value, instants by UTC instant, quantities by value within one code.
func VerifHarness_C05_ElementPairs() {
	var a, b any
	want := 2 // 0 false, 1 true, 2 empty
	switch verifrt.Choose("kind", 5) {
	case 3: // an instant element against a dateTime element of second precision: the same or another instant
		sa := int64(verifrt.NondetIntRange("sa", 1704067200, 1704067203))
		sb := int64(verifrt.NondetIntRange("sb", 1704067200, 1704067203))
		a = &dtpb.Instant{ValueUs: sa * 1000000, Timezone: []string{"Z", "-05:00"}[verifrt.Choose("a.zone", 2)], Precision: dtpb.Instant_SECOND}
		b = &dtpb.DateTime{ValueUs: sb * 1000000, Timezone: []string{"Z", "+02:00"}[verifrt.Choose("b.zone", 2)], Precision: dtpb.DateTime_SECOND}
		want = b2i(sa == sb)
	case 4: // a date element (read in some default zone) against a day-precision dateTime element (read in another)
		da, db := verifrt.NondetIntRange("da", 0, 2), verifrt.NondetIntRange("db", 0, 2)
		offA := []int64{0, 18000, -28800}[verifrt.Choose("a.off", 3)]
		offB := []int64{0, 18000, -28800}[verifrt.Choose("b.off", 3)]
		zone := map[int64]string{0: "Z", 18000: "+05:00", -28800: "-08:00"}
		// local midnight of 2024-01-(1+d) in the element's zone
		a = &dtpb.Date{ValueUs: (1704067200 + int64(da)*86400 - offA) * 1000000, Timezone: zone[offA], Precision: dtpb.Date_DAY}
		b = &dtpb.DateTime{ValueUs: (1704067200 + int64(db)*86400 - offB) * 1000000, Timezone: zone[offB], Precision: dtpb.DateTime_DAY}
		want = b2i(da == db)
	case 0: // decimal elements: value v written with 1 or 2 decimal places
		va, vb := verifrt.NondetIntRange("va", -2, 2), verifrt.NondetIntRange("vb", -2, 2)
		texts := func(v int, two bool) string {
			s := []string{"-2", "-1", "0", "1", "2"}[v+2]
			if two {
				return s + ".00"
			}
			return s + ".0"
		}
		a = &dtpb.Decimal{Value: texts(va, verifrt.NondetBool("a.two"))}
		b = &dtpb.Decimal{Value: texts(vb, verifrt.NondetBool("b.two"))}
		want = b2i(va == vb)
	case 1: // dateTime elements of second precision: the same or another instant, in UTC or at +02:00
		sa := int64(verifrt.NondetIntRange("sa", 1704067200, 1704067203))
		sb := int64(verifrt.NondetIntRange("sb", 1704067200, 1704067203))
		zone := func(two bool) string {
			if two {
				return "+02:00"
			}
			return "Z"
		}
		a = &dtpb.DateTime{ValueUs: sa * 1000000, Timezone: zone(verifrt.NondetBool("a.plus2")), Precision: dtpb.DateTime_SECOND}
		b = &dtpb.DateTime{ValueUs: sb * 1000000, Timezone: zone(verifrt.NondetBool("b.plus2")), Precision: dtpb.DateTime_SECOND}
		want = b2i(sa == sb)
	default: // Quantity elements: value, code and a display unit that does not take part
		va, vb := verifrt.NondetIntRange("qa", 1, 2), verifrt.NondetIntRange("qb", 1, 2)
		code := func(kg bool) string {
			if kg {
				return "kg"
			}
			return "mg"
		}
		ca, cb := code(verifrt.NondetBool("a.kg")), code(verifrt.NondetBool("b.kg"))
		a = &dtpb.Quantity{Value: &dtpb.Decimal{Value: []string{"1.0", "2.0"}[va-1]}, Code: &dtpb.Code{Value: ca}, Unit: &dtpb.String{Value: "display a"}}
		b = &dtpb.Quantity{Value: &dtpb.Decimal{Value: []string{"1.00", "2.00"}[vb-1]}, Code: &dtpb.Code{Value: cb}, Unit: &dtpb.String{Value: "display b"}}
		if ca == cb {
			want = b2i(va == vb)
		}
	}
	ea, eb := &verifFixed{system.Collection{a}}, &verifFixed{system.Collection{b}}
	eq := verifTri(&EqualityExpression{Left: ea, Right: eb})
	eqR := verifTri(&EqualityExpression{Left: eb, Right: ea})
	ne := verifTri(&EqualityExpression{Left: ea, Right: eb, Not: true})
	verifrt.Assert(eq == want && eqR == want, "elements-compare-by-the-values-they-denote")
	if want == 2 {
		verifrt.Assert(ne == 2, "not-equal-is-empty-when-equal-is")
	} else {
		verifrt.Assert(ne == 1-want, "not-equal-is-the-negation-of-equal")
	}
	verifrt.Reach("end")
}
