//go:build verif

package expr

import (
	dtpb "github.com/google/fhir/go/proto/google/fhir/proto/r4/core/datatypes_go_proto"
	bcrpb "github.com/google/fhir/go/proto/google/fhir/proto/r4/core/resources/bundle_and_contained_resource_go_proto"
	ppb "github.com/google/fhir/go/proto/google/fhir/proto/r4/core/resources/patient_go_proto"
	"github.com/verily-src/fhirpath-go/fhirpath/internal/reflection"
	"github.com/verily-src/fhirpath-go/fhirpath/system"
	"github.com/verily-src/fhirpath-go/internal/verifrt"
)

// verifAncestors: the R4 / System hierarchy for the types the harness builds (declared type first).
var verifAncestors = map[string][]string{
	"System.Integer": {"System.Integer", "System.Any"}, "System.String": {"System.String", "System.Any"}, "System.Boolean": {"System.Boolean", "System.Any"},
	"FHIR.string": {"FHIR.string", "FHIR.Element"}, "FHIR.code": {"FHIR.code", "FHIR.string", "FHIR.Element"},
	"FHIR.positiveInt": {"FHIR.positiveInt", "FHIR.integer", "FHIR.Element"}, "FHIR.canonical": {"FHIR.canonical", "FHIR.uri", "FHIR.Element"},
	"FHIR.Patient": {"FHIR.Patient", "FHIR.DomainResource", "FHIR.Resource"},
	"FHIR.Age": {"FHIR.Age", "FHIR.Quantity", "FHIR.Element"}, "FHIR.Duration": {"FHIR.Duration", "FHIR.Quantity", "FHIR.Element"},
	"FHIR.SimpleQuantity": {"FHIR.SimpleQuantity", "FHIR.Quantity", "FHIR.Element"}, "FHIR.Quantity": {"FHIR.Quantity", "FHIR.Element"},
	"FHIR.Reference": {"FHIR.Reference", "FHIR.Element"}, "FHIR.Extension": {"FHIR.Extension", "FHIR.Element"},
	"FHIR.HumanName": {"FHIR.HumanName", "FHIR.Element"}, "FHIR.boolean": {"FHIR.boolean", "FHIR.Element"},
}

var verifIsTargets = [][2]string{{"System", "Integer"}, {"System", "String"}, {"System", "Boolean"}, {"System", "Any"},
	{"FHIR", "string"}, {"FHIR", "code"}, {"FHIR", "integer"}, {"FHIR", "positiveInt"}, {"FHIR", "uri"}, {"FHIR", "canonical"},
	{"FHIR", "boolean"}, {"FHIR", "Element"}, {"FHIR", "HumanName"}, {"FHIR", "Patient"}, {"FHIR", "Resource"}, {"FHIR", "DomainResource"}, {"FHIR", "BackboneElement"},
	{"FHIR", "Reference"}, {"FHIR", "Extension"}, {"FHIR", "Quantity"}, {"FHIR", "Age"}, {"FHIR", "Duration"}, {"FHIR", "SimpleQuantity"}}

// C12: `x is T` is true exactly when x's declared type is T or derives from T; `x as T` is x itself when
// `x is T` and empty otherwise; the singleton rule applies.
func VerifHarness_C12_IsAs() {
	var x any
	var decl string
	var unwrapped any // what `as` yields, when that is not x itself
	switch verifrt.Choose("kind", 17) {
	case 9:
		x, decl = &ppb.Patient{Id: &dtpb.Id{Value: "p"}}, "FHIR.Patient"
	case 10:
		// a resource in the wrapper it has as a bundle entry or contained resource is that resource
		p := &ppb.Patient{Id: &dtpb.Id{Value: "p"}}
		x, decl, unwrapped = &bcrpb.ContainedResource{OneofResource: &bcrpb.ContainedResource_Patient{Patient: p}}, "FHIR.Patient", p
	case 11:
		// a data type that keeps one of its own elements in a oneof is not a wrapper of that element: a Reference
		// with a literal reference (uri, fragment or typed id) is a Reference
		r := &dtpb.Reference{Display: &dtpb.String{Value: "d"}}
		switch verifrt.Choose("reference", 4) {
		case 0:
			r.Reference = &dtpb.Reference_Uri{Uri: &dtpb.String{Value: "http://h/Patient/1"}}
		case 1:
			r.Reference = &dtpb.Reference_Fragment{Fragment: &dtpb.String{Value: "c1"}}
		case 2:
			r.Reference = &dtpb.Reference_PatientId{PatientId: &dtpb.ReferenceId{Value: "1"}}
		}
		x, decl = r, "FHIR.Reference"
	case 12:
		// likewise an Extension whose value[x] is set is an Extension (its value is reached by .value)
		x, decl = &dtpb.Extension{Url: &dtpb.Uri{Value: "u"}, Value: &dtpb.Extension_ValueX{Choice: &dtpb.Extension_ValueX_StringValue{StringValue: &dtpb.String{Value: "v"}}}}, "FHIR.Extension"
	case 13:
		// the specialisations of Quantity are types of their own (and Quantities)
		x, decl = &dtpb.Age{Value: &dtpb.Decimal{Value: "5"}, Code: &dtpb.Code{Value: "a"}}, "FHIR.Age"
	case 14:
		x, decl = &dtpb.Duration{Value: &dtpb.Decimal{Value: "5"}, Code: &dtpb.Code{Value: "h"}}, "FHIR.Duration"
	case 15:
		x, decl = &dtpb.SimpleQuantity{Value: &dtpb.Decimal{Value: "5"}}, "FHIR.SimpleQuantity"
	case 16:
		x, decl = &dtpb.Quantity{Value: &dtpb.Decimal{Value: "5"}}, "FHIR.Quantity"
	case 0:
		x, decl = system.Integer(verifrt.NondetInt32("i")), "System.Integer"
	case 1:
		x, decl = system.String(verifrt.NondetString("s", 2)), "System.String"
	case 2:
		x, decl = system.Boolean(verifrt.NondetBool("b")), "System.Boolean"
	case 3:
		x, decl = &dtpb.String{Value: verifrt.NondetString("fs", 2)}, "FHIR.string"
	case 4:
		x, decl = &dtpb.Code{Value: verifrt.NondetString("fc", 2)}, "FHIR.code"
	case 5:
		x, decl = &dtpb.PositiveInt{Value: verifrt.NondetUint32("pi")}, "FHIR.positiveInt"
	case 6:
		x, decl = &dtpb.Canonical{Value: verifrt.NondetString("can", 2)}, "FHIR.canonical"
	case 7:
		x, decl = &dtpb.Boolean{Value: verifrt.NondetBool("fb")}, "FHIR.boolean"
	default:
		x, decl = &dtpb.HumanName{Family: &dtpb.String{Value: verifrt.NondetString("fam", 1)}}, "FHIR.HumanName"
	}
	tgt := verifIsTargets[verifrt.Choose("target", len(verifIsTargets))]
	ts := reflection.MustCreateTypeSpecifier(tgt[0], tgt[1])
	want := false
	for _, a := range verifAncestors[decl] {
		if a == tgt[0]+"."+tgt[1] {
			want = true
		}
	}
	ctx := &Context{ExternalConstants: map[string]any{}}
	is, err := (&IsExpression{Expr: verifConst(system.Collection{x}), Type: ts}).Evaluate(ctx, system.Collection{})
	verifrt.Assert(err == nil && verifTV(is) == b2i(want), "is-agrees-with-the-type-hierarchy")
	as, err2 := (&AsExpression{Expr: verifConst(system.Collection{x}), Type: ts}).Evaluate(ctx, system.Collection{})
	if want {
		if unwrapped != nil {
			verifrt.Assert(err2 == nil && len(as) == 1 && as[0] == unwrapped, "as-returns-the-wrapped-resource")
		} else {
			verifrt.Assert(err2 == nil && len(as) == 1 && as[0] == x, "as-returns-the-value-itself")
		}
	} else {
		verifrt.Assert(err2 == nil && len(as) == 0, "as-of-another-type-is-empty")
	}
	// singleton rule
	_, e3 := (&IsExpression{Expr: verifConst(system.Collection{x, x}), Type: ts}).Evaluate(ctx, system.Collection{})
	_, e4 := (&AsExpression{Expr: verifConst(system.Collection{x, x}), Type: ts}).Evaluate(ctx, system.Collection{})
	verifrt.Assert(e3 != nil && e4 != nil, "is-as-on-multi-item-is-an-error")
	verifrt.Reach("end")
}
