//go:build verif

package expr

import (
	"math"
	"math/big"

	dtpb "github.com/google/fhir/go/proto/google/fhir/proto/r4/core/datatypes_go_proto"
	"github.com/shopspring/decimal"
	"github.com/verily-src/fhirpath-go/fhirpath/system"
	"github.com/verily-src/fhirpath-go/internal/verifrt"
)


func verifPow10(k int) *big.Int {
	return new(big.Int).Exp(big.NewInt(10), big.NewInt(int64(k)), nil)
}

// verifDecIs: d == num * 10^-scale exactly.
func verifDecIs(d decimal.Decimal, num *big.Int, scale int) bool {
	e := int(d.Exponent())
	c := d.Coefficient()
	if e+scale >= 0 {
		return new(big.Int).Mul(c, verifPow10(e+scale)).Cmp(num) == 0
	}
	return new(big.Int).Mul(num, verifPow10(-e-scale)).Cmp(c) == 0
}

// verifDecNear: |d - num/den| <= 10^-16  (num/den exact rational, den != 0).
func verifDecNear(d decimal.Decimal, num, den *big.Int) bool {
	// d = c*10^e ;  |c*10^e*den - num| * 10^16 <= |den|
	e := int(d.Exponent())
	c := d.Coefficient()
	lhs := new(big.Int)
	scale := new(big.Int)
	if e >= 0 {
		lhs.Mul(new(big.Int).Mul(c, verifPow10(e)), den)
		lhs.Sub(lhs, num)
		scale.SetInt64(1)
	} else {
		lhs.Mul(c, den)
		lhs.Sub(lhs, new(big.Int).Mul(num, verifPow10(-e)))
		scale = verifPow10(-e)
	}
	lhs.Abs(lhs)
	lhs.Mul(lhs, verifPow10(16))
	rhs := new(big.Int).Mul(new(big.Int).Abs(den), scale)
	return lhs.Cmp(rhs) <= 0
}

// C08-A2: every arithmetic operator on Integer operands through ArithmeticExpression.Evaluate (full width).
func VerifHarness_C08_ArithInteger() {
	a, b := verifrt.NondetInt32("a"), verifrt.NondetInt32("b")
	op := verifrt.Choose("op", 6)
	e := &ArithmeticExpression{Left: verifLit(system.Integer(a)), Right: verifLit(system.Integer(b)), Op: verifArithOps[op]}
	res, err := e.Evaluate(&Context{}, system.Collection{})
	var wide int64
	defined := true
	switch op {
	case 0:
		wide = int64(a) + int64(b)
	case 1:
		wide = int64(a) - int64(b)
	case 2:
		wide = int64(a) * int64(b)
	case 3:
		defined = b != 0
	case 4:
		defined = b != 0
		if defined {
			wide = int64(a) / int64(b) // truncation toward zero
		}
	default:
		defined = b != 0
		if defined {
			wide = int64(a) % int64(b)
		}
	}
	if !defined || wide < math.MinInt32 || wide > math.MaxInt32 {
		verifrt.Assert(err == nil && len(res) == 0, "integer-overflow-or-division-by-zero-gives-empty")
	} else if op == 3 {
		ok := err == nil && len(res) == 1
		if ok {
			d, isDec := res[0].(system.Decimal)
			ok = isDec && verifDecNear(decimal.Decimal(d), big.NewInt(int64(a)), big.NewInt(int64(b)))
		}
		verifrt.Assert(ok, "integer-division-correct-to-16-places")
	} else {
		ok := err == nil && len(res) == 1
		if ok {
			r, isInt := res[0].(system.Integer)
			ok = isInt && int64(r) == wide
		}
		verifrt.Assert(ok, "integer-operator-exact")
	}
	verifrt.Reach("end")
}

// C08-A3: unary minus on an Integer: exact, or empty when -a is not representable.
func VerifHarness_C08_NegateInteger() {
	a := verifrt.NondetInt32("a")
	res, err := (&NegationExpression{Expr: verifLit(system.Integer(a))}).Evaluate(&Context{}, system.Collection{})
	if a == math.MinInt32 {
		verifrt.Assert(err == nil && len(res) == 0, "negation-overflow-gives-empty")
	} else {
		ok := err == nil && len(res) == 1
		if ok {
			r, isInt := res[0].(system.Integer)
			ok = isInt && int64(r) == -int64(a)
		}
		verifrt.Assert(ok, "negation-exact")
	}
	verifrt.Reach("end")
}

// C08-A4: FHIR integer / positiveInt / unsignedInt elements promote to the same number (or are not a value).
func VerifHarness_C08_FhirIntegerOperands() {
	b := verifrt.NondetInt32("b")
	var left any
	var lv int64
	switch verifrt.Choose("kind", 3) {
	case 0:
		v := verifrt.NondetInt32("fi")
		left, lv = &dtpb.Integer{Value: v}, int64(v)
	case 1:
		v := verifrt.NondetUint32("pi")
		left, lv = &dtpb.PositiveInt{Value: v}, int64(v)
	default:
		v := verifrt.NondetUint32("ui")
		left, lv = &dtpb.UnsignedInt{Value: v}, int64(v)
	}
	e := &ArithmeticExpression{Left: verifConst(system.Collection{left}), Right: verifLit(system.Integer(b)), Op: EvaluateAdd}
	res, err := e.Evaluate(&Context{}, system.Collection{})
	wide := lv + int64(b)
	if lv > math.MaxInt32 || wide < math.MinInt32 || wide > math.MaxInt32 {
		// not representable as an Integer: empty or an error, never a number
		verifrt.Assert(err != nil || len(res) == 0, "unrepresentable-fhir-integer-is-not-a-number")
	} else {
		ok := err == nil && len(res) == 1
		if ok {
			r, isInt := res[0].(system.Integer)
			ok = isInt && int64(r) == wide
		}
		verifrt.Assert(ok, "fhir-integer-operand-exact")
	}
	verifrt.Reach("end")
}

// C08-A5: Decimal operators (and Integer promoted to Decimal) against exact rational arithmetic.
// a = na*10^-ka, b = nb*10^-kb with integer mantissas na, nb (bounded per operator so that the
// non-linear queries stay decidable; the bounds are part of the claim) and scales from a small set.
func verifArithDecimal(op int, scales []int, digits int) {
	ka := scales[verifrt.Choose("ka", len(scales))]
	kb := scales[verifrt.Choose("kb", len(scales))]
	da := verifrt.NondetDecimal("na", ka)
	db := verifrt.NondetDecimal("nb", kb)
	na, nb := da.Coefficient(), db.Coefficient()
	lim := verifPow10(digits)
	verifrt.Assume(new(big.Int).Abs(na).Cmp(lim) < 0 && new(big.Int).Abs(nb).Cmp(lim) < 0)
	var left Expression = verifLit(system.Decimal(da))
	if ka == 0 && verifrt.NondetBool("leftIsInteger") {
		i := verifrt.NondetInt32("li")
		left = verifLit(system.Integer(i))
		na = big.NewInt(int64(i))
	}
	e := &ArithmeticExpression{Left: left, Right: verifLit(system.Decimal(db)), Op: verifArithOps[op]}
	res, err := e.Evaluate(&Context{}, system.Collection{})
	K := ka
	if kb > K {
		K = kb
	}
	A := new(big.Int).Mul(na, verifPow10(K-ka)) // a = A*10^-K
	B := new(big.Int).Mul(nb, verifPow10(K-kb)) // b = B*10^-K
	single := err == nil && len(res) == 1
	switch op {
	case 0, 1:
		want := new(big.Int).Add(A, B)
		if op == 1 {
			want = new(big.Int).Sub(A, B)
		}
		ok := single
		if ok {
			d, isDec := res[0].(system.Decimal)
			ok = isDec && verifDecIs(decimal.Decimal(d), want, K)
		}
		verifrt.Assert(ok, "decimal-add-sub-exact")
	case 2:
		ok := single
		if ok {
			d, isDec := res[0].(system.Decimal)
			ok = isDec && verifDecIs(decimal.Decimal(d), new(big.Int).Mul(na, nb), ka+kb)
		}
		verifrt.Assert(ok, "decimal-mul-exact")
	case 3:
		if B.Sign() == 0 {
			verifrt.Assert(err == nil && len(res) == 0, "decimal-division-by-zero-gives-empty")
		} else {
			ok := single
			if ok {
				d, isDec := res[0].(system.Decimal)
				ok = isDec && verifDecNear(decimal.Decimal(d), A, B)
			}
			verifrt.Assert(ok, "decimal-division-correct-to-16-places")
		}
	case 4:
		if B.Sign() == 0 {
			verifrt.Assert(err == nil && len(res) == 0, "decimal-div-by-zero-gives-empty")
		} else {
			q := new(big.Int).Quo(A, B) // truncation toward zero of the exact quotient
			if !q.IsInt64() || q.Int64() < math.MinInt32 || q.Int64() > math.MaxInt32 {
				verifrt.Assert(err == nil && len(res) == 0, "decimal-div-out-of-range-gives-empty")
			} else {
				ok := single
				if ok {
					r, isInt := res[0].(system.Integer)
					ok = isInt && int64(r) == q.Int64()
				}
				verifrt.Assert(ok, "decimal-div-truncates-exact-quotient")
			}
		}
	default:
		if B.Sign() == 0 {
			verifrt.Assert(err == nil && len(res) == 0, "decimal-mod-by-zero-gives-empty")
		} else {
			r := new(big.Int).Rem(A, B) // a mod b = a - b*trunc(a/b), scaled by 10^-K
			ok := single
			if ok {
				d, isDec := res[0].(system.Decimal)
				ok = isDec && verifDecIs(decimal.Decimal(d), r, K)
			}
			verifrt.Assert(ok, "decimal-mod-is-matching-remainder")
		}
	}
	verifrt.Reach("end")
}

func VerifHarness_C08_DecimalAdd() { verifArithDecimal(0, []int{0, 1, 2, 16}, 30) }
func VerifHarness_C08_DecimalSub() { verifArithDecimal(1, []int{0, 1, 2, 16}, 30) }
func VerifHarness_C08_DecimalMul() { verifArithDecimal(2, []int{0, 1, 2, 16}, 30) }
func VerifHarness_C08_DecimalQuo() {
	verifArithDecimal(3, []int{0, 1}, verifrt.Bound(3, 9))
}
func VerifHarness_C08_DecimalDiv() {
	if verifrt.Thorough() {
		verifArithDecimal(4, []int{0, 2, 16}, 18)
	} else {
		verifArithDecimal(4, []int{0, 2}, 10)
	}
}
func VerifHarness_C08_DecimalMod() {
	verifArithDecimal(5, []int{0, 2}, verifrt.Bound(6, 12))
}
