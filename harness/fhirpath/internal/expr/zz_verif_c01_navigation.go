//go:build verif

package expr

import (
	dtpb "github.com/google/fhir/go/proto/google/fhir/proto/r4/core/datatypes_go_proto"
	"github.com/verily-src/fhirpath-go/fhirpath/system"
	"github.com/verily-src/fhirpath-go/internal/verifrt"
)

// C01: a field step returns a collection or an error for every kind of input item (a resource of symbolic shape, a
// datatype, a primitive element, a time element, a reference in every form, a System value) and every name shape (an
// element of the type, `value`, `reference`, a proto-only field, an unknown name, a snake_case name), strict or permissive.
func VerifHarness_C01_NavigationTotal() {
	var item any
	switch verifrt.Choose("item", 7) {
	case 0:
		item = verifPatient()
	case 1:
		item = &dtpb.HumanName{Given: []*dtpb.String{{Value: "g"}}}
	case 2:
		item = &dtpb.String{Value: verifrt.NondetString("s", 1)}
	case 3:
		item = &dtpb.DateTime{ValueUs: 1709164800000000, Timezone: []string{"Z", "x"}[verifrt.Choose("tz", 2)], Precision: dtpb.DateTime_Precision(verifrt.Choose("precision", 7))}
	case 4:
		ref := &dtpb.Reference{}
		switch verifrt.Choose("ref", 4) {
		case 1:
			ref.Reference = &dtpb.Reference_Uri{}
		case 2:
			ref.Reference = &dtpb.Reference_Fragment{Fragment: &dtpb.String{Value: "f"}}
		case 3:
			ref.Reference = &dtpb.Reference_PatientId{PatientId: &dtpb.ReferenceId{Value: "1"}}
		}
		item = ref
	case 5:
		item = system.Integer(verifrt.NondetInt32("i"))
	default:
		item = &dtpb.Quantity{}
	}
	name := []string{"name", "given", "value", "reference", "valueUs", "nosuch", "birth_date", "deceased", "id", "extension"}[verifrt.Choose("field", 10)]
	e := &FieldExpression{FieldName: name, Permissive: verifrt.NondetBool("permissive")}
	res, err := e.Evaluate(&Context{ExternalConstants: map[string]any{}}, system.Collection{item})
	verifrt.Assert(err != nil || res != nil, "returns-a-collection-or-an-error")
	verifrt.Reach("end")
}
