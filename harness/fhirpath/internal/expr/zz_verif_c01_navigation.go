//go:build verif

package expr

import (
	dtpb "github.com/google/fhir/go/proto/google/fhir/proto/r4/core/datatypes_go_proto"
	orgpb "github.com/google/fhir/go/proto/google/fhir/proto/r4/core/resources/organization_go_proto"
	ppb "github.com/google/fhir/go/proto/google/fhir/proto/r4/core/resources/patient_go_proto"
	perpb "github.com/google/fhir/go/proto/google/fhir/proto/r4/core/resources/person_go_proto"
	"github.com/verily-src/fhirpath-go/fhirpath/internal/reflection"
	"github.com/verily-src/fhirpath-go/fhirpath/system"
	"github.com/verily-src/fhirpath-go/internal/verifrt"
)

// C01: a field step returns a collection or an error for every kind of input item (a resource of symbolic shape, a
// datatype, a primitive element, a time element, a reference in every form, a System value) and every name shape (an
// element of the type, `value`, `reference`, a proto-only field, an unknown name, a snake_case name), strict or permissive.
func VerifHarness_C01_NavigationTotal() {
	var item any
	switch verifrt.Choose("item", 7) {
	case 0:
		item = verifPatient()
	case 1:
		item = &dtpb.HumanName{Given: []*dtpb.String{{Value: "g"}}}
	case 2:
		item = &dtpb.String{Value: verifrt.NondetString("s", 1)}
	case 3:
		item = &dtpb.DateTime{ValueUs: 1709164800000000, Timezone: []string{"Z", "x"}[verifrt.Choose("tz", 2)], Precision: dtpb.DateTime_Precision(verifrt.Choose("precision", 7))}
	case 4:
		ref := &dtpb.Reference{}
		switch verifrt.Choose("ref", 4) {
		case 1:
			ref.Reference = &dtpb.Reference_Uri{}
		case 2:
			ref.Reference = &dtpb.Reference_Fragment{Fragment: &dtpb.String{Value: "f"}}
		case 3:
			ref.Reference = &dtpb.Reference_PatientId{PatientId: &dtpb.ReferenceId{Value: "1"}}
		}
		item = ref
	case 5:
		item = system.Integer(verifrt.NondetInt32("i"))
	default:
		item = &dtpb.Quantity{}
	}
	name := []string{"name", "given", "value", "reference", "valueUs", "nosuch", "birth_date", "deceased", "id", "extension"}[verifrt.Choose("field", 10)]
	e := &FieldExpression{FieldName: name, Permissive: verifrt.NondetBool("permissive")}
	res, err := e.Evaluate(&Context{ExternalConstants: map[string]any{}}, system.Collection{item})
	verifrt.Assert(err != nil || res != nil, "returns-a-collection-or-an-error")
	verifrt.Reach("end")
}

// C01: one field step over a collection whose items are of different types - several input resources, the entries of
// a bundle - returns a collection or an error: in particular for backbone components that share their short name
// across resources (Patient.Contact / Organization.Contact, Patient.Link / Person.Link), where each item has to be
// read with the descriptor of its own type.
func VerifHarness_C01_HeterogeneousNavigation() {
	pc := &ppb.Patient_Contact{Name: &dtpb.HumanName{Family: &dtpb.String{Value: "p"}}}
	oc := &orgpb.Organization_Contact{Name: &dtpb.HumanName{Family: &dtpb.String{Value: "o"}}}
	pl := &ppb.Patient_Link{}
	rl := &perpb.Person_Link{}
	pool := []any{pc, oc, pl, rl, &dtpb.HumanName{}, &ppb.Patient{Contact: []*ppb.Patient_Contact{pc}}, &orgpb.Organization{Contact: []*orgpb.Organization_Contact{oc}}}
	n := 2 + verifrt.Choose("n", 2)
	var in system.Collection
	for i := 0; i < n; i++ {
		in = append(in, pool[verifrt.Choose("item", len(pool))])
	}
	name := []string{"name", "contact", "other", "target", "family"}[verifrt.Choose("field", 5)]
	e := &FieldExpression{FieldName: name, Permissive: verifrt.NondetBool("permissive")}
	res, err := e.Evaluate(&Context{ExternalConstants: map[string]any{}}, in)
	verifrt.Assert(err != nil || res != nil, "returns-a-collection-or-an-error")
	verifrt.Reach("end")
}

// C01: a custom function may put anything into the collection it returns (it is passed through unchanged): nil, a Go
// int, a Go string. Every operator over such items returns a collection or an error - the items are no System values
// and no FHIR elements, and nothing may assume they are.
func VerifHarness_C01_ForeignItemsAreTotal() {
	foreign := func(label string) Expression {
		switch verifrt.Choose(label, 5) {
		case 0:
			return &verifAlways{system.Collection{nil}}
		case 1:
			return &verifAlways{system.Collection{42}}
		case 2:
			return &verifAlways{system.Collection{"go string"}}
		case 3:
			return &verifAlways{system.Collection{nil, 42}}
		default:
			return verifLit(system.Integer(1))
		}
	}
	l, r := foreign("l"), foreign("r")
	var e Expression
	switch verifrt.Choose("node", 9) {
	case 0:
		e = &EqualityExpression{Left: l, Right: r, Not: verifrt.NondetBool("not")}
	case 1:
		e = &ComparisonExpression{Left: l, Right: r, Op: Lt}
	case 2:
		e = &ArithmeticExpression{Left: l, Right: r, Op: EvaluateAdd}
	case 3:
		e = &BooleanExpression{Left: l, Right: r, Op: And}
	case 4:
		e = &ConcatExpression{Left: l, Right: r}
	case 5:
		e = &IsExpression{Expr: l, Type: reflection.MustCreateTypeSpecifier("System", "Integer")}
	case 6:
		e = &AsExpression{Expr: l, Type: reflection.MustCreateTypeSpecifier("FHIR", "Patient")}
	case 7:
		e = &ExpressionSequence{Expressions: []Expression{l, &IndexExpression{Index: r}}}
	default:
		e = &ExpressionSequence{Expressions: []Expression{l, &FieldExpression{FieldName: "id"}}}
	}
	res, err := e.Evaluate(&Context{ExternalConstants: map[string]any{}}, system.Collection{})
	verifrt.Assert(err != nil || res != nil, "returns-a-collection-or-an-error")
	verifrt.Reach("end")
}
