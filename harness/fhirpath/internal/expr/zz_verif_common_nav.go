//go:build verif

package expr

import (
	dtpb "github.com/google/fhir/go/proto/google/fhir/proto/r4/core/datatypes_go_proto"
	ppb "github.com/google/fhir/go/proto/google/fhir/proto/r4/core/resources/patient_go_proto"
	"github.com/verily-src/fhirpath-go/fhirpath/system"
	"github.com/verily-src/fhirpath-go/internal/verifrt"
)

// verifPatient builds a Patient of symbolic shape (the text content is fixed: navigation does not look at it): 0..2 names with 0..2 given names each, optional family, active,
// deceased[x] (boolean or dateTime or absent), multipleBirth[x], 0..2 contacts with nested names.
func verifPatient() *ppb.Patient {
	p := &ppb.Patient{}
	nn := verifrt.Choose("names", 3)
	for i := 0; i < nn; i++ {
		n := &dtpb.HumanName{}
		if verifrt.NondetBool("hasFamily") {
			n.Family = &dtpb.String{Value: "f"}
		}
		ng := verifrt.Choose("givens", 3)
		for j := 0; j < ng; j++ {
			n.Given = append(n.Given, &dtpb.String{Value: "g"})
		}
		p.Name = append(p.Name, n)
	}
	if verifrt.NondetBool("hasActive") {
		p.Active = &dtpb.Boolean{Value: verifrt.NondetBool("active")}
	}
	switch verifrt.Choose("deceased", 3) {
	case 1:
		p.Deceased = &ppb.Patient_DeceasedX{Choice: &ppb.Patient_DeceasedX_Boolean{Boolean: &dtpb.Boolean{Value: verifrt.NondetBool("deceasedBoolean")}}}
	case 2:
		p.Deceased = &ppb.Patient_DeceasedX{Choice: &ppb.Patient_DeceasedX_DateTime{DateTime: &dtpb.DateTime{ValueUs: 1577836800000000, Precision: dtpb.DateTime_DAY}}}
	}
	return p
}

func verifPath(fields ...string) Expression {
	seq := []Expression{&TypeExpression{Type: "Patient"}}
	for _, f := range fields {
		seq = append(seq, &FieldExpression{FieldName: f})
	}
	return &ExpressionSequence{Expressions: seq}
}

func verifPathOf(typ string, fields ...string) Expression {
	seq := []Expression{&TypeExpression{Type: typ}}
	for _, f := range fields {
		seq = append(seq, &FieldExpression{FieldName: f})
	}
	return &ExpressionSequence{Expressions: seq}
}

func verifSameNodes(got system.Collection, err error, want []any) bool {
	ok := err == nil && len(got) == len(want)
	for i := 0; ok && i < len(want); i++ {
		ok = got[i] == want[i]
	}
	return ok
}

