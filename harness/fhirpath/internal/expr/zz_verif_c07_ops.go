//go:build verif

package expr

import (
	"github.com/verily-src/fhirpath-go/fhirpath/internal/reflection"
	"github.com/verily-src/fhirpath-go/fhirpath/system"
	"github.com/verily-src/fhirpath-go/internal/verifrt"
)

// verifEmptyOperand supplies the empty collection three ways.
func verifEmptyOperand(ctx *Context) Expression {
	switch verifrt.Choose("emptyHow", 3) {
	case 0:
		return &LiteralExpression{}
	case 1:
		return verifConst(system.Collection{})
	default:
		ctx.ExternalConstants["e"] = system.Collection{}
		return &ExternalConstantExpression{Identifier: "e"}
	}
}

// verifOtherOperand: the other operand ranges over empty and singletons of several types.
func verifOtherOperand(label string) Expression {
	switch verifrt.Choose(label+".form", 6) {
	case 5: // several items: the empty operand still decides (a repeating element against an absent one)
		return verifConst(system.Collection{system.Integer(verifrt.NondetIntRange(label+".m0", 0, 2)), system.Integer(verifrt.NondetIntRange(label+".m1", 0, 2))})
	case 0:
		return &LiteralExpression{}
	case 1:
		return verifLit(system.Integer(verifrt.NondetInt32(label + ".i")))
	case 2:
		return verifLit(system.String(verifrt.NondetString(label+".s", 1)))
	case 3:
		return verifLit(system.Boolean(verifrt.NondetBool(label + ".b")))
	default:
		return verifConst(system.Collection{verifItem(label, 6)})
	}
}

// C07: every binary operator yields empty (no error, no value) when either operand is empty; `&` alone treats empty as ''.
func VerifHarness_C07_BinaryOperators() {
	ctx := &Context{ExternalConstants: map[string]any{}}
	empty := verifEmptyOperand(ctx)
	other := verifOtherOperand("o")
	l, r := empty, other
	if verifrt.NondetBool("emptyOnRight") {
		l, r = other, empty
	}
	var e Expression
	switch verifrt.Choose("op", 4) {
	case 0:
		e = &ArithmeticExpression{Left: l, Right: r, Op: verifArithOps[verifrt.Choose("arith", 6)]}
	case 1:
		e = &ComparisonExpression{Left: l, Right: r, Op: []Operator{Lt, Gt, Lte, Gte}[verifrt.Choose("cmp", 4)]}
	case 2:
		e = &EqualityExpression{Left: l, Right: r, Not: verifrt.NondetBool("neq")}
	default:
		// & : empty is the empty string
		s := verifrt.NondetString("s", 2)
		ce := &ConcatExpression{Left: empty, Right: verifLit(system.String(s))}
		if verifrt.NondetBool("concatEmptyOnRight") {
			ce = &ConcatExpression{Left: verifLit(system.String(s)), Right: empty}
		}
		res, err := ce.Evaluate(ctx, system.Collection{})
		ok := err == nil && len(res) == 1
		if ok {
			got, isStr := res[0].(system.String)
			ok = isStr && string(got) == s
		}
		verifrt.Assert(ok, "concat-treats-empty-as-empty-string")
		verifrt.Reach("concat")
		return
	}
	res, err := e.Evaluate(ctx, system.Collection{})
	verifrt.Assert(err == nil && len(res) == 0, "binary-operator-propagates-empty")
	verifrt.Reach("end")
}

// C07: is / as / unary minus / indexer yield empty on an empty operand.
func VerifHarness_C07_UnaryAndTypeOperators() {
	ctx := &Context{ExternalConstants: map[string]any{}}
	empty := verifEmptyOperand(ctx)
	ts := reflection.MustCreateTypeSpecifier("System", []string{"Integer", "String", "Boolean", "Any"}[verifrt.Choose("type", 4)])
	var e Expression
	input := system.Collection{}
	switch verifrt.Choose("op", 5) {
	case 0:
		e = &IsExpression{Expr: empty, Type: ts}
	case 1:
		e = &AsExpression{Expr: empty, Type: ts}
	case 2:
		e = &NegationExpression{Expr: empty}
	case 3: // c[{}] on a non-empty collection
		input = system.Collection{system.Integer(1), system.Integer(2)}
		e = &IndexExpression{Index: empty}
	default: // {}[i]
		e = &IndexExpression{Index: verifLit(system.Integer(verifrt.NondetInt32("i")))}
	}
	res, err := e.Evaluate(ctx, input)
	verifrt.Assert(err == nil && len(res) == 0, "unary-or-type-operator-propagates-empty")
	verifrt.Reach("end")
}
