//go:build verif

package parser

import (
	"errors"
	"sort"

	"github.com/verily-src/fhirpath-go/fhirpath/internal/expr"
	"github.com/verily-src/fhirpath-go/fhirpath/internal/funcs"
	"github.com/verily-src/fhirpath-go/fhirpath/internal/funcs/impl"
	"github.com/verily-src/fhirpath-go/fhirpath/internal/grammar"
	"github.com/verily-src/fhirpath-go/fhirpath/system"
	"github.com/verily-src/fhirpath-go/internal/verifrt"
)

// C16: the compiler accepts a call exactly when the name is in the function table and the number of arguments lies
// within that function's bounds - for every entry of the table, every argument count from none (written with empty
// parentheses, which the parser gives no parameter-list node) to one more than the maximum, as a function call or a
// method call, wherever in an expression the call stands. An accepted call never fails with an arity complaint.
func VerifHarness_C16_CompilerAcceptsExactlyWithinBounds() {
	table := funcs.Clone()
	var names []string
	for k := range table {
		names = append(names, k)
	}
	sort.Strings(names)
	names = append(names, "noSuchFunction")
	name := names[verifrt.Choose("name", len(names))]
	fn, known := table[name]
	max := 1
	if known {
		max = fn.MaxArity + 1
	}
	if max > 6 {
		max = 6
	}
	n := verifrt.Choose("args", max+1)
	res := verifCompileCall(table, name, n, 0, verifrt.NondetBool("dotted"))
	want := known && n >= fn.MinArity && n <= fn.MaxArity
	verifrt.Assert((res.Error == nil && res.Result != nil) == want, "call-accepted-iff-name-known-and-argument-count-within-bounds")
	if want {
		_, err := res.Result.Evaluate(&expr.Context{}, system.Collection{})
		verifrt.Assert(!errors.Is(err, impl.ErrWrongArity), "accepted-call-never-fails-with-an-arity-complaint")
	}
	verifrt.Reach("end")
}

// C16: ... wherever the call stands: as the right operand of an operator, inside an indexer, as an argument of another
// call, in parentheses - each of which is compiled by a visitor of its own - and whether the name is written plainly
// or as a delimited identifier.
func VerifHarness_C16_AcceptanceDoesNotDependOnThePlace() {
	table := funcs.Clone()
	name := []string{"count", "where", "iif", "substring", "noSuchFunction"}[verifrt.Choose("name", 5)]
	fn, known := table[name]
	n := verifrt.Choose("args", 5)
	written := name
	if verifrt.NondetBool("delimited") {
		written = "`" + name + "`" // `count`() is count()
	}
	res := verifCompileCall(table, written, n, verifrt.Choose("place", 6), verifrt.NondetBool("dotted"))
	want := known && n >= fn.MinArity && n <= fn.MaxArity
	verifrt.Assert((res.Error == nil && res.Result != nil) == want, "call-accepted-iff-name-known-and-argument-count-within-bounds")
	verifrt.Reach("end")
}

// C16: syntax the library does not implement is refused by the compiler with an error - never compiled to a node that
// computes something else: the union operator, membership, equivalence, $index and $total.
func VerifHarness_C16_UnimplementedSyntaxIsRefused() {
	one, two := verifNumberLit("1"), verifNumberLit("2")
	var tree grammar.IExpressionContext
	switch verifrt.Choose("syntax", 7) {
	case 0:
		e := new(grammar.UnionExpressionContext)
		grammar.InitEmptyExpressionContext(&e.ExpressionContext)
		verifAdd(e, one, verifTok("|"), two)
		tree = e
	case 1, 2:
		e := new(grammar.MembershipExpressionContext)
		grammar.InitEmptyExpressionContext(&e.ExpressionContext)
		verifAdd(e, one, verifTok([]string{"in", "contains"}[verifrt.Choose("membership", 2)]), two)
		tree = e
	case 3:
		tree = verifBinary("~", one, two)
	case 4:
		tree = verifBinary("!~", one, two)
	case 5:
		inv := new(grammar.IndexInvocationContext)
		grammar.InitEmptyInvocationContext(&inv.InvocationContext)
		verifAdd(inv, verifTok("$index"))
		term := new(grammar.InvocationTermContext)
		grammar.InitEmptyTermContext(&term.TermContext)
		verifAdd(term, inv)
		tree = verifTermExpr(term)
	default:
		inv := new(grammar.TotalInvocationContext)
		grammar.InitEmptyInvocationContext(&inv.InvocationContext)
		verifAdd(inv, verifTok("$total"))
		term := new(grammar.InvocationTermContext)
		grammar.InitEmptyTermContext(&term.TermContext)
		verifAdd(term, inv)
		tree = verifTermExpr(term)
	}
	// ... wherever it stands
	res := (&FHIRPathVisitor{Functions: funcs.Clone()}).Visit(verifPlaced(tree, verifrt.Choose("place", 6))).(*VisitResult)
	verifrt.Assert(res.Error != nil && res.Result == nil, "unimplemented-syntax-is-a-compile-error")
	verifrt.Reach("end")
}
