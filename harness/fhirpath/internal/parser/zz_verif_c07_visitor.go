//go:build verif

package parser

import (
	"github.com/verily-src/fhirpath-go/fhirpath/internal/expr"
	"github.com/verily-src/fhirpath-go/fhirpath/internal/grammar"
	"github.com/verily-src/fhirpath-go/fhirpath/system"
	"github.com/verily-src/fhirpath-go/internal/verifrt"
)

func verifEmptyOperand(label string) grammar.IExpressionContext {
	if verifrt.NondetBool(label) {
		return verifParen(verifNullLit())
	}
	return verifNullLit()
}

// C07: a binary operator whose one operand is empty compiles to something that yields empty - whatever the other operand
// is *written as* (a number, a string literal, a Boolean, something in parentheses); `&` alone reads empty as ”.
func VerifHarness_C07_CompiledOperatorsPropagateEmpty() {
	ops := []string{"+", "-", "*", "/", "div", "mod", "=", "!=", "<", "<=", ">", ">=", "&"}
	op := ops[verifrt.Choose("op", len(ops))]
	var other grammar.IExpressionContext
	otherKind := verifrt.Choose("other", 4)
	switch otherKind {
	case 0:
		other = verifNumberLit("7")
	case 1:
		other = verifStringLit("'abc'")
	case 2:
		other = verifNumberLit("2.5")
	default:
		other = verifEmptyOperand("otherParen")
	}
	var tree grammar.IExpressionContext
	if verifrt.NondetBool("emptyOnTheLeft") {
		tree = verifBinary(op, verifEmptyOperand("paren"), other)
	} else {
		tree = verifBinary(op, other, verifEmptyOperand("paren"))
	}
	res := (&FHIRPathVisitor{}).Visit(tree).(*VisitResult)
	verifrt.Assert(res.Error == nil && res.Result != nil, "operator-with-an-empty-operand-compiles")
	out, err := res.Result.Evaluate(&expr.Context{}, system.Collection{})
	if op == "&" {
		if otherKind == 1 {
			verifrt.Assert(err == nil && len(out) == 1 && out[0] == system.String("abc"), "concat-reads-empty-as-the-empty-string")
		} else if otherKind == 3 {
			verifrt.Assert(err == nil && len(out) == 1 && out[0] == system.String(""), "concat-reads-empty-as-the-empty-string")
		}
	} else {
		verifrt.Assert(err == nil && len(out) == 0, "compiled-operator-with-an-empty-operand-is-empty")
	}
	verifrt.Reach("end")
}

// C07: unary plus and minus of an empty operand are empty, of a number that number (negated for minus).
func VerifHarness_C07_CompiledPolarity() {
	sign := []string{"+", "-"}[verifrt.Choose("sign", 2)]
	switch verifrt.Choose("operand", 4) {
	case 0, 1:
		res := (&FHIRPathVisitor{}).Visit(verifPolarity(sign, verifEmptyOperand("paren"))).(*VisitResult)
		verifrt.Assert(res.Error == nil && res.Result != nil, "polarity-of-empty-compiles")
		out, err := res.Result.Evaluate(&expr.Context{}, system.Collection{})
		verifrt.Assert(err == nil && len(out) == 0, "polarity-of-empty-is-empty")
	case 2:
		res := (&FHIRPathVisitor{}).Visit(verifPolarity(sign, verifNumberLit("7"))).(*VisitResult)
		verifrt.Assert(res.Error == nil && res.Result != nil, "polarity-of-a-number-compiles")
		out, err := res.Result.Evaluate(&expr.Context{}, system.Collection{})
		want := system.Integer(7)
		if sign == "-" {
			want = -7
		}
		verifrt.Assert(err == nil && len(out) == 1 && out[0] == want, "polarity-of-a-number")
	default:
		// nested: -(+{}) and +(-{})
		inner := verifPolarity([]string{"+", "-"}[verifrt.Choose("inner", 2)], verifNullLit())
		res := (&FHIRPathVisitor{}).Visit(verifPolarity(sign, verifParen(inner))).(*VisitResult)
		verifrt.Assert(res.Error == nil && res.Result != nil, "polarity-of-empty-compiles")
		out, err := res.Result.Evaluate(&expr.Context{}, system.Collection{})
		verifrt.Assert(err == nil && len(out) == 0, "polarity-of-empty-is-empty")
	}
	verifrt.Reach("end")
}
