//go:build verif

package parser

import (
	"github.com/verily-src/fhirpath-go/fhirpath/internal/expr"
	"github.com/verily-src/fhirpath-go/fhirpath/internal/grammar"
	"github.com/verily-src/fhirpath-go/fhirpath/system"
	"github.com/verily-src/fhirpath-go/internal/verifrt"
)

// C12: unqualified type names resolve FHIR first, then System, case-sensitively; unknown type names or namespaces are
// rejected by Compile. The operand is a literal (a System value): `7 is Integer` is true, `7 is integer` is false
// (FHIR.integer), `5 'mg' is Quantity` is false (FHIR.Quantity) and `is System.Quantity` true.
func VerifHarness_C12_CompiledTypeSpecifiers() {
	specs := []struct {
		names  []string
		accept bool
		is     string // the type the specifier denotes
	}{
		{[]string{"Integer"}, true, "System.Integer"}, {[]string{"integer"}, true, "FHIR.integer"},
		{[]string{"System", "Integer"}, true, "System.Integer"}, {[]string{"FHIR", "integer"}, true, "FHIR.integer"},
		{[]string{"String"}, true, "System.String"}, {[]string{"string"}, true, "FHIR.string"},
		{[]string{"Boolean"}, true, "System.Boolean"}, {[]string{"boolean"}, true, "FHIR.boolean"},
		{[]string{"Quantity"}, true, "FHIR.Quantity"}, {[]string{"System", "Quantity"}, true, "System.Quantity"},
		{[]string{"Decimal"}, true, "System.Decimal"}, {[]string{"Any"}, true, "System.Any"},
		{[]string{"`Integer`"}, true, "System.Integer"}, {[]string{"System", "`Integer`"}, true, "System.Integer"},
		{[]string{"Foo"}, false, ""}, {[]string{"INTEGER"}, false, ""}, {[]string{"Foo", "Integer"}, false, ""},
		{[]string{"System", "Foo"}, false, ""}, {[]string{"system", "Integer"}, false, ""}, {[]string{"FHIR", "Integer"}, false, ""},
		{[]string{"System", "integer"}, false, ""}, {[]string{"FHIR", "System", "Integer"}, false, ""},
	}
	spec := specs[verifrt.Choose("specifier", len(specs))]
	operands := []struct {
		tree grammar.IExpressionContext
		typ  string
		val  any
	}{
		{verifNumberLit("7"), "System.Integer", system.Integer(7)}, {verifStringLit("'a'"), "System.String", system.String("a")},
		{verifBoolLit("true"), "System.Boolean", system.Boolean(true)}, {verifNumberLit("2.5"), "System.Decimal", nil},
		{verifQuantityLit("5", "'mg'"), "System.Quantity", nil},
	}
	operand := operands[verifrt.Choose("operand", len(operands))]
	as := verifrt.NondetBool("as")
	op := "is"
	if as {
		op = "as"
	}
	res := (&FHIRPathVisitor{}).Visit(verifTypeExpr(operand.tree, op, spec.names...)).(*VisitResult)
	verifrt.Assert((res.Error == nil && res.Result != nil) == spec.accept, "type-specifier-accepted-iff-it-names-a-type")
	if spec.accept {
		out, err := res.Result.Evaluate(&expr.Context{}, system.Collection{})
		want := spec.is == operand.typ || spec.is == "System.Any"
		if as {
			verifrt.Assert(err == nil && (len(out) == 1) == want, "as-yields-the-operand-iff-it-is-of-the-type")
			if want && operand.val != nil {
				verifrt.Assert(len(out) == 1 && out[0] == operand.val, "as-yields-the-operand-itself")
			}
		} else {
			verifrt.Assert(err == nil && len(out) == 1 && out[0] == system.Boolean(want), "is-resolves-unqualified-names-FHIR-first-then-System")
		}
	}
	verifrt.Reach("end")
}
