//go:build verif

package parser

import (
	"github.com/shopspring/decimal"
	"github.com/verily-src/fhirpath-go/fhirpath/internal/expr"
	"github.com/verily-src/fhirpath-go/fhirpath/internal/grammar"
	"github.com/verily-src/fhirpath-go/fhirpath/system"
	"github.com/verily-src/fhirpath-go/internal/verifrt"
)

// C15: a valid literal of each kind compiles to an expression that evaluates to the value it denotes: the compiler
// hands each token to the parser of its own type, a quoted unit loses its quotes and nothing else, a calendar keyword
// stays the unit it is. Literals from a menu (the parsers themselves are the subject of the C15 harnesses of package
// system, over symbolic text).
func VerifHarness_C15_CompiledLiterals() {
	cases := []struct {
		tree grammar.IExpressionContext
		want any
	}{
		{verifNumberLit("7"), system.Integer(7)},
		{verifNumberLit("0"), system.Integer(0)},
		{verifNumberLit("2.50"), system.MustParseDecimal("2.50")},
		{verifStringLit("'a\\'b'"), system.String("a'b")},
		{verifStringLit("''"), system.String("")},
		{verifBoolLit("false"), system.Boolean(false)},
		{verifDateLit("@2020-02"), system.MustParseDate("2020-02")},
		{verifDateTimeLit("@2020-02-29T10:30:00+05:30"), system.MustParseDateTime("2020-02-29T10:30:00+05:30")},
		{verifDateTimeLit("@2020T"), system.MustParseDateTime("2020T")},
		{verifTimeLit("@T10:30"), system.MustParseTime("10:30")},
		{verifQuantityLit("5", "'mg'"), system.MustParseQuantity("5", "mg")},
		{verifQuantityLit("2.5", "'kg/m2'"), system.MustParseQuantity("2.5", "kg/m2")},
		{verifQuantityLit("3", "days"), system.MustParseQuantity("3", "days")},
		{verifQuantityLit("1", "year"), system.MustParseQuantity("1", "year")},
	}
	k := cases[verifrt.Choose("literal", len(cases))]
	res := (&FHIRPathVisitor{}).Visit(k.tree).(*VisitResult)
	verifrt.Assert(res.Error == nil && res.Result != nil, "valid-literal-compiles")
	out, err := res.Result.Evaluate(&expr.Context{}, system.Collection{})
	ok := err == nil && len(out) == 1
	if ok {
		got, isValue := out[0].(system.Any)
		ok = isValue
		if ok {
			want := k.want.(system.Any)
			if te, hasTryEqual := got.(interface {
				TryEqual(system.Any) (bool, bool)
			}); hasTryEqual {
				eq, has := te.TryEqual(want)
				ok = has && eq
			} else if d, isDecimal := got.(system.Decimal); isDecimal {
				w, wantDecimal := want.(system.Decimal)
				ok = wantDecimal && decimal.Decimal(d).Cmp(decimal.Decimal(w)) == 0 && decimal.Decimal(d).Exponent() == decimal.Decimal(w).Exponent()
			} else {
				ok = got == want
			}
			ok = ok && got.Name() == want.Name()
		}
	}
	verifrt.Assert(ok, "literal-evaluates-to-the-value-it-denotes")
	if q, isQ := k.want.(system.Quantity); isQ && ok {
		verifrt.Assert(out[0].(system.Quantity).String() == q.String(), "quantity-literal-keeps-its-unit-exactly")
	}
	verifrt.Reach("end")
}
