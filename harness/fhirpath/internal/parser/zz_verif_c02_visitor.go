//go:build verif

package parser

import (
	"errors"

	dtpb "github.com/google/fhir/go/proto/google/fhir/proto/r4/core/datatypes_go_proto"
	ppb "github.com/google/fhir/go/proto/google/fhir/proto/r4/core/resources/patient_go_proto"
	"github.com/verily-src/fhirpath-go/fhirpath/internal/expr"
	"github.com/verily-src/fhirpath-go/fhirpath/internal/grammar"
	"github.com/verily-src/fhirpath-go/fhirpath/system"
	"github.com/verily-src/fhirpath-go/internal/verifrt"
)

// C02: a dotted path compiles to navigation: a leading type name that matches the resource is the resource, one that
// does not match yields empty, a path without a type name starts at the resource, repeated elements are flattened in
// order, a name written as a delimited identifier is that name, and a name that is no element fails with
// ErrInvalidField. The path is written as a parse tree; the patient has two names with symbolic given names.
func VerifHarness_C02_CompiledPaths() {
	g := func(label string) *dtpb.String { return &dtpb.String{Value: verifrt.NondetString(label, 1)} }
	a, b, c := g("g0"), g("g1"), g("g2")
	id := &dtpb.Id{Value: "p1"}
	patient := &ppb.Patient{Id: id, Name: []*dtpb.HumanName{{Given: []*dtpb.String{a, b}}, {Given: []*dtpb.String{c}}}}
	path := func(root string, names ...string) grammar.IExpressionContext {
		var e grammar.IExpressionContext
		if root != "" {
			e = verifMember(root)
		}
		for _, n := range names {
			if e == nil {
				e = verifMember(n)
			} else {
				e = verifDotMember(e, n)
			}
		}
		return e
	}
	var tree grammar.IExpressionContext
	var want system.Collection
	invalid := false
	switch verifrt.Choose("path", 9) {
	case 0:
		tree, want = path("Patient", "id"), system.Collection{id}
	case 1:
		tree, want = path("", "id"), system.Collection{id}
	case 2:
		tree, want = path("Observation", "id"), system.Collection{}
	case 3:
		tree, want = path("Patient", "name", "given"), system.Collection{a, b, c}
	case 4:
		tree, want = path("", "name", "given"), system.Collection{a, b, c}
	case 5:
		tree, want = path("Patient", "`name`", "`given`"), system.Collection{a, b, c}
	case 6:
		tree, invalid = path("Patient", "nickname"), true
	case 7:
		tree, invalid = path("Patient", "name", "Given"), true // names are case-sensitive
	default:
		tree, want = path("Patient"), system.Collection{patient}
	}
	res := (&FHIRPathVisitor{}).Visit(tree).(*VisitResult)
	verifrt.Assert(res.Error == nil && res.Result != nil, "path-compiles")
	out, err := res.Result.Evaluate(&expr.Context{}, system.Collection{patient})
	if invalid {
		verifrt.Assert(errors.Is(err, expr.ErrInvalidField), "name-that-is-no-element-fails-with-ErrInvalidField")
	} else {
		ok := err == nil && len(out) == len(want)
		for i := 0; ok && i < len(want); i++ {
			ok = out[i] == want[i] // the input's own nodes, in document order
		}
		verifrt.Assert(ok, "compiled-path-yields-exactly-the-elements-at-that-path")
	}
	verifrt.Reach("end")
}
