//go:build verif

package parser

import (
	"github.com/verily-src/fhirpath-go/fhirpath/internal/funcs"
	"github.com/verily-src/fhirpath-go/fhirpath/system"
	"github.com/verily-src/fhirpath-go/internal/verifrt"
)

// C17: a custom function with a fixed parameter list is rejected at Compile for a wrong argument count - none (empty
// parentheses) included - and accepted for the right one, wherever the call stands.
func VerifHarness_C17_CustomFunctionArgumentCountIsCheckedAtCompile() {
	table := funcs.Clone()
	params := verifrt.Choose("params", 3)
	var fn any
	switch params {
	case 0:
		fn = func(in system.Collection) (system.Collection, error) { return in, nil }
	case 1:
		fn = func(in system.Collection, a system.Integer) (system.Collection, error) { return in, nil }
	default:
		fn = func(in system.Collection, a, b system.Integer) (system.Collection, error) { return in, nil }
	}
	verifrt.Assert(table.Register("probe", fn) == nil, "well-formed-function-is-registered")
	n := verifrt.Choose("args", 4)
	res := verifCompileCall(table, "probe", n, verifrt.Choose("place", 6), verifrt.NondetBool("dotted"))
	verifrt.Assert((res.Error == nil && res.Result != nil) == (n == params), "custom-function-call-accepted-iff-argument-count-matches")
	verifrt.Reach("end")
}
