//go:build verif

package parser

import (
	"github.com/verily-src/fhirpath-go/fhirpath/internal/expr"
	"github.com/verily-src/fhirpath-go/fhirpath/internal/funcs"
	"github.com/verily-src/fhirpath-go/fhirpath/system"
	"github.com/verily-src/fhirpath-go/internal/verifrt"
)

// C17: a custom function with a fixed parameter list is rejected at Compile for a wrong argument count - none (empty
// parentheses) included - and accepted for the right one, wherever the call stands.
func VerifHarness_C17_CustomFunctionArgumentCountIsCheckedAtCompile() {
	table := funcs.Clone()
	params := verifrt.Choose("params", 3)
	var fn any
	switch params {
	case 0:
		fn = func(in system.Collection) (system.Collection, error) { return in, nil }
	case 1:
		fn = func(in system.Collection, a system.Integer) (system.Collection, error) { return in, nil }
	default:
		fn = func(in system.Collection, a, b system.Integer) (system.Collection, error) { return in, nil }
	}
	verifrt.Assert(table.Register("probe", fn) == nil, "well-formed-function-is-registered")
	n := verifrt.Choose("args", 4)
	res := verifCompileCall(table, "probe", n, verifrt.Choose("place", 6), verifrt.NondetBool("dotted"))
	verifrt.Assert((res.Error == nil && res.Result != nil) == (n == params), "custom-function-call-accepted-iff-argument-count-matches")
	verifrt.Reach("end")
}

// C17: a variable is known by its name however the name is written - %x, %`x`, %'x', with the escapes of a string
// literal decoded in both delimited forms - and evaluates to exactly the supplied value; a name that was not supplied
// compiles and is an evaluation error.
func VerifHarness_C17_CompiledVariableNames() {
	supplied := system.Integer(verifrt.NondetInt32("value"))
	ctx := &expr.Context{ExternalConstants: map[string]any{"x": supplied, "a b": system.String("spaced")}}
	forms := []struct {
		written string
		name    string
	}{{"x", "x"}, {"`x`", "x"}, {"'x'", "x"}, {"'\\u0078'", "x"}, {"'a b'", "a b"}, {"`a b`", "a b"}, {"`\\u0078`", "x"}, {"`a\\u0020b`", "a b"}, {"y", "y"}, {"`y`", "y"}, {"'X'", "X"}}
	f := forms[verifrt.Choose("form", len(forms))]
	res := (&FHIRPathVisitor{}).Visit(verifExternalConstant(f.written)).(*VisitResult)
	verifrt.Assert(res.Error == nil && res.Result != nil, "variable-reference-compiles")
	out, err := res.Result.Evaluate(ctx, system.Collection{})
	switch f.name {
	case "x":
		verifrt.Assert(err == nil && len(out) == 1 && out[0] == supplied, "variable-evaluates-to-the-supplied-value")
	case "a b":
		verifrt.Assert(err == nil && len(out) == 1 && out[0] == system.String("spaced"), "variable-evaluates-to-the-supplied-value")
	default:
		verifrt.Assert(err != nil, "unknown-variable-is-an-evaluation-error")
	}
	verifrt.Reach("end")
}
