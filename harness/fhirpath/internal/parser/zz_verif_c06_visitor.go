//go:build verif

package parser

import (
	"github.com/verily-src/fhirpath-go/fhirpath/internal/expr"
	"github.com/verily-src/fhirpath-go/fhirpath/internal/grammar"
	"github.com/verily-src/fhirpath-go/fhirpath/system"
	"github.com/verily-src/fhirpath-go/internal/verifrt"
)

// operand forms as they can be written: their tree and the collection they denote
func verifOperand(label string) (grammar.IExpressionContext, system.Collection) {
	switch verifrt.Choose(label, 7) {
	case 0:
		return verifBoolLit("true"), system.Collection{system.Boolean(true)}
	case 1:
		return verifBoolLit("false"), system.Collection{system.Boolean(false)}
	case 2:
		return verifNullLit(), system.Collection{}
	case 3:
		return verifNumberLit("7"), system.Collection{system.Integer(7)}
	case 4:
		return verifStringLit("'abc'"), system.Collection{system.String("abc")}
	case 5:
		return verifParen(verifNullLit()), system.Collection{}
	default:
		return verifParen(verifBoolLit("true")), system.Collection{system.Boolean(true)}
	}
}

// truth value of an operand under the singleton rule: 0 false, 1 true, 2 empty (a single non-Boolean item is true)
func verifTruth(c system.Collection) int {
	if len(c) == 0 {
		return 2
	}
	if b, ok := c[0].(system.Boolean); ok {
		if bool(b) {
			return 1
		}
		return 0
	}
	return 1
}

func verifTable(op string, l, r int) int {
	const F, T, E = 0, 1, 2
	switch op {
	case "and":
		if l == F || r == F {
			return F
		}
		if l == T && r == T {
			return T
		}
		return E
	case "or":
		if l == T || r == T {
			return T
		}
		if l == F && r == F {
			return F
		}
		return E
	case "xor":
		if l == E || r == E {
			return E
		}
		if l != r {
			return T
		}
		return F
	default: // implies
		if l == F || r == T {
			return T
		}
		if l == T && r == F {
			return F
		}
		return E
	}
}

// C06: whatever the operands are *written as* - a Boolean literal, {}, a number, a string, something in parentheses -
// the compiled `l op r` returns the value of the truth table. The compiler may not specialise an operator on the
// shape of its operands in a way that changes the result.
func VerifHarness_C06_CompiledOperatorsFollowTheTruthTable() {
	op := []string{"and", "or", "xor", "implies"}[verifrt.Choose("op", 4)]
	lt, lv := verifOperand("l")
	rt, rv := verifOperand("r")
	res := (&FHIRPathVisitor{}).Visit(verifBinary(op, lt, rt)).(*VisitResult)
	verifrt.Assert(res.Error == nil && res.Result != nil, "boolean-operator-on-literals-compiles")
	out, err := res.Result.Evaluate(&expr.Context{}, system.Collection{})
	want := verifTable(op, verifTruth(lv), verifTruth(rv))
	if want == 2 {
		verifrt.Assert(err == nil && len(out) == 0, "compiled-operator-matches-truth-table")
	} else {
		verifrt.Assert(err == nil && len(out) == 1 && out[0] == system.Boolean(want == 1), "compiled-operator-matches-truth-table")
	}
	verifrt.Reach("end")
}
