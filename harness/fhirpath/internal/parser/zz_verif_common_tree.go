//go:build verif

package parser

import (
	"github.com/antlr4-go/antlr/v4"
	"github.com/verily-src/fhirpath-go/fhirpath/internal/funcs"
	"github.com/verily-src/fhirpath-go/fhirpath/internal/grammar"
)

// Parse trees built by hand: the visitor is the code that decides what an accepted source text *means*; the ANTLR
// recogniser that produces the tree from text is outside the engine, the tree classes it fills in are plain Go.
// Every helper builds the node the generated parser builds for that alternative: the alternative's context type with
// its children in source order, terminals carrying their token type and text.

var verifTokenSource = &antlr.TokenSourceCharStreamPair{}

// verifTok is a terminal for a keyword or punctuation (token type irrelevant to the visitor); verifTokT one whose type
// the generated accessors test.
func verifTok(text string) antlr.TerminalNode { return verifTokT(1, text) }

func verifTokT(typ int, text string) antlr.TerminalNode {
	t := antlr.CommonTokenFactoryDEFAULT.Create(verifTokenSource, typ, text, 0, 0, 0, 1, 0)
	return antlr.NewTerminalNodeImpl(t)
}

func verifAdd(parent antlr.ParserRuleContext, children ...antlr.Tree) {
	for _, c := range children {
		switch n := c.(type) {
		case antlr.TerminalNode:
			parent.AddTokenNode(n.GetSymbol())
		case antlr.RuleContext:
			parent.AddChild(n)
			n.SetParent(parent)
		}
	}
}

func verifTermExpr(term antlr.RuleContext) grammar.IExpressionContext {
	e := new(grammar.TermExpressionContext)
	grammar.InitEmptyExpressionContext(&e.ExpressionContext)
	verifAdd(e, term)
	return e
}

func verifLiteralExpr(lit antlr.RuleContext) grammar.IExpressionContext {
	term := new(grammar.LiteralTermContext)
	grammar.InitEmptyTermContext(&term.TermContext)
	verifAdd(term, lit)
	return verifTermExpr(term)
}

func verifBoolLit(text string) grammar.IExpressionContext {
	lit := new(grammar.BooleanLiteralContext)
	grammar.InitEmptyLiteralContext(&lit.LiteralContext)
	verifAdd(lit, verifTok(text))
	return verifLiteralExpr(lit)
}

func verifNullLit() grammar.IExpressionContext {
	lit := new(grammar.NullLiteralContext)
	grammar.InitEmptyLiteralContext(&lit.LiteralContext)
	verifAdd(lit, verifTok("{"), verifTok("}"))
	return verifLiteralExpr(lit)
}

func verifNumberLit(text string) grammar.IExpressionContext {
	lit := new(grammar.NumberLiteralContext)
	grammar.InitEmptyLiteralContext(&lit.LiteralContext)
	verifAdd(lit, verifTokT(grammar.VerifTokNUMBER, text))
	return verifLiteralExpr(lit)
}

// verifStringLit takes the literal as written, quotes included.
func verifStringLit(text string) grammar.IExpressionContext {
	lit := new(grammar.StringLiteralContext)
	grammar.InitEmptyLiteralContext(&lit.LiteralContext)
	verifAdd(lit, verifTokT(grammar.VerifTokSTRING, text))
	return verifLiteralExpr(lit)
}

func verifParen(e grammar.IExpressionContext) grammar.IExpressionContext {
	term := new(grammar.ParenthesizedTermContext)
	grammar.InitEmptyTermContext(&term.TermContext)
	verifAdd(term, verifTok("("), e, verifTok(")"))
	return verifTermExpr(term)
}

func verifIdentifier(name string) *grammar.IdentifierContext {
	id := new(grammar.IdentifierContext)
	grammar.InitEmptyIdentifierContext(id)
	// a name written in backticks is a DELIMITEDIDENTIFIER token, backticks included
	if len(name) > 0 && name[0] == '`' {
		verifAdd(id, verifTokT(grammar.VerifTokDELIMITEDIDENTIFIER, name))
	} else {
		verifAdd(id, verifTokT(grammar.VerifTokIDENTIFIER, name))
	}
	return id
}

// verifCall is name(args...) as an invocation; withList = false writes the empty parentheses without a paramList
// node, which is what the parser produces for "name()".
func verifCall(name string, args []grammar.IExpressionContext) *grammar.FunctionInvocationContext {
	fn := new(grammar.FunctionContext)
	grammar.InitEmptyFunctionContext(fn)
	verifAdd(fn, verifIdentifier(name), verifTok("("))
	if len(args) > 0 {
		pl := new(grammar.ParamListContext)
		grammar.InitEmptyParamListContext(pl)
		for i, a := range args {
			if i > 0 {
				verifAdd(pl, verifTok(","))
			}
			verifAdd(pl, a)
		}
		verifAdd(fn, pl)
	}
	verifAdd(fn, verifTok(")"))
	inv := new(grammar.FunctionInvocationContext)
	grammar.InitEmptyInvocationContext(&inv.InvocationContext)
	verifAdd(inv, fn)
	return inv
}

// verifCallExpr is the call standing alone as an expression (term : invocation).
func verifCallExpr(name string, args []grammar.IExpressionContext) grammar.IExpressionContext {
	term := new(grammar.InvocationTermContext)
	grammar.InitEmptyTermContext(&term.TermContext)
	verifAdd(term, verifCall(name, args))
	return verifTermExpr(term)
}

// verifDotCall is receiver.name(args...).
func verifDotCall(recv grammar.IExpressionContext, name string, args []grammar.IExpressionContext) grammar.IExpressionContext {
	e := new(grammar.InvocationExpressionContext)
	grammar.InitEmptyExpressionContext(&e.ExpressionContext)
	verifAdd(e, recv, verifTok("."), verifCall(name, args))
	return e
}

// verifBinary builds "l op r" with the alternative the grammar assigns to op.
func verifBinary(op string, l, r grammar.IExpressionContext) grammar.IExpressionContext {
	var e antlr.ParserRuleContext
	var out grammar.IExpressionContext
	switch op {
	case "and":
		n := new(grammar.AndExpressionContext)
		grammar.InitEmptyExpressionContext(&n.ExpressionContext)
		e, out = n, n
	case "or", "xor":
		n := new(grammar.OrExpressionContext)
		grammar.InitEmptyExpressionContext(&n.ExpressionContext)
		e, out = n, n
	case "implies":
		n := new(grammar.ImpliesExpressionContext)
		grammar.InitEmptyExpressionContext(&n.ExpressionContext)
		e, out = n, n
	case "+", "-", "&":
		n := new(grammar.AdditiveExpressionContext)
		grammar.InitEmptyExpressionContext(&n.ExpressionContext)
		e, out = n, n
	case "*", "/", "div", "mod":
		n := new(grammar.MultiplicativeExpressionContext)
		grammar.InitEmptyExpressionContext(&n.ExpressionContext)
		e, out = n, n
	case "=", "!=", "~", "!~":
		n := new(grammar.EqualityExpressionContext)
		grammar.InitEmptyExpressionContext(&n.ExpressionContext)
		e, out = n, n
	case "<", "<=", ">", ">=":
		n := new(grammar.InequalityExpressionContext)
		grammar.InitEmptyExpressionContext(&n.ExpressionContext)
		e, out = n, n
	default:
		panic("verifBinary: operator " + op)
	}
	verifAdd(e, l, verifTok(op), r)
	return out
}

func verifPolarity(sign string, x grammar.IExpressionContext) grammar.IExpressionContext {
	e := new(grammar.PolarityExpressionContext)
	grammar.InitEmptyExpressionContext(&e.ExpressionContext)
	verifAdd(e, verifTok(sign), x)
	return e
}

func verifIndexer(x, idx grammar.IExpressionContext) grammar.IExpressionContext {
	e := new(grammar.IndexerExpressionContext)
	grammar.InitEmptyExpressionContext(&e.ExpressionContext)
	verifAdd(e, x, verifTok("["), idx, verifTok("]"))
	return e
}

func verifArgs(n int) []grammar.IExpressionContext {
	var args []grammar.IExpressionContext
	for i := 0; i < n; i++ {
		args = append(args, verifNumberLit("1"))
	}
	return args
}

// the call in one of the places an expression can stand in; every place is compiled by a visitor of its own (a clone),
// and the answer must not depend on the place
func verifPlaced(call grammar.IExpressionContext, place int) grammar.IExpressionContext {
	switch place {
	case 1:
		return verifBinary("=", verifNumberLit("1"), call)
	case 2:
		return verifIndexer(verifNullLit(), call)
	case 3:
		return verifBinary("and", verifBoolLit("true"), call)
	case 4:
		return verifCallExpr("iif", []grammar.IExpressionContext{verifBoolLit("true"), call})
	case 5:
		return verifParen(call)
	}
	return call
}

func verifCompileCall(table funcs.FunctionTable, name string, n, place int, dotted bool) *VisitResult {
	var call grammar.IExpressionContext
	if dotted {
		call = verifDotCall(verifNullLit(), name, verifArgs(n))
	} else {
		call = verifCallExpr(name, verifArgs(n))
	}
	return (&FHIRPathVisitor{Functions: table}).Visit(verifPlaced(call, place)).(*VisitResult)
}

// verifTypeExpr is "x is|as A" or "x is|as A.B[.C]" (typeSpecifier : qualifiedIdentifier : identifier ('.' identifier)*).
func verifTypeExpr(x grammar.IExpressionContext, op string, names ...string) grammar.IExpressionContext {
	qi := new(grammar.QualifiedIdentifierContext)
	grammar.InitEmptyQualifiedIdentifierContext(qi)
	for i, n := range names {
		if i > 0 {
			verifAdd(qi, verifTok("."))
		}
		verifAdd(qi, verifIdentifier(n))
	}
	ts := new(grammar.TypeSpecifierContext)
	grammar.InitEmptyTypeSpecifierContext(ts)
	verifAdd(ts, qi)
	e := new(grammar.TypeExpressionContext)
	grammar.InitEmptyExpressionContext(&e.ExpressionContext)
	verifAdd(e, x, verifTok(op), ts)
	return e
}

// verifQuantityLit is NUMBER unit, the unit a quoted UCUM string ('mg') or a calendar keyword (days).
func verifQuantityLit(number, unit string) grammar.IExpressionContext {
	u := new(grammar.UnitContext)
	grammar.InitEmptyUnitContext(u)
	if len(unit) > 0 && unit[0] == '\'' {
		verifAdd(u, verifTokT(grammar.VerifTokSTRING, unit))
	} else {
		// dateTimePrecision / pluralDateTimePrecision: one keyword token under its own rule node
		if unit[len(unit)-1] == 's' {
			k := new(grammar.PluralDateTimePrecisionContext)
			grammar.InitEmptyPluralDateTimePrecisionContext(k)
			verifAdd(k, verifTok(unit))
			verifAdd(u, k)
		} else {
			k := new(grammar.DateTimePrecisionContext)
			grammar.InitEmptyDateTimePrecisionContext(k)
			verifAdd(k, verifTok(unit))
			verifAdd(u, k)
		}
	}
	q := new(grammar.QuantityContext)
	grammar.InitEmptyQuantityContext(q)
	verifAdd(q, verifTokT(grammar.VerifTokNUMBER, number), u)
	lit := new(grammar.QuantityLiteralContext)
	grammar.InitEmptyLiteralContext(&lit.LiteralContext)
	verifAdd(lit, q)
	return verifLiteralExpr(lit)
}

// verifExternalConstant is %name, %`name` or %'name' (externalConstant : '%' ( identifier | STRING )).
func verifExternalConstant(written string) grammar.IExpressionContext {
	ec := new(grammar.ExternalConstantContext)
	grammar.InitEmptyExternalConstantContext(ec)
	verifAdd(ec, verifTok("%"))
	if len(written) > 0 && written[0] == '\'' {
		verifAdd(ec, verifTokT(grammar.VerifTokSTRING, written))
	} else {
		verifAdd(ec, verifIdentifier(written))
	}
	term := new(grammar.ExternalConstantTermContext)
	grammar.InitEmptyTermContext(&term.TermContext)
	verifAdd(term, ec)
	return verifTermExpr(term)
}

// verifMember is a bare member name as an expression (term : invocation : identifier); verifDotMember is x.name.
func verifMember(name string) grammar.IExpressionContext {
	inv := new(grammar.MemberInvocationContext)
	grammar.InitEmptyInvocationContext(&inv.InvocationContext)
	verifAdd(inv, verifIdentifier(name))
	term := new(grammar.InvocationTermContext)
	grammar.InitEmptyTermContext(&term.TermContext)
	verifAdd(term, inv)
	return verifTermExpr(term)
}

func verifDotMember(x grammar.IExpressionContext, name string) grammar.IExpressionContext {
	inv := new(grammar.MemberInvocationContext)
	grammar.InitEmptyInvocationContext(&inv.InvocationContext)
	verifAdd(inv, verifIdentifier(name))
	e := new(grammar.InvocationExpressionContext)
	grammar.InitEmptyExpressionContext(&e.ExpressionContext)
	verifAdd(e, x, verifTok("."), inv)
	return e
}

func verifDateLit(text string) grammar.IExpressionContext {
	lit := new(grammar.DateLiteralContext)
	grammar.InitEmptyLiteralContext(&lit.LiteralContext)
	verifAdd(lit, verifTokT(grammar.VerifTokDATE, text))
	return verifLiteralExpr(lit)
}

func verifDateTimeLit(text string) grammar.IExpressionContext {
	lit := new(grammar.DateTimeLiteralContext)
	grammar.InitEmptyLiteralContext(&lit.LiteralContext)
	verifAdd(lit, verifTokT(grammar.VerifTokDATETIME, text))
	return verifLiteralExpr(lit)
}

func verifTimeLit(text string) grammar.IExpressionContext {
	lit := new(grammar.TimeLiteralContext)
	grammar.InitEmptyLiteralContext(&lit.LiteralContext)
	verifAdd(lit, verifTokT(grammar.VerifTokTIME, text))
	return verifLiteralExpr(lit)
}
