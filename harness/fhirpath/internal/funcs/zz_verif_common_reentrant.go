//go:build verif

package funcs

import (
	"github.com/verily-src/fhirpath-go/fhirpath/internal/expr"
	"github.com/verily-src/fhirpath-go/fhirpath/system"
	"github.com/verily-src/fhirpath-go/internal/verifrt"
)

// verifNested is an argument expression that calls the same wrapped function again, on another input.
type verifNested struct {
	f     Function
	input system.Collection
	arg   expr.Expression
	out   system.Collection
}

func (n *verifNested) Evaluate(ctx *expr.Context, _ system.Collection) (system.Collection, error) {
	r, err := n.f.Func(ctx, n.input, n.arg)
	n.out = r
	if err != nil {
		return nil, err
	}
	return system.Collection{system.String("inner")}, nil
}

// C04 / C17: the wrapper of a custom function keeps no state between invocations. Two invocations of the same
// wrapped function - one after the other, and one nested inside the evaluation of the other's argument (which is how
// f(g(f(x))) runs, and what two goroutines sharing an expression amount to) - each see their own input collection and
// their own argument.
func verifCustomFunctionIsReentrant() {
	type call struct {
		in  system.Collection
		arg system.String
	}
	var seen []call
	fn := func(in system.Collection, s system.String) (system.Collection, error) {
		seen = append(seen, call{in, s})
		return in, nil
	}
	f, err := ToFunction(fn)
	verifrt.Assert(err == nil, "well-typed-function-is-accepted")
	if err != nil {
		return
	}
	a := system.Collection{system.Integer(verifrt.NondetIntRange("a", 0, 9))}
	b := system.Collection{system.Integer(verifrt.NondetIntRange("b", 10, 19)), system.Integer(7)}
	if verifrt.NondetBool("nested") {
		inner := &verifNested{f: f, input: b, arg: &expr.LiteralExpression{Literal: system.String("x")}}
		out, err := f.Func(verifCtx(), a, inner)
		verifrt.Assert(err == nil && len(seen) == 2, "both-invocations-ran")
		if err != nil || len(seen) != 2 {
			return
		}
		// the inner call completes first
		verifrt.Assert(len(seen[0].in) == 2 && seen[0].arg == "x", "inner-invocation-sees-its-own-input-and-argument")
		verifrt.Assert(len(seen[1].in) == 1 && seen[1].in[0] == a[0] && seen[1].arg == "inner", "outer-invocation-keeps-its-own-input")
		verifrt.Assert(len(out) == 1 && len(inner.out) == 2, "each-invocation-returns-its-own-result")
	} else {
		r1, e1 := f.Func(verifCtx(), a, &expr.LiteralExpression{Literal: system.String("p")})
		r2, e2 := f.Func(verifCtx(), b, &expr.LiteralExpression{Literal: system.String("q")})
		verifrt.Assert(e1 == nil && e2 == nil && len(seen) == 2, "both-invocations-ran")
		if len(seen) == 2 {
			verifrt.Assert(len(seen[0].in) == 1 && seen[0].arg == "p" && len(seen[1].in) == 2 && seen[1].arg == "q", "sequential-invocations-are-independent")
		}
		verifrt.Assert(len(r1) == 1 && len(r2) == 2, "each-invocation-returns-its-own-result")
	}
	verifrt.Reach("end")
}
