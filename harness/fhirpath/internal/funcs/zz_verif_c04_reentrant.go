//go:build verif

package funcs

// C04: the wrapper of a custom function keeps no state between invocations (see verifCustomFunctionIsReentrant).
func VerifHarness_C04_CustomFunctionIsReentrant() { verifCustomFunctionIsReentrant() }

// C04: an evaluation writes to nothing it shares with the next one - the input collection, the collections its
// arguments evaluate to, environment-variable collections and their spare capacity - so repeating or interleaving
// evaluations cannot change their results (see verifFunctionsDoNotMutate).
func VerifHarness_C04_EvaluationsShareOnlyReadOnlyOperands() { verifFunctionsDoNotMutate() }
