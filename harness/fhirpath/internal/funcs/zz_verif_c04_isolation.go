//go:build verif

package funcs

import (
	"time"

	"github.com/verily-src/fhirpath-go/fhirpath/internal/expr"
	"github.com/verily-src/fhirpath-go/fhirpath/system"
	"github.com/verily-src/fhirpath-go/internal/verifrt"
)

// C04: Compile calls are isolated. A history of two table constructions (Clone + options): a function registered
// in the first exists only there; built-ins can be neither replaced nor altered; the shared tables never change.
func VerifHarness_C04_CompileIsolation() {
	verifrt.Protect("baseTable", baseTable)
	verifrt.Protect("experimentalTable", experimentalTable)
	nBase, nExp := len(baseTable), len(experimentalTable)
	name := verifrt.NondetString("name", verifrt.Bound(5, 8))
	_, builtin := baseTable[name]
	_, experimental := experimentalTable[name]
	fn := func(in system.Collection) (system.Collection, error) { return in, nil }
	t1 := Clone()
	if verifrt.NondetBool("experimental1") {
		t1 = AddExperimentalFuncs(t1)
	}
	_, had := t1[name]
	old := t1[name]
	err := t1.Register(name, fn)
	if had {
		verifrt.Assert(err != nil, "existing-name-cannot-be-registered")
		verifrt.Assert(t1[name].MinArity == old.MinArity && t1[name].MaxArity == old.MaxArity, "built-in-is-not-replaced")
	} else {
		verifrt.Assert(err == nil, "fresh-name-is-registered")
	}
	// second compile
	t2 := Clone()
	withExp := verifrt.NondetBool("experimental2")
	if withExp {
		t2 = AddExperimentalFuncs(t2)
	}
	_, in2 := t2[name]
	verifrt.Assert(in2 == (builtin || (withExp && experimental)), "registered-function-exists-only-in-its-own-table")
	verifrt.Assert(len(baseTable) == nBase && len(experimentalTable) == nExp, "shared-tables-keep-their-size")
	// mutating a cloned table entry does not reach the shared table
	t2["count"] = Function{Func: fn2, MinArity: 9, MaxArity: 9}
	verifrt.Assert(baseTable["count"].MinArity == 0 && baseTable["count"].MaxArity == 0, "clone-is-independent-of-the-base-table")
	verifrt.CheckFrames()
	verifrt.Reach("end")
}

func fn2(ctx *expr.Context, in system.Collection, args ...expr.Expression) (system.Collection, error) {
	return in, nil
}

// C04: now(), today() and timeOfDay() denote one instant - they are functions of the evaluation's instant only and
// read no clock themselves.
func VerifHarness_C04_NowIsAFunctionOfTheContext() {
	t := verifFullTable()
	y, mo, d := verifrt.NondetIntRange("y", 2023, 2024), verifrt.NondetIntRange("mo", 1, 12), verifrt.NondetIntRange("d", 1, 28)
	h, mi, s, ms := verifrt.NondetIntRange("h", 0, 23), verifrt.NondetIntRange("mi", 0, 59), verifrt.NondetIntRange("s", 0, 59), verifrt.NondetIntRange("ms", 0, 999)
	// the evaluation instant carries a zone (OverrideTime takes any time.Time): the three functions read the same
	// wall clock, that of the instant's own zone
	loc := time.UTC
	if verifrt.NondetBool("zoned") {
		loc = time.FixedZone("", 60*verifrt.NondetIntRange("offsetMinutes", -14*60, 14*60))
	}
	ctx := &expr.Context{Now: time.Date(y, time.Month(mo), d, h, mi, s, ms*1000000, loc), ExternalConstants: map[string]any{}}
	before := verifrt.ClockReads()
	name := []string{"now", "today", "timeOfDay"}[verifrt.Choose("fn", 3)]
	r1, e1 := t[name].Func(ctx, system.Collection{})
	r2, e2 := t[name].Func(ctx.Clone(), system.Collection{system.Integer(1)})
	verifrt.Assert(before == -1 || verifrt.ClockReads() == before, "no-clock-read-inside-now-today-timeOfDay")
	ok := e1 == nil && e2 == nil && len(r1) == 1 && len(r2) == 1
	if ok {
		eq, has := r1.TryEqual(r2)
		ok = eq && has
	}
	verifrt.Assert(ok, "same-instant-within-one-evaluation")
	if ok {
		var want string
		switch name {
		case "now":
			want = ctx.Now.Format("2006-01-02T15:04:05.000Z07:00")
		case "today":
			want = ctx.Now.Format("2006-01-02")
		default:
			want = ctx.Now.Format("15:04:05.000")
		}
		got, err := system.Collection{r1[0]}.ToString()
		_ = got
		_ = err
		st, isStr := r1[0].(interface{ String() string })
		verifrt.Assert(isStr && st.String() == want, "value-is-the-context-instant")
	}
	verifrt.Reach("end")
}

// C04: read-only sharing. With every package-level variable of the repository (function tables, layout maps,
// compiled patterns, sentinel errors), the input and the argument expressions protected, calling any table function
// writes to none of them - so concurrent evaluations share only memory that is never written.
func VerifHarness_C04_SharedStateIsReadOnly() {
	verifrt.IgnorePanics()
	verifrt.ProtectGlobals()
	verifrt.Protect("baseTable", baseTable)
	verifrt.Protect("experimentalTable", experimentalTable)
	t := verifFullTable()
	names := verifNames(t)
	name := names[verifrt.Choose("fn", len(names))]
	verifrt.Tag("fnName", name)
	fn := t[name]
	n := verifrt.Choose("nargs", 4)
	verifrt.Assume(fn.MinArity <= n && n <= fn.MaxArity)
	verifrt.Assume(verifrt.Thorough() || verifKind(name) != "number")
	input := verifReceiverFor(name)
	var args []expr.Expression
	for i := 0; i < n; i++ {
		a := verifArgFor(name, i)
		if _, counting := a.(*verifStub); !counting { // the harness's own stub counts its calls
			verifrt.Protect("argument expression", a)
		}
		args = append(args, a)
	}
	verifrt.ProtectSlice("input", input)
	ctx := verifCtx()
	ctx.Now = time.Date(2024, 2, 29, 12, 0, 0, 0, time.UTC)
	_, _ = fn.Func(ctx, input, args...)
	verifrt.CheckFrames()
	verifrt.Reach("end")
}
