//go:build verif

package funcs

import (
	"time"

	"github.com/verily-src/fhirpath-go/fhirpath/internal/expr"
	"github.com/verily-src/fhirpath-go/fhirpath/system"
	"github.com/verily-src/fhirpath-go/internal/verifrt"
)

// C01: every table entry with a FHIR element receiver in every shape a resource may carry.
func verifElementFunctionSweep(group int) {
	t := verifFullTable()
	names := verifNames(t)
	const groups = 4
	k := verifrt.Choose("fn", (len(names)+groups-1)/groups)*groups + group
	verifrt.Assume(k < len(names))
	name := names[k]
	verifrt.Tag("fnName", name)
	fn := t[name]
	n := verifrt.Choose("nargs", 3)
	verifrt.Assume(fn.MinArity <= n && n <= fn.MaxArity)
	recv := system.Collection{verifFhirElement("recv")}
	var args []expr.Expression
	for i := 0; i < n; i++ {
		switch verifrt.Choose("arg.form", verifrt.Bound(2, 3)) { // element arguments only in the thorough tier
		case 0:
			args = append(args, &expr.LiteralExpression{})
		case 1:
			args = append(args, &expr.LiteralExpression{Literal: system.Integer(verifrt.NondetIntRange("arg.i", -2, 40))})
		default:
			args = append(args, verifConst(system.Collection{verifFhirElement("arg")}))
		}
	}
	res, err := fn.Func(verifCtx(), recv, args...)
	verifrt.Assert(err != nil || res != nil || len(res) == 0, "returns-a-collection-or-an-error")
	verifrt.Reach("end")
}

func VerifHarness_C01_ElementFunctions_G0() { verifElementFunctionSweep(0) }
func VerifHarness_C01_ElementFunctions_G1() { verifElementFunctionSweep(1) }
func VerifHarness_C01_ElementFunctions_G2() { verifElementFunctionSweep(2) }
func VerifHarness_C01_ElementFunctions_G3() { verifElementFunctionSweep(3) }

// C01: now(), today() and timeOfDay() return a value or an error for every evaluation instant OverrideTime can supply,
// including the first instant whose year has five digits.
func VerifHarness_C01_ClockFunctionsTotal() {
	t := verifFullTable()
	y := []int{1, 2024, 9999, 10000}[verifrt.Choose("year", 4)]
	ctx := verifCtx()
	ctx.Now = time.Date(y, time.Month(verifrt.NondetIntRange("mo", 1, 12)), 1, verifrt.NondetIntRange("h", 0, 23), 0, 0, 0, time.UTC)
	name := []string{"now", "today", "timeOfDay"}[verifrt.Choose("fn", 3)]
	res, err := t[name].Func(ctx, system.Collection{})
	verifrt.Assert(err != nil || len(res) == 1, "clock-function-returns-a-value-or-an-error")
	verifrt.Reach("end")
}
