//go:build verif

package funcs

import (
	"github.com/shopspring/decimal"
	dtpb "github.com/google/fhir/go/proto/google/fhir/proto/r4/core/datatypes_go_proto"
	"github.com/verily-src/fhirpath-go/fhirpath/system"
	"github.com/verily-src/fhirpath-go/internal/verifrt"
)

var verifTargets = []string{"Boolean", "Integer", "Decimal", "String", "Date", "DateTime", "Time", "Quantity"}

// verifIsT: is v a System value of the named type?
func verifIsT(target string, v any) bool {
	switch target {
	case "Boolean":
		_, ok := v.(system.Boolean)
		return ok
	case "Integer":
		_, ok := v.(system.Integer)
		return ok
	case "Decimal":
		_, ok := v.(system.Decimal)
		return ok
	case "String":
		_, ok := v.(system.String)
		return ok
	case "Date":
		_, ok := v.(system.Date)
		return ok
	case "DateTime":
		_, ok := v.(system.DateTime)
		return ok
	case "Time":
		_, ok := v.(system.Time)
		return ok
	default:
		_, ok := v.(system.Quantity)
		return ok
	}
}

// input kinds: 0 Boolean 1 Integer 2 Decimal 3 String 4 Date 5 DateTime 6 Time 7 Quantity
// 8 FHIR boolean 9 FHIR integer 10 FHIR string 11 FHIR decimal 12 complex element
// 13 FHIR time 14 FHIR date 15 FHIR dateTime 16 FHIR Quantity (elements reached by navigation: the result of a
// conversion must be the System value, not the element handed back)
// 17 a FHIR decimal element that is well-formed but has no System value (an exponent beyond what the library reads):
// like a complex element it converts to nothing - empty, not an error
const verifInputKinds = 18

func verifConvInput(kind int) (any, bool) {
	switch kind {
	case 0:
		return system.Boolean(verifrt.NondetBool("in.b")), true
	case 1:
		return system.Integer(verifrt.NondetInt32("in.i")), true
	case 2:
		d := verifrt.NondetDecimal("in.d", verifrt.Choose("in.scale", 3))
		c := d.Coefficient()
		return system.Decimal(d), c.IsInt64() && c.Int64() > -1000000 && c.Int64() < 1000000
	case 3:
		switch verifrt.Choose("in.sform", 3) {
		case 1: // integer renderings around the 32-bit limits: [+-]21474836dd
			sign := []string{"", "+", "-"}[verifrt.Choose("in.sign", 3)]
			d1, d2 := verifrt.NondetIntRange("in.d1", 0, 9), verifrt.NondetIntRange("in.d2", 0, 9)
			return system.String(sign + "21474836" + string([]byte{byte('0' + d1), byte('0' + d2)})), true
		case 2: // well-formed numbers far outside every range; literal spellings (with '@') that are not string renderings
			str := []string{"99999999999", "-99999999999", "0000000000001", "1.00000000000000000000000001", "@2020", "@T10:30", "@2020-01-01T10:00:00Z"}[verifrt.Choose("in.big", 7)]
			verifrt.Tag("strName", str)
			return system.String(str), true
		}
		gs := verifrt.NondetString("in.s", verifrt.Bound(3, 5))
		return system.String(gs), len(gs) == 0 || gs[0] != '@' // the '@' spellings are the menu's
	case 4:
		p := []dtpb.Date_Precision{dtpb.Date_YEAR, dtpb.Date_MONTH, dtpb.Date_DAY}[verifrt.Choose("in.dp", 3)]
		d, err := system.DateFromProto(&dtpb.Date{ValueUs: 1000000 * int64(verifrt.NondetIntRange("in.date.s", 1704067200, 1704067200+400*86400)), Precision: p})
		return d, err == nil
	case 5:
		p := []dtpb.DateTime_Precision{dtpb.DateTime_YEAR, dtpb.DateTime_MONTH, dtpb.DateTime_DAY, dtpb.DateTime_SECOND, dtpb.DateTime_MILLISECOND}[verifrt.Choose("in.dtp", 5)]
		d, err := system.DateTimeFromProto(&dtpb.DateTime{ValueUs: 1000 * int64(verifrt.NondetIntRange("in.dt.ms", 1704067200000, 1704067200000+400*86400000)), Precision: p})
		return d, err == nil
	case 6:
		p := []dtpb.Time_Precision{dtpb.Time_SECOND, dtpb.Time_MILLISECOND}[verifrt.Choose("in.tp", 2)]
		return system.TimeFromProto(&dtpb.Time{ValueUs: 1000 * int64(verifrt.NondetIntRange("in.t.ms", 0, 86399999)), Precision: p}), true
	case 7:
		q, err := system.ParseQuantity([]string{"1", "1.5", "-2.50", "0"}[verifrt.Choose("in.qv", 4)], []string{"mg", "1", "days", ""}[verifrt.Choose("in.qu", 4)])
		return q, err == nil
	case 8:
		return &dtpb.Boolean{Value: verifrt.NondetBool("in.fb")}, true
	case 9:
		return &dtpb.Integer{Value: verifrt.NondetInt32("in.fi")}, true
	case 10:
		return &dtpb.String{Value: verifrt.NondetString("in.fs", 2)}, true
	case 11:
		return &dtpb.Decimal{Value: []string{"1.0", "0", "-3.25"}[verifrt.Choose("in.fd", 3)]}, true
	case 13:
		p := []dtpb.Time_Precision{dtpb.Time_SECOND, dtpb.Time_MILLISECOND}[verifrt.Choose("in.ftp", 2)]
		return &dtpb.Time{ValueUs: 1000 * int64(verifrt.NondetIntRange("in.ft.ms", 0, 86399999)), Precision: p}, true
	case 14:
		p := []dtpb.Date_Precision{dtpb.Date_YEAR, dtpb.Date_MONTH, dtpb.Date_DAY}[verifrt.Choose("in.fdp", 3)]
		return &dtpb.Date{ValueUs: 1000000 * int64(verifrt.NondetIntRange("in.fdate.s", 1704067200, 1704067200+400*86400)), Precision: p, Timezone: "Z"}, true
	case 15:
		p := []dtpb.DateTime_Precision{dtpb.DateTime_DAY, dtpb.DateTime_SECOND, dtpb.DateTime_MILLISECOND}[verifrt.Choose("in.fdtp", 3)]
		return &dtpb.DateTime{ValueUs: 1000 * int64(verifrt.NondetIntRange("in.fdt.ms", 1704067200000, 1704067200000+400*86400000)), Precision: p, Timezone: "Z"}, true
	case 17:
		return &dtpb.Decimal{Value: []string{"1e200000", "-1E+999999", "1e-200000"}[verifrt.Choose("in.hugeExp", 3)]}, true
	case 16:
		return &dtpb.Quantity{Value: &dtpb.Decimal{Value: []string{"1", "1.5", "-2.50"}[verifrt.Choose("in.fqv", 3)]}, Code: &dtpb.Code{Value: []string{"mg", "1", "days"}[verifrt.Choose("in.fqu", 3)]}}, true
	default:
		return &dtpb.HumanName{Family: &dtpb.String{Value: verifrt.NondetString("in.fam", 1)}}, true
	}
}

// source kind -> System type it stands for (FHIR primitives behave as the System type From gives)
func verifSourceType(kind int) string {
	switch kind {
	case 0, 8:
		return "Boolean"
	case 1, 9:
		return "Integer"
	case 2, 11:
		return "Decimal"
	case 3, 10:
		return "String"
	case 4, 14:
		return "Date"
	case 5, 15:
		return "DateTime"
	case 6, 13:
		return "Time"
	case 7, 16:
		return "Quantity"
	}
	return "complex"
}

// verifMatrix: the FHIRPath conversion table for non-String sources: 1 always succeeds, 0 never, 2 value dependent.
func verifMatrix(src, target string) int {
	if src == "complex" {
		return 0
	}
	if src == target || target == "String" {
		return 1
	}
	switch src {
	case "Boolean":
		if target == "Integer" || target == "Decimal" || target == "Quantity" {
			return 1
		}
	case "Integer":
		if target == "Decimal" || target == "Quantity" {
			return 1
		}
		if target == "Boolean" {
			return 2
		}
	case "Decimal":
		if target == "Quantity" {
			return 1
		}
		if target == "Boolean" {
			return 2
		}
	case "Date":
		if target == "DateTime" {
			return 1
		}
	case "DateTime":
		if target == "Date" {
			return 1
		}
	case "String":
		return 2
	}
	return 0
}

func verifConversion(target string) {
	t := verifFullTable()
	to, okTo := t["to"+target]
	conv, okConv := t["convertsTo"+target]
	verifrt.Assert(okTo && okConv, "conversion-pair-registered-under-specification-names")
	if !okTo || !okConv {
		return
	}
	kind := verifrt.Choose("in.kind", verifInputKinds)
	x, valid := verifConvInput(kind)
	verifrt.Assume(valid)
	in := system.Collection{x}
	res, err := to.Func(verifCtx(), in)
	converted := err == nil && len(res) == 1
	// convertsToT agrees with toT (compared first: an error from toT is a finding of its own below, and yields no value)
	c, errC := conv.Func(verifCtx(), in)
	okc := errC == nil && len(c) == 1
	if okc {
		b, isBool := c[0].(system.Boolean)
		okc = isBool && bool(b) == converted
	}
	verifrt.Assert(okc, "convertsToT-iff-toT-nonempty")
	if str, isStr := x.(system.String); isStr && converted && len(str) > 0 && (target == "Date" || target == "DateTime" || target == "Time") {
		// the string renderings of temporal values start with a digit ('@' and '@T' belong to literals in source text)
		verifrt.Assert(str[0] >= '0' && str[0] <= '9', "only-plain-renderings-convert-to-temporal-values")
	}
	verifrt.Assert(err == nil, "toT-never-errors-on-a-single-item")
	if err != nil {
		return
	}
	verifrt.Assert(len(res) <= 1, "toT-yields-at-most-one-item")
	if len(res) == 1 {
		verifrt.Assert(verifIsT(target, res[0]), "toT-result-is-of-type-T")
	}
	switch verifMatrix(verifSourceType(kind), target) {
	case 1:
		verifrt.Assert(len(res) == 1, "conversion-table-says-convertible")
	case 0:
		verifrt.Assert(len(res) == 0, "conversion-table-says-not-convertible")
	}
	if d, isDec := x.(system.Decimal); isDec && target == "Boolean" {
		// the conversion table, Decimal to Boolean: 1.0 is true, 0.0 is false (whatever the scale), nothing else converts
		one, zero := decimal.Decimal(d).Equal(decimal.NewFromInt(1)), decimal.Decimal(d).Equal(decimal.Zero)
		ok := len(res) == 0
		if one || zero {
			ok = len(res) == 1 && res[0] == system.Boolean(one)
		}
		verifrt.Assert(ok, "decimal-converts-to-boolean-exactly-for-one-and-zero")
	}
	if len(res) == 1 {
		again, err2 := to.Func(verifCtx(), res)
		ok := err2 == nil && len(again) == 1
		if ok {
			eq, has := again.TryEqual(res)
			ok = eq && has
		}
		verifrt.Assert(ok, "converting-twice-equals-converting-once")
	}
	verifrt.Reach("end")
}

func VerifHarness_C13_ToBoolean()  { verifConversion("Boolean") }
func VerifHarness_C13_ToInteger()  { verifConversion("Integer") }
func VerifHarness_C13_ToDecimal()  { verifConversion("Decimal") }
func VerifHarness_C13_ToString()   { verifConversion("String") }
func VerifHarness_C13_ToDate()     { verifConversion("Date") }
func VerifHarness_C13_ToDateTime() { verifConversion("DateTime") }
func VerifHarness_C13_ToTime()     { verifConversion("Time") }
func VerifHarness_C13_ToQuantity() { verifConversion("Quantity") }

// x.toString().toT() = x for x already of type T (Boolean and Integer: exact string model).
func VerifHarness_C13_RoundTripBooleanInteger() {
	t := verifFullTable()
	var x any
	var target string
	if verifrt.NondetBool("isBool") {
		x, target = system.Boolean(verifrt.NondetBool("b")), "Boolean"
	} else {
		x, target = system.Integer(int32(verifrt.NondetIntRange("i", -verifrt.Bound(99999, 2147483647), verifrt.Bound(99999, 2147483647)))), "Integer"
	}
	s, err := t["toString"].Func(verifCtx(), system.Collection{x})
	verifrt.Assert(err == nil && len(s) == 1, "toString-of-system-value")
	if err != nil || len(s) != 1 {
		return
	}
	back, err2 := t["to"+target].Func(verifCtx(), s)
	ok := err2 == nil && len(back) == 1
	if ok {
		eq, has := back.TryEqual(system.Collection{x})
		ok = eq && has
	}
	verifrt.Assert(ok, "toString-then-toT-is-identity")
	verifrt.Reach("end")
}

// verifRoundTrip: x.toString().toT() = x through the function table.
func verifRoundTrip(x any, target string) {
	t := verifFullTable()
	s, err := t["toString"].Func(verifCtx(), system.Collection{x})
	verifrt.Assert(err == nil && len(s) == 1, "toString-of-system-value")
	if err != nil || len(s) != 1 {
		return
	}
	back, err2 := t["to"+target].Func(verifCtx(), s)
	ok := err2 == nil && len(back) == 1
	if ok {
		eq, has := back.TryEqual(system.Collection{x})
		ok = eq && has
	}
	verifrt.Assert(ok, "toString-then-toT-is-identity")
	conv, err3 := t["convertsTo"+target].Func(verifCtx(), s)
	verifrt.Assert(err3 == nil && len(conv) == 1 && conv[0] == system.Boolean(true), "its-own-text-converts")
	verifrt.Reach("end")
}

// Decimal: symbolic mantissa over a menu of scales (trailing zeros and negative values included).
func VerifHarness_C13_RoundTripDecimal() {
	shapes := [][2]int{{0, 4}, {1, 3}, {3, 4}}
	if verifrt.Thorough() {
		shapes = [][2]int{{0, 9}, {1, 6}, {3, 6}, {8, 9}, {18, 19}}
	}
	sh := shapes[verifrt.Choose("shape", len(shapes))]
	verifRoundTrip(system.Decimal(verifrt.NondetDecimalDigits("d", sh[0], sh[1])), "Decimal")
}

// Time: every precision, every time of day.
func VerifHarness_C13_RoundTripTime() {
	text := []byte{}
	two := func(v int) { text = append(text, byte('0'+v/10), byte('0'+v%10)) }
	two(verifrt.NondetIntRange("hh", 0, 23))
	p := verifrt.Choose("precision", 4)
	if p >= 1 {
		text = append(text, ':')
		two(verifrt.NondetIntRange("mm", 0, 59))
	}
	if p >= 2 {
		text = append(text, ':')
		two(verifrt.NondetIntRange("ss", 0, 59))
	}
	if p >= 3 {
		ms := verifrt.NondetIntRange("ms", 0, 999)
		text = append(text, '.', byte('0'+ms/100), byte('0'+ms/10%10), byte('0'+ms%10))
	}
	x, err := system.ParseTime(string(text))
	verifrt.Assume(err == nil)
	verifRoundTrip(x, "Time")
}

// Date and DateTime on a menu of calendar days (the calendar itself is C09's subject), every precision; DateTime with
// symbolic time of day and each offset form.
func VerifHarness_C13_RoundTripDate() {
	day := []string{"2020-02-29", "1999-12-31", "2024-01-01"}[verifrt.Choose("day", 3)]
	x, err := system.ParseDate(day[:[]int{4, 7, 10}[verifrt.Choose("precision", 3)]])
	verifrt.Assume(err == nil)
	verifRoundTrip(x, "Date")
}

// A Date converts to DateTime (conversion table), so the text of a Date - a partial DateTime that stops at the year,
// month or day - converts too, to the same value: x.toString().toDateTime() = x.toDateTime().
func VerifHarness_C13_DateTextConvertsToDateTime() {
	y := verifrt.NondetIntRange("year", 1000, 2999)
	text := []byte{byte('0' + y/1000), byte('0' + y/100%10), byte('0' + y/10%10), byte('0' + y%10)}
	p := verifrt.Choose("precision", 3)
	if p >= 1 {
		mo := verifrt.NondetIntRange("month", 1, 12)
		text = append(text, '-', byte('0'+mo/10), byte('0'+mo%10))
	}
	if p >= 2 {
		d := verifrt.NondetIntRange("day", 1, 28)
		text = append(text, '-', byte('0'+d/10), byte('0'+d%10))
	}
	x, err := system.ParseDate(string(text))
	verifrt.Assume(err == nil)
	t := verifFullTable()
	direct, err1 := t["toDateTime"].Func(verifCtx(), system.Collection{x})
	viaText, err2 := t["toDateTime"].Func(verifCtx(), system.Collection{system.String(text)})
	ok := err1 == nil && err2 == nil && len(direct) == 1 && len(viaText) == 1
	if ok {
		eq, has := direct.TryEqual(viaText)
		ok = eq && has
	}
	verifrt.Assert(ok, "the-text-of-a-date-converts-to-the-datetime-the-date-converts-to")
	conv, err3 := t["convertsToDateTime"].Func(verifCtx(), system.Collection{system.String(text)})
	verifrt.Assert(err3 == nil && len(conv) == 1 && conv[0] == system.Boolean(true), "convertsToDateTime-agrees")
	verifrt.Reach("end")
}

func VerifHarness_C13_RoundTripDateTime() {
	verifrt.SplitCalendar()
	day := []string{"2020-02-29", "1999-12-31"}[verifrt.Choose("day", 2)]
	p := verifrt.Choose("precision", 7) // year, month, day, hour, minute, second, millisecond
	var text []byte
	if p <= 2 {
		text = append([]byte(day[:[]int{4, 7, 10}[p]]), 'T')
	} else {
		text = append([]byte(day), 'T')
		two := func(v int) { text = append(text, byte('0'+v/10), byte('0'+v%10)) }
		two(verifrt.NondetIntRange("hh", 0, 23))
		if p >= 4 {
			text = append(text, ':')
			two(verifrt.NondetIntRange("mm", 0, 59))
		}
		if p >= 5 {
			text = append(text, ':')
			two(verifrt.NondetIntRange("ss", 0, 59))
		}
		if p >= 6 {
			ms := verifrt.NondetIntRange("ms", 0, 999)
			text = append(text, '.', byte('0'+ms/100), byte('0'+ms/10%10), byte('0'+ms%10))
		}
		text = append(text, []string{"", "Z", "+05:30", "-08:00"}[verifrt.Choose("zone", 4)]...)
	}
	x, err := system.ParseDateTime(string(text))
	verifrt.Assume(err == nil)
	verifRoundTrip(x, "DateTime")
}

// Quantity: symbolic value, unit menu (UCUM in quotes, calendar keywords, the default unit).
func VerifHarness_C13_RoundTripQuantity() {
	d := verifrt.NondetDecimalDigits("v", verifrt.Choose("scale", 2), 3)
	// (UCUM codes are case sensitive: mL, mmHg, Cel keep their capitals through text)
	unit := []string{"mg", "1", "year", "days", "kg/m2", "ms", "mL", "mmHg", "Cel"}[verifrt.Choose("unit", 9)]
	verifrt.Tag("unitName", unit)
	q, err := system.ParseQuantity(d.String(), unit)
	verifrt.Assume(err == nil)
	verifRoundTrip(q, "Quantity")
}

// The round trip for a DateTime that arrives from an instant element (clock-made instants carry microseconds):
// d = x.toDateTime(); d.toString().toDateTime() = d.
func VerifHarness_C13_RoundTripFromInstant() {
	verifrt.SplitCalendar()
	t := verifFullTable()
	p := []dtpb.Instant_Precision{dtpb.Instant_SECOND, dtpb.Instant_MILLISECOND, dtpb.Instant_MICROSECOND}[verifrt.Choose("precision", 3)]
	us := int64(verifrt.NondetIntRange("s", 1709164800, 1709164800+86399))*1000000 + int64(verifrt.NondetIntRange("us", 0, 999999))
	x := &dtpb.Instant{ValueUs: us, Timezone: []string{"Z", "+05:30"}[verifrt.Choose("zone", 2)], Precision: p}
	d, err := t["toDateTime"].Func(verifCtx(), system.Collection{x})
	verifrt.Assert(err == nil && len(d) == 1, "instant-converts-to-DateTime")
	if err != nil || len(d) != 1 {
		return
	}
	verifRoundTrip(d[0], "DateTime")
}
