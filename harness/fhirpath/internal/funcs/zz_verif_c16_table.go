//go:build verif

package funcs

import (
	"errors"
	"reflect"

	"github.com/verily-src/fhirpath-go/fhirpath/internal/expr"
	"github.com/verily-src/fhirpath-go/fhirpath/internal/funcs/impl"
	"github.com/verily-src/fhirpath-go/fhirpath/system"
	"github.com/verily-src/fhirpath-go/internal/verifrt"
)

// C16: whenever the table's bounds accept a call, evaluation never fails with an arity complaint.
// Every (name, n) with n in 0..4 of the base + experimental table; receiver and arguments well-typed.
func VerifHarness_C16_AcceptedArityNeverArityError() {
	t := verifFullTable()
	names := verifNames(t)
	name := names[verifrt.Choose("fn", len(names))]
	verifrt.Tag("fnName", name)
	fn := t[name]
	n := verifrt.Choose("nargs", 5)
	verifrt.Assume(fn.MinArity <= n && n <= fn.MaxArity)
	recv := verifReceiverFor(name)
	var args []expr.Expression
	for i := 0; i < n; i++ {
		args = append(args, verifArgFor(name, i))
	}
	_, err := fn.Func(verifCtx(), recv, args...)
	verifrt.Assert(!errors.Is(err, impl.ErrWrongArity), "accepted-call-never-fails-with-arity-error")
	verifrt.Reach("end")
}

// C16: the same when the operands are not single items: an input or an argument that evaluates to no item or to two
// items is not a wrong number of arguments (the call was accepted with that many), whatever else it is.
func VerifHarness_C16_ArityErrorOnlyForArgumentCount() {
	t := verifFullTable()
	names := verifNames(t)
	name := names[verifrt.Choose("fn", len(names))]
	verifrt.Tag("fnName", name)
	fn := t[name]
	n := verifrt.Choose("nargs", 4)
	verifrt.Assume(fn.MinArity <= n && n <= fn.MaxArity)
	verifrt.Assume(verifrt.Thorough() || verifKind(name) != "number")
	recv := verifReceiverFor(name)
	switch verifrt.Choose("recv.shape", 3) {
	case 1:
		recv = system.Collection{}
	case 2:
		recv = system.Collection{recv[0], recv[0]}
	}
	var args []expr.Expression
	for i := 0; i < n; i++ {
		switch verifrt.Choose("arg.shape", 3) {
		case 0:
			args = append(args, verifArgFor(name, i))
		case 1:
			args = append(args, &expr.LiteralExpression{})
		default:
			args = append(args, verifConst(system.Collection{system.String("a"), system.String("b")}))
		}
	}
	_, err := fn.Func(verifCtx(), recv, args...)
	verifrt.Assert(!errors.Is(err, impl.ErrWrongArity), "accepted-call-never-fails-with-arity-error")
	verifrt.Reach("end")
}

// C16: every name of the specification is in the table, and its bounds contain every argument count the
// specification allows for it (otherwise a specified call is rejected at Compile as "wrong arity").
func VerifHarness_C16_SpecNamesAndArities() {
	t := verifFullTable()
	var specNames []string
	for k := range verifSpecArity {
		specNames = append(specNames, k)
	}
	verifrt.SortStrings(specNames)
	name := specNames[verifrt.Choose("fn", len(specNames))]
	verifrt.Tag("fnName", name)
	fn, ok := t[name]
	verifrt.Assert(ok, "specification-name-is-in-the-table")
	if !ok {
		return
	}
	for _, n := range verifSpecArity[name] {
		verifrt.Assert(fn.MinArity <= n && n <= fn.MaxArity, "bounds-admit-every-specified-argument-count")
	}
	verifrt.Reach("end")
}

// C16: nothing is registered under a name the specification does not have (e.g. a misspelt name).
func VerifHarness_C16_TableNamesAreSpecNames() {
	t := verifFullTable()
	names := verifNames(t)
	other := names[verifrt.Choose("tn", len(names))]
	_, inSpec := verifSpecArity[other]
	verifrt.Assert(inSpec, "table-name-is-a-specification-name")
	verifrt.Reach("end")
}

// C16: each implemented name is bound to the implementation of that same name.
func VerifHarness_C16_BoundToSameName() {
	want := map[string]FHIRPathFunc{
		"empty": impl.Empty, "exists": impl.Exists, "extension": impl.Extension, "all": impl.All, "allTrue": impl.AllTrue, "anyTrue": impl.AnyTrue,
		"allFalse": impl.AllFalse, "anyFalse": impl.AnyFalse, "count": impl.Count, "distinct": impl.Distinct, "isDistinct": impl.IsDistinct,
		"where": impl.Where, "select": impl.Select, "first": impl.First, "last": impl.Last, "tail": impl.Tail, "skip": impl.Skip, "take": impl.Take,
		"intersect": impl.Intersect, "exclude": impl.Exclude, "iif": impl.Iif,
		"toBoolean": impl.ToBoolean, "convertsToBoolean": impl.ConvertsToBoolean, "toInteger": impl.ToInteger, "convertsToInteger": impl.ConvertsToInteger,
		"toDate": impl.ToDate, "convertsToDate": impl.ConvertsToDate, "toDateTime": impl.ToDateTime, "convertsToDateTime": impl.ConvertsToDateTime,
		"toDecimal": impl.ToDecimal, "convertsToDecimal": impl.ConvertsToDecimal, "toQuantity": impl.ToQuantity, "convertsToQuantity": impl.ConvertsToQuantity,
		"toString": impl.ToString, "convertsToString": impl.ConvertsToString, "toTime": impl.ToTime, "convertsToTime": impl.ConvertsToTime,
		"indexOf": impl.IndexOf, "substring": impl.Substring, "startsWith": impl.StartsWith, "endsWith": impl.EndsWith, "contains": impl.Contains,
		"upper": impl.Upper, "lower": impl.Lower, "replace": impl.Replace, "matches": impl.Matches, "replaceMatches": impl.ReplaceMatches,
		"length": impl.Length, "toChars": impl.ToChars,
		"abs": impl.Abs, "ceiling": impl.Ceiling, "exp": impl.Exp, "floor": impl.Floor, "ln": impl.Ln, "log": impl.Log, "power": impl.Power,
		"round": impl.Round, "sqrt": impl.Sqrt, "truncate": impl.Truncate,
		"children": impl.Children, "descendants": impl.Descendants, "now": impl.Now, "timeOfDay": impl.TimeOfDay, "today": impl.Today, "not": impl.Not,
		"join": impl.Join,
	}
	var names []string
	for k := range want {
		names = append(names, k)
	}
	verifrt.SortStrings(names)
	name := names[verifrt.Choose("fn", len(names))]
	verifrt.Tag("fnName", name)
	t := verifFullTable()
	fn, ok := t[name]
	verifrt.Assert(ok, "implemented-name-is-in-the-table")
	if ok {
		verifrt.Assert(reflect.ValueOf(fn.Func).Pointer() == reflect.ValueOf(want[name]).Pointer(), "name-bound-to-implementation-of-that-name")
	}
	verifrt.Reach("end")
}

// C16: names that are not implemented fail with an explicit not-implemented error (not a result, not an arity error)
// when called as the specification allows, and the table admits those argument counts.
func VerifHarness_C16_UnimplementedExplicit() {
	var names []string
	for k := range verifUnimplemented {
		names = append(names, k)
	}
	verifrt.SortStrings(names)
	name := names[verifrt.Choose("fn", len(names))]
	verifrt.Tag("fnName", name)
	t := verifFullTable()
	fn, ok := t[name]
	verifrt.Assert(ok, "unimplemented-name-is-in-the-table")
	if !ok {
		return
	}
	spec := verifSpecArity[name]
	n := spec[verifrt.Choose("which", len(spec))]
	verifrt.Assert(fn.MinArity <= n && n <= fn.MaxArity, "unimplemented-name-admits-its-specified-argument-count")
	recv := verifReceiverFor(name)
	switch verifrt.Choose("recv.shape", 3) { // not implemented is not implemented for every input, the empty one included
	case 1:
		recv = system.Collection{}
	case 2:
		recv = system.Collection{recv[0], recv[0]}
	}
	var args []expr.Expression
	for i := 0; i < n; i++ {
		args = append(args, verifArgFor(name, i))
	}
	res, err := fn.Func(verifCtx(), recv, args...)
	verifrt.Assert(err != nil && res == nil && !errors.Is(err, impl.ErrWrongArity), "unimplemented-fails-explicitly")
	verifrt.Reach("end")
}

// Behavioural binding: where the specification fixes the result type, the bound function delivers it.
func VerifHarness_C16_ResultTypes() {
	t := verifFullTable()
	i := system.Integer(verifrt.NondetIntRange("i", 0, 9))
	switch verifrt.Choose("case", 4) {
	case 0:
		res, err := t["toQuantity"].Func(verifCtx(), system.Collection{i})
		ok := err == nil && len(res) == 1
		if ok {
			_, ok = res[0].(system.Quantity)
		}
		verifrt.Assert(ok, "toQuantity-of-integer-is-a-quantity")
	case 1:
		res, err := t["count"].Func(verifCtx(), system.Collection{i, i})
		ok := err == nil && len(res) == 1
		if ok {
			c, isInt := res[0].(system.Integer)
			ok = isInt && c == 2
		}
		verifrt.Assert(ok, "count-is-an-integer")
	case 2:
		fn, has := t["convertsToDateTime"]
		verifrt.Assert(has, "convertsToDateTime-is-registered")
		if has {
			res, err := fn.Func(verifCtx(), system.Collection{i})
			ok := err == nil && len(res) == 1
			if ok {
				_, ok = res[0].(system.Boolean)
			}
			verifrt.Assert(ok, "convertsToDateTime-is-a-boolean")
		}
	default:
		res, err := t["toString"].Func(verifCtx(), system.Collection{i})
		ok := err == nil && len(res) == 1
		if ok {
			_, ok = res[0].(system.String)
		}
		verifrt.Assert(ok, "toString-is-a-string")
	}
	verifrt.Reach("end")
}
