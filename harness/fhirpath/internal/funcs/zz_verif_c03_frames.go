//go:build verif

package funcs

import (
	"github.com/verily-src/fhirpath-go/fhirpath/internal/expr"
	"github.com/verily-src/fhirpath-go/fhirpath/system"
	"github.com/verily-src/fhirpath-go/internal/verifrt"
)

// C03: calling any table function leaves its input collection, the collections its arguments evaluate to and the
// environment untouched (see verifFunctionsDoNotMutate).
func VerifHarness_C03_FunctionsDoNotMutate() { verifFunctionsDoNotMutate() }

// C03: the collection-shaping functions on three-item inputs with repeated items (an in-place compaction or filter
// only shows when a later item moves over an earlier, different one: [a, a, b]).
func VerifHarness_C03_SetFunctionsDoNotMutate() {
	verifrt.IgnorePanics()
	t := verifFullTable()
	menu := []string{"distinct", "isDistinct", "intersect", "exclude", "where", "select", "tail", "skip", "take", "first", "last", "all", "exists"}
	name := menu[verifrt.Choose("fn", len(menu))]
	verifrt.Tag("fnName", name)
	fn, ok := t[name]
	verifrt.Assume(ok)
	n := verifrt.Choose("nargs", 2)
	verifrt.Assume(fn.MinArity <= n && n <= fn.MaxArity)
	input := make(system.Collection, 0, 4)
	for i := 0; i < 3; i++ {
		input = append(input, system.Integer(verifrt.NondetIntRange("in.i", 0, 1)))
	}
	other := system.Collection{system.Integer(verifrt.NondetIntRange("o.i", 0, 1)), system.Integer(verifrt.NondetIntRange("o.i", 0, 1))}
	ctx := &expr.Context{ExternalConstants: map[string]any{"v": other}}
	var args []expr.Expression
	if n == 1 {
		switch verifrt.Choose("arg", 3) {
		case 0:
			args = append(args, &expr.ExternalConstantExpression{Identifier: "v"})
		case 1:
			args = append(args, &verifStub{r: []system.Collection{
				{system.Boolean(verifrt.NondetBool("crit0"))}, {system.Boolean(verifrt.NondetBool("crit1"))}, {system.Boolean(verifrt.NondetBool("crit2"))}}})
		default:
			args = append(args, &expr.LiteralExpression{Literal: system.Integer(verifrt.NondetIntRange("arg.i", -1, 3))})
		}
	}
	verifrt.ProtectSlice("input", input)
	verifrt.ProtectSlice("env v", other)
	fn.Func(ctx, input, args...)
	verifrt.CheckFrames()
	verifrt.Reach("end")
}
