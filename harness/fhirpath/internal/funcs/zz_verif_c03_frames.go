//go:build verif

package funcs

import (
	dtpb "github.com/google/fhir/go/proto/google/fhir/proto/r4/core/datatypes_go_proto"
	"github.com/verily-src/fhirpath-go/fhirpath/internal/expr"
	"github.com/verily-src/fhirpath-go/fhirpath/system"
	"github.com/verily-src/fhirpath-go/internal/verifrt"
)

// C03: calling any table function leaves its input collection, the collections its arguments evaluate to and the
// environment untouched (see verifFunctionsDoNotMutate).
func VerifHarness_C03_FunctionsDoNotMutate() { verifFunctionsDoNotMutate() }

// C03: the collection-shaping functions on three-item inputs with repeated items (an in-place compaction or filter
// only shows when a later item moves over an earlier, different one: [a, a, b]).
func VerifHarness_C03_SetFunctionsDoNotMutate() {
	verifrt.IgnorePanics()
	t := verifFullTable()
	menu := []string{"distinct", "isDistinct", "intersect", "exclude", "where", "select", "tail", "skip", "take", "first", "last", "all", "exists"}
	name := menu[verifrt.Choose("fn", len(menu))]
	verifrt.Tag("fnName", name)
	fn, ok := t[name]
	verifrt.Assume(ok)
	n := verifrt.Choose("nargs", 2)
	verifrt.Assume(fn.MinArity <= n && n <= fn.MaxArity)
	input := make(system.Collection, 0, 4)
	for i := 0; i < 3; i++ {
		input = append(input, system.Integer(verifrt.NondetIntRange("in.i", 0, 1)))
	}
	other := system.Collection{system.Integer(verifrt.NondetIntRange("o.i", 0, 1)), system.Integer(verifrt.NondetIntRange("o.i", 0, 1))}
	ctx := &expr.Context{ExternalConstants: map[string]any{"v": other}}
	var args []expr.Expression
	if n == 1 {
		switch verifrt.Choose("arg", 3) {
		case 0:
			args = append(args, &expr.ExternalConstantExpression{Identifier: "v"})
		case 1:
			args = append(args, &verifStub{r: []system.Collection{
				{system.Boolean(verifrt.NondetBool("crit0"))}, {system.Boolean(verifrt.NondetBool("crit1"))}, {system.Boolean(verifrt.NondetBool("crit2"))}}})
		default:
			args = append(args, &expr.LiteralExpression{Literal: system.Integer(verifrt.NondetIntRange("arg.i", -1, 3))})
		}
	}
	verifrt.ProtectSlice("input", input)
	verifrt.ProtectSlice("env v", other)
	fn.Func(ctx, input, args...)
	verifrt.CheckFrames()
	verifrt.Reach("end")
}

// C03: extension(url) reads the extension list of its input items: the items, their extension lists (every slot, in
// order) and the extensions themselves are what they were, whichever of them match.
func VerifHarness_C03_ExtensionFunctionDoesNotMutate() {
	t := verifFullTable()
	u := verifrt.NondetString("url", 1)
	n := 1 + verifrt.Choose("extensions", 3)
	el := &dtpb.HumanName{}
	for i := 0; i < n; i++ {
		ext := &dtpb.Extension{}
		if verifrt.NondetBool("hasUrl") {
			ext.Url = &dtpb.Uri{Value: verifrt.NondetString("extUrl", 1)}
		}
		el.Extension = append(el.Extension, ext)
	}
	before := make([]*dtpb.Extension, len(el.Extension))
	copy(before, el.Extension)
	verifrt.Protect("element", el)
	_, _ = t["extension"].Func(verifCtx(), system.Collection{el}, &expr.LiteralExpression{Literal: system.String(u)})
	verifrt.CheckFrames()
	same := len(el.Extension) == len(before)
	for i := 0; same && i < len(before); i++ {
		same = el.Extension[i] == before[i]
	}
	verifrt.Assert(same, "the-extension-list-of-the-input-is-what-it-was")
	verifrt.Reach("end")
}
