//go:build verif

package funcs

import (
	dtpb "github.com/google/fhir/go/proto/google/fhir/proto/r4/core/datatypes_go_proto"
	"github.com/verily-src/fhirpath-go/fhirpath/internal/expr"
	"github.com/verily-src/fhirpath-go/fhirpath/system"
	"github.com/verily-src/fhirpath-go/internal/verifrt"
)

func verifSpare(label string, maxItems int) system.Collection {
	n := verifrt.Choose(label+".n", maxItems+1)
	k := verifrt.Choose(label+".spare", verifrt.Bound(2, 3))
	c := make(system.Collection, 0, n+k)
	for i := 0; i < n; i++ {
		switch verifrt.Choose(label+".kind", verifrt.Bound(1, 3)) {
		case 0:
			c = append(c, system.Integer(verifrt.NondetIntRange(label+".i", 0, 2)))
		case 2:
			c = append(c, system.String(verifrt.NondetString(label+".s", 1)))
		default:
			c = append(c, &dtpb.HumanName{Family: &dtpb.String{Value: "x"}})
		}
	}
	return c
}

// C03: calling any table function leaves its input collection, the collections its arguments evaluate to and the
// environment untouched (backing arrays included), and the elements it returns are the input's own nodes.
func verifFunctionsDoNotMutate() {
	verifrt.IgnorePanics()
	t := verifFullTable()
	names := verifNames(t)
	name := names[verifrt.Choose("fn", len(names))]
	verifrt.Tag("fnName", name)
	fn := t[name]
	n := verifrt.Choose("nargs", 4)
	verifrt.Assume(fn.MinArity <= n && n <= fn.MaxArity)
	// the numeric functions read one scalar and build a fresh result (float paths are slow to decide): thorough only
	verifrt.Assume(verifrt.Thorough() || verifKind(name) != "number")
	input := verifSpare("in", verifrt.Bound(2, 3))
	envV := verifSpare("v", verifrt.Bound(1, 2))
	ctx := &expr.Context{ExternalConstants: map[string]any{"v": envV, "e": system.Collection{}}}
	var args []expr.Expression
	for i := 0; i < n; i++ {
		switch verifrt.Choose("arg", 5) {
		case 4: // a criterion whose value differs from item to item
			args = append(args, &verifStub{r: []system.Collection{
				{system.Boolean(verifrt.NondetBool("crit0"))}, {system.Boolean(verifrt.NondetBool("crit1"))}, {system.Boolean(verifrt.NondetBool("crit2"))}}})
		case 0:
			args = append(args, &expr.IdentityExpression{})
		case 1:
			args = append(args, &expr.ExternalConstantExpression{Identifier: "v"})
		case 2:
			args = append(args, &expr.LiteralExpression{Literal: system.Integer(verifrt.NondetIntRange("arg.i", -1, 3))})
		default:
			args = append(args, &expr.LiteralExpression{Literal: system.String(verifrt.NondetString("arg.s", 1))})
		}
	}
	verifrt.ProtectSlice("input", input)
	verifrt.ProtectSlice("env v", envV)
	res, _ := fn.Func(ctx, input, args...)
	for _, item := range res {
		if hn, ok := item.(*dtpb.HumanName); ok {
			own := false
			for _, src := range []system.Collection{input, envV} {
				for _, x := range src {
					if x == any(hn) {
						own = true
					}
				}
			}
			verifrt.Assert(own, "result-elements-are-the-inputs-own-nodes")
		}
	}
	verifrt.CheckFrames()
	verifrt.Reach("end")
}

