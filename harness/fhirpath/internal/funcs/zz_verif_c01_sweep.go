//go:build verif

package funcs

import (
	dtpb "github.com/google/fhir/go/proto/google/fhir/proto/r4/core/datatypes_go_proto"
	"github.com/shopspring/decimal"
	"github.com/verily-src/fhirpath-go/fhirpath/internal/expr"
	"github.com/verily-src/fhirpath-go/fhirpath/system"
	"github.com/verily-src/fhirpath-go/internal/verifrt"
)

// verifAnyForm draws a collection of an arbitrary form: empty; a singleton of every System type with a boundary-rich
// symbolic payload; FHIR primitive elements; a complex element; two items.
func verifAnyForm(label string) system.Collection {
	switch verifrt.Choose(label+".form", 14) {
	case 0:
		return system.Collection{}
	case 13:
		// a Decimal beyond what a float64 holds (+-d e400: +-Inf as a float) or below it (d e-400: 0 as a float); sign and
		// side are choices of the harness, so that each combination is a witness of its own
		e := []int32{400, -400}[verifrt.Choose(label+".hugeOrTiny", 2)]
		m := int64(verifrt.NondetIntRange(label+".hm", 1, 9))
		if verifrt.Choose(label+".hsign", 2) == 1 {
			m = -m
		}
		return system.Collection{system.Decimal(decimal.New(m, e))}
	case 1:
		return system.Collection{system.Integer(verifrt.NondetInt32(label + ".i"))}
	case 2:
		return system.Collection{system.String(verifrt.NondetString(label+".s", verifrt.Bound(2, 4)))}
	case 3:
		return system.Collection{system.Boolean(verifrt.NondetBool(label + ".b"))}
	case 4:
		d := verifrt.NondetDecimal(label+".d", verifrt.Choose(label+".scale", 2))
		c := d.Coefficient()
		verifrt.Assume(c.IsInt64() && c.Int64() > -1000000 && c.Int64() < 1000000)
		return system.Collection{system.Decimal(d)}
	case 5:
		q, err := system.ParseQuantity([]string{"1", "-2.5", "0"}[verifrt.Choose(label+".qv", 3)], []string{"mg", "", "days", "a b"}[verifrt.Choose(label+".qu", 4)])
		verifrt.Assume(err == nil)
		return system.Collection{q}
	case 6:
		p := []dtpb.Date_Precision{dtpb.Date_YEAR, dtpb.Date_MONTH, dtpb.Date_DAY}[verifrt.Choose(label+".dp", 3)]
		d, err := system.DateFromProto(&dtpb.Date{ValueUs: 1000000 * int64(verifrt.NondetIntRange(label+".date.s", 1704067200, 1704067200+400*86400)), Precision: p})
		verifrt.Assume(err == nil)
		return system.Collection{d}
	case 7:
		p := []dtpb.DateTime_Precision{dtpb.DateTime_YEAR, dtpb.DateTime_MONTH, dtpb.DateTime_DAY, dtpb.DateTime_SECOND, dtpb.DateTime_MILLISECOND}[verifrt.Choose(label+".dtp", 5)]
		d, err := system.DateTimeFromProto(&dtpb.DateTime{ValueUs: 1000 * int64(verifrt.NondetIntRange(label+".dt.ms", 1704067200000, 1704067200000+400*86400000)), Precision: p})
		verifrt.Assume(err == nil)
		return system.Collection{d}
	case 8:
		p := []dtpb.Time_Precision{dtpb.Time_SECOND, dtpb.Time_MILLISECOND}[verifrt.Choose(label+".tp", 2)]
		return system.Collection{system.TimeFromProto(&dtpb.Time{ValueUs: 1000 * int64(verifrt.NondetIntRange(label+".t.ms", 0, 86399999)), Precision: p})}
	case 9:
		return system.Collection{&dtpb.Integer{Value: verifrt.NondetInt32(label + ".fi")}}
	case 10:
		return system.Collection{&dtpb.String{Value: verifrt.NondetString(label+".fs", 2)}}
	case 11:
		return system.Collection{&dtpb.HumanName{Family: &dtpb.String{Value: verifrt.NondetString(label+".fam", 1)}}}
	default:
		return system.Collection{system.Integer(verifrt.NondetInt32(label + ".m0")), system.String(verifrt.NondetString(label+".m1", 1))}
	}
}

// verifArgForm: an argument expression of an arbitrary form (boundary integers included).
func verifArgForm(label string) expr.Expression {
	switch verifrt.Choose(label+".form", 6) {
	case 0:
		return &expr.LiteralExpression{}
	case 1:
		return &expr.LiteralExpression{Literal: system.Integer(verifrt.NondetInt32(label + ".i"))}
	case 2:
		return &expr.LiteralExpression{Literal: system.String(verifrt.NondetString(label+".s", 2))}
	case 3:
		return &expr.LiteralExpression{Literal: system.Boolean(verifrt.NondetBool(label + ".b"))}
	case 4:
		return &expr.LiteralExpression{Literal: system.Decimal(decimal.New(int64(verifrt.NondetIntRange(label+".dm", -1000, 1000)), -1))}
	default:
		return verifConst(system.Collection{system.Integer(1), system.Integer(2)})
	}
}

// C01: every table entry, for every argument count its bounds accept (what Compile lets through), with the receiver
// and the arguments ranging over every form: the call returns a collection or an error - no run-time panic.
// The obligations are the implicit ones (bounds, nil, division, type assertion, explicit panic, callee contracts).
func verifFunctionSweep(group int) {
	t := verifFullTable()
	names := verifNames(t)
	const groups = 6
	k := verifrt.Choose("fn", (len(names)+groups-1)/groups)*groups + group
	verifrt.Assume(k < len(names))
	name := names[k]
	verifrt.Tag("fnName", name)
	fn := t[name]
	n := verifrt.Choose("nargs", 4)
	verifrt.Assume(fn.MinArity <= n && n <= fn.MaxArity)
	recv := verifAnyForm("recv")
	var args []expr.Expression
	for i := 0; i < n; i++ {
		args = append(args, verifArgForm("arg"))
	}
	res, err := fn.Func(verifCtx(), recv, args...)
	verifrt.Assert(err != nil || res != nil || len(res) == 0, "returns-a-collection-or-an-error")
	verifrt.Reach("end")
}

func VerifHarness_C01_Functions_G0() { verifFunctionSweep(0) }
func VerifHarness_C01_Functions_G1() { verifFunctionSweep(1) }
func VerifHarness_C01_Functions_G2() { verifFunctionSweep(2) }
func VerifHarness_C01_Functions_G3() { verifFunctionSweep(3) }
func VerifHarness_C01_Functions_G4() { verifFunctionSweep(4) }
func VerifHarness_C01_Functions_G5() { verifFunctionSweep(5) }
