//go:build verif

package funcs

import (
	"github.com/verily-src/fhirpath-go/fhirpath/internal/expr"
	"github.com/verily-src/fhirpath-go/fhirpath/system"
	"github.com/verily-src/fhirpath-go/internal/verifrt"
)

// documented aggregates: an empty input is meaningful for them (C07 statement)
var verifAggregates = map[string]bool{
	"exists": true, "empty": true, "count": true, "all": true, "allTrue": true, "anyTrue": true, "allFalse": true, "anyFalse": true,
	"isDistinct": true, "iif": true, "now": true, "today": true, "timeOfDay": true,
}

// functions whose argument is a collection (an empty argument is a legitimate operand, not a missing single value)
var verifCollectionArg = map[string]bool{
	"intersect": true, "exclude": true, "union": true, "combine": true, "subsetOf": true, "supersetOf": true,
	"where": true, "select": true, "all": true, "exists": true, "repeat": true, "iif": true, "trace": true,
}

// verifEmptyExpr supplies the empty collection three ways: literal {}, a stub that evaluates to empty, an empty environment variable.
func verifEmptyExpr(ctx *expr.Context) expr.Expression {
	switch verifrt.Choose("emptyHow", 3) {
	case 0:
		return &expr.LiteralExpression{}
	case 1:
		return verifConst(system.Collection{})
	default:
		ctx.ExternalConstants["e"] = system.Collection{}
		return &expr.ExternalConstantExpression{Identifier: "e"}
	}
}

// C07: every implemented function other than the documented aggregates yields empty (no error, no value) on an empty input,
// for every argument count its table bounds accept.
func VerifHarness_C07_EmptyReceiver() {
	t := verifFullTable()
	names := verifNames(t)
	name := names[verifrt.Choose("fn", len(names))]
	verifrt.Tag("fnName", name)
	verifrt.Assume(!verifAggregates[name] && !verifUnimplemented[name])
	fn := t[name]
	n := verifrt.Choose("nargs", 5)
	verifrt.Assume(fn.MinArity <= n && n <= fn.MaxArity)
	var args []expr.Expression
	for i := 0; i < n; i++ {
		args = append(args, verifArgFor(name, i))
	}
	var input system.Collection
	if verifrt.NondetBool("nilInput") {
		input = nil
	} else {
		input = system.Collection{}
	}
	res, err := fn.Func(verifCtx(), input, args...)
	verifrt.Assert(err == nil && len(res) == 0, "empty-input-yields-empty")
	verifrt.Reach("end")
}

// C07: an empty argument where a single value is required yields empty or an error, never a fabricated value.
func VerifHarness_C07_EmptyArgument() {
	t := verifFullTable()
	names := verifNames(t)
	name := names[verifrt.Choose("fn", len(names))]
	verifrt.Tag("fnName", name)
	verifrt.Assume(!verifCollectionArg[name] && !verifUnimplemented[name])
	fn := t[name]
	n := 1 + verifrt.Choose("nargs", 3)
	verifrt.Assume(fn.MinArity <= n && n <= fn.MaxArity)
	pos := verifrt.Choose("emptyPos", 3)
	verifrt.Assume(pos < n)
	ctx := verifCtx()
	var args []expr.Expression
	for i := 0; i < n; i++ {
		if i == pos {
			args = append(args, verifEmptyExpr(ctx))
		} else {
			args = append(args, verifArgFor(name, i))
		}
	}
	res, err := fn.Func(ctx, verifReceiverFor(name), args...)
	verifrt.Assert(err != nil || len(res) == 0, "empty-argument-yields-empty-or-error")
	verifrt.Reach("end")
}
