//go:build verif

package funcs

import (
	dtpb "github.com/google/fhir/go/proto/google/fhir/proto/r4/core/datatypes_go_proto"
	"github.com/verily-src/fhirpath-go/fhirpath/system"
	"github.com/verily-src/fhirpath-go/internal/verifrt"
)

// C02: children() of a datatype yields exactly its populated child elements (each once, the element's own nodes),
// descendants() those and theirs; primitives have no children.
func VerifHarness_C02_ChildrenAndDescendants() {
	t := verifFullTable()
	n := &dtpb.HumanName{}
	var kids, grand []any
	if verifrt.NondetBool("hasFamily") {
		n.Family = &dtpb.String{Value: "f"}
		kids = append(kids, n.Family)
	}
	ng := verifrt.Choose("givens", 3)
	for i := 0; i < ng; i++ {
		g := &dtpb.String{Value: "g"}
		n.Given = append(n.Given, g)
		kids = append(kids, g)
	}
	if verifrt.NondetBool("hasPeriod") {
		n.Period = &dtpb.Period{}
		kids = append(kids, n.Period)
		if verifrt.NondetBool("hasStart") {
			n.Period.Start = &dtpb.DateTime{ValueUs: 1709164800000000, Precision: dtpb.DateTime_DAY}
			grand = append(grand, n.Period.Start)
		}
	}
	got, err := t["children"].Func(verifCtx(), system.Collection{n})
	ok := err == nil && len(got) == len(kids)
	for _, k := range kids {
		found := 0
		for _, g := range got {
			if g == k {
				found++
			}
		}
		ok = ok && found == 1
	}
	verifrt.Assert(ok, "children-are-exactly-the-populated-child-elements")
	all, err2 := t["descendants"].Func(verifCtx(), system.Collection{n})
	verifrt.Assert(err2 == nil && len(all) == len(kids)+len(grand), "descendants-are-children-and-theirs")
	none, err3 := t["children"].Func(verifCtx(), system.Collection{&dtpb.String{Value: "x"}})
	verifrt.Assert(err3 == nil && len(none) == 0, "primitives-have-no-children")
	verifrt.Reach("end")
}

// C02: descendants() of an element that holds a narrative - every resource may - yields the narrative's status and
// div: xhtml is a primitive like the others, its value the text of the div.
func VerifHarness_C02_DescendantsOfANarrative() {
	t := verifFullTable()
	div := &dtpb.Xhtml{Value: "<div>" + verifrt.NondetString("text", 1) + "</div>"}
	narrative := &dtpb.Narrative{Div: div}
	got, err := t["children"].Func(verifCtx(), system.Collection{narrative})
	verifrt.Assert(err == nil && len(got) == 1 && got[0] == any(div), "the-div-is-the-child-of-the-narrative")
	all, err2 := t["descendants"].Func(verifCtx(), system.Collection{narrative})
	verifrt.Assert(err2 == nil && len(all) == 1, "descendants-of-a-narrative-are-its-div")
	v, err3 := system.From(div)
	verifrt.Assert(err3 == nil && v == system.String(div.Value), "the-value-of-xhtml-is-its-text")
	verifrt.Reach("end")
}
