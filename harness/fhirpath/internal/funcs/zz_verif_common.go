//go:build verif

package funcs

import (
	dtpb "github.com/google/fhir/go/proto/google/fhir/proto/r4/core/datatypes_go_proto"
	"github.com/verily-src/fhirpath-go/fhirpath/internal/expr"
	"github.com/verily-src/fhirpath-go/fhirpath/system"
	"github.com/verily-src/fhirpath-go/internal/verifrt"
)

type verifStub struct {
	r     []system.Collection
	calls int
}

func (s *verifStub) Evaluate(*expr.Context, system.Collection) (system.Collection, error) {
	k := s.calls
	s.calls++
	if k >= len(s.r) {
		return system.Collection{}, nil
	}
	return s.r[k], nil
}

func verifConst(c system.Collection) expr.Expression {
	return &verifStub{r: []system.Collection{c, c, c, c, c, c}}
}

func verifCtx() *expr.Context { return &expr.Context{ExternalConstants: map[string]any{}} }

// verifNames returns the table's names in sorted order (so that a Choose index is stable).
func verifNames(t FunctionTable) []string {
	var names []string
	for k := range t {
		names = append(names, k)
	}
	verifrt.SortStrings(names)
	return names
}

// verifFullTable is the base table plus the experimental functions (what WithExperimentalFuncs gives).
func verifFullTable() FunctionTable {
	return AddExperimentalFuncs(Clone())
}

// N1 specification: name -> allowed argument counts (DESIGN.md Appendix A).
var verifSpecArity = map[string][]int{
	"empty": {0}, "exists": {0, 1}, "all": {1}, "allTrue": {0}, "anyTrue": {0}, "allFalse": {0}, "anyFalse": {0},
	"subsetOf": {1}, "supersetOf": {1}, "count": {0}, "distinct": {0}, "isDistinct": {0},
	"where": {1}, "select": {1}, "repeat": {1}, "ofType": {1}, "is": {1}, "as": {1},
	"single": {0}, "first": {0}, "last": {0}, "tail": {0}, "skip": {1}, "take": {1}, "intersect": {1}, "exclude": {1},
	"union": {1}, "combine": {1},
	"iif": {2, 3}, "toBoolean": {0}, "convertsToBoolean": {0}, "toInteger": {0}, "convertsToInteger": {0}, "toDate": {0}, "convertsToDate": {0},
	"toDateTime": {0}, "convertsToDateTime": {0}, "toDecimal": {0}, "convertsToDecimal": {0}, "toQuantity": {0, 1}, "convertsToQuantity": {0, 1},
	"toString": {0}, "convertsToString": {0}, "toTime": {0}, "convertsToTime": {0},
	"indexOf": {1}, "substring": {1, 2}, "startsWith": {1}, "endsWith": {1}, "contains": {1}, "upper": {0}, "lower": {0}, "replace": {2},
	"matches": {1}, "replaceMatches": {2}, "length": {0}, "toChars": {0},
	"abs": {0}, "ceiling": {0}, "exp": {0}, "floor": {0}, "ln": {0}, "log": {1}, "power": {1}, "round": {0, 1}, "sqrt": {0}, "truncate": {0},
	"children": {0}, "descendants": {0}, "trace": {1, 2}, "now": {0}, "timeOfDay": {0}, "today": {0}, "not": {0},
	"extension": {1}, "join": {0, 1},
}

// names the specification lists but the implementation documents as not implemented
var verifUnimplemented = map[string]bool{
	"subsetOf": true, "supersetOf": true, "repeat": true, "ofType": true, "single": true, "union": true, "combine": true, "trace": true,
	"is": true, "as": true, // the function forms of the type operators (section 6.3)
}

// verifReceiver draws a non-empty singleton receiver the named function accepts, and well-typed arguments.
// kind: "string", "number", "any".
func verifKind(name string) string {
	switch name {
	case "indexOf", "substring", "startsWith", "endsWith", "contains", "upper", "lower", "replace", "matches", "replaceMatches", "length", "toChars":
		return "string"
	case "abs", "ceiling", "exp", "floor", "ln", "log", "power", "round", "sqrt", "truncate":
		return "number"
	}
	return "any"
}

func verifReceiverFor(name string) system.Collection {
	switch verifKind(name) {
	case "string":
		return system.Collection{system.String(verifrt.NondetString("recv.s", 2))}
	case "number":
		return system.Collection{system.Integer(verifrt.NondetIntRange("recv.i", 1, 100))}
	}
	// every kind of single item a function can be applied to (a conversion dispatches on it, and may hand its
	// arguments on to another function of a different arity)
	switch verifrt.Choose("recv.kind", 8) {
	case 0:
		return system.Collection{system.Integer(verifrt.NondetIntRange("recv.i", 0, 3))}
	case 1:
		return system.Collection{system.String(verifrt.NondetString("recv.s", 1))}
	case 3:
		return system.Collection{system.Boolean(verifrt.NondetBool("recv.b"))}
	case 4:
		return system.Collection{&dtpb.Boolean{Value: verifrt.NondetBool("recv.fb")}}
	case 5:
		return system.Collection{system.MustParseDecimal("1.5")}
	case 6:
		return system.Collection{system.MustParseQuantity("2", "mg")}
	case 7:
		return system.Collection{system.MustParseDate("2020-02-03")}
	default:
		return system.Collection{&dtpb.HumanName{Family: &dtpb.String{Value: verifrt.NondetString("recv.fam", 1)}}}
	}
}

// verifArgFor returns a well-typed argument expression for position i of the named function.
func verifArgFor(name string, i int) expr.Expression {
	switch name {
	case "indexOf", "startsWith", "endsWith", "contains", "replace", "extension", "join", "toQuantity", "convertsToQuantity", "trace":
		return &expr.LiteralExpression{Literal: system.String(verifrt.NondetString("arg.s", 1))}
	case "matches", "replaceMatches":
		if i == 0 {
			return &expr.LiteralExpression{Literal: system.String("a")}
		}
		return &expr.LiteralExpression{Literal: system.String(verifrt.NondetString("arg.s", 1))}
	case "substring", "skip", "take", "round", "log", "power":
		return &expr.LiteralExpression{Literal: system.Integer(verifrt.NondetIntRange("arg.i", 0, 3))}
	case "where", "all", "exists", "iif", "repeat", "select":
		return verifConst(system.Collection{system.Boolean(verifrt.NondetBool("arg.b"))})
	}
	return verifConst(system.Collection{system.Integer(verifrt.NondetIntRange("arg.i", 0, 3))})
}
