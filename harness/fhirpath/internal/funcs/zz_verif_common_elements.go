//go:build verif

package funcs

import (
	dtpb "github.com/google/fhir/go/proto/google/fhir/proto/r4/core/datatypes_go_proto"
	"github.com/verily-src/fhirpath-go/internal/verifrt"
)

// verifInstantUs: an instant in 2024 (symbolic in the thorough tier, one of two days in the quick tier).
func verifInstantUs(label string) int64 {
	if verifrt.Thorough() {
		return int64(verifrt.NondetIntRange(label, 1704067200, 1704067200+400*86400)) * 1000000
	}
	return []int64{1704067200, 1709164800 + 86399}[verifrt.Choose(label, 2)] * 1000000
}

// verifFhirElement draws a FHIR primitive or Quantity element the way a resource may carry it: optional parts absent,
// text fields arbitrary (a FHIR Quantity need not have a value; a decimal is text; a date carries a zone name).
func verifFhirElement(label string) any {
	switch verifrt.Choose(label+".element", 8) {
	case 0:
		q := &dtpb.Quantity{}
		if verifrt.NondetBool(label + ".hasValue") {
			q.Value = &dtpb.Decimal{Value: verifrt.NondetString(label+".qv", verifrt.Bound(1, 2))}
		}
		if verifrt.NondetBool(label + ".hasCode") {
			q.Code = &dtpb.Code{Value: []string{"mg", "", "a"}[verifrt.Choose(label+".code", 3)]}
		}
		if verifrt.NondetBool(label + ".hasUnit") {
			q.Unit = &dtpb.String{Value: "mg"}
		}
		return q
	case 1:
		return &dtpb.Decimal{Value: verifrt.NondetString(label+".dv", verifrt.Bound(2, 3))}
	case 2:
		return &dtpb.Date{ValueUs: verifInstantUs(label+".date.s"),
			Timezone:  []string{"", "Z", "+05:00", "x", "UTC"}[verifrt.Choose(label+".tz", 5)],
			Precision: dtpb.Date_Precision(verifrt.Choose(label+".dp", 4))}
	case 3:
		return &dtpb.DateTime{ValueUs: verifInstantUs(label+".dt.s"),
			Timezone:  []string{"", "Z", "-08:00", "?"}[verifrt.Choose(label+".tz", 4)],
			Precision: dtpb.DateTime_Precision(verifrt.Choose(label+".dtp", 7))}
	case 4:
		return &dtpb.Time{ValueUs: int64(verifrt.NondetInt32(label+".t.us")) * 1000, Precision: dtpb.Time_Precision(verifrt.Choose(label+".tp", 4))}
	case 5:
		return &dtpb.Instant{ValueUs: verifInstantUs(label+".in.s"),
			Timezone: []string{"", "Z", "+05:30"}[verifrt.Choose(label+".tz", 3)], Precision: dtpb.Instant_Precision(verifrt.Choose(label+".ip", 4))}
	case 6:
		return &dtpb.UnsignedInt{Value: verifrt.NondetUint32(label + ".ui")}
	default:
		return &dtpb.Base64Binary{Value: []byte{0xfb, 0xff, 0x01}}
	}
}

