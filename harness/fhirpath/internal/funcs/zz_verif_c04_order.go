//go:build verif

package funcs

import (
	dtpb "github.com/google/fhir/go/proto/google/fhir/proto/r4/core/datatypes_go_proto"
	"github.com/verily-src/fhirpath-go/fhirpath/internal/expr"
	"github.com/verily-src/fhirpath-go/fhirpath/system"
	"github.com/verily-src/fhirpath-go/internal/verifrt"
)

// C04: the result of a collection function is a function of its input only - also its *order*: evaluating the same
// call twice gives the same items in the same order, for long collections of strings (System strings or FHIR string
// and code elements) too. Go leaves the iteration order of maps unspecified: with NondetMapOrder every range over a
// map in the code under test takes an arbitrary one of two orders, so a result assembled by ranging over a map
// differs between the two evaluations for some choice.
func VerifHarness_C04_CollectionFunctionsAreRepeatable() {
	verifrt.NondetMapOrder()
	n := []int{3, 33, 40}[verifrt.Choose("n", 3)]
	kind := verifrt.Choose("kind", 3)
	var input system.Collection
	for i := 0; i < n; i++ {
		text := string([]byte{'s', byte('a' + i/26), byte('a' + i%26)})
		if i%7 == 6 {
			text = "saa" // a duplicate now and then
		}
		switch kind {
		case 0:
			input = append(input, system.String(text))
		case 1:
			input = append(input, &dtpb.String{Value: text})
		default:
			input = append(input, &dtpb.Code{Value: text})
		}
	}
	t := verifFullTable()
	name := []string{"distinct", "isDistinct", "intersect", "exclude", "tail", "descendants"}[verifrt.Choose("fn", 6)]
	var args []expr.Expression
	if name == "intersect" || name == "exclude" {
		args = []expr.Expression{verifConst(input[:n/2])}
	}
	r1, e1 := t[name].Func(verifCtx(), input, args...)
	r2, e2 := t[name].Func(verifCtx(), input, args...)
	same := (e1 == nil) == (e2 == nil) && len(r1) == len(r2)
	for i := 0; same && i < len(r1); i++ {
		same = r1[i] == r2[i]
	}
	verifrt.Assert(same, "two-evaluations-give-the-same-items-in-the-same-order")
	verifrt.Reach("end")
}
