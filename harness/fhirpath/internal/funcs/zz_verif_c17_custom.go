//go:build verif

package funcs

import (
	dtpb "github.com/google/fhir/go/proto/google/fhir/proto/r4/core/datatypes_go_proto"
	"errors"

	"github.com/verily-src/fhirpath-go/fhirpath/internal/expr"
	"github.com/verily-src/fhirpath-go/fhirpath/internal/funcs/impl"
	"github.com/verily-src/fhirpath-go/fhirpath/system"
	"github.com/verily-src/fhirpath-go/internal/verifrt"
)

var verifCustomErr = errors.New("custom failure")

type verifErrT struct{}

func (*verifErrT) Error() string { return "verifErrT" }

// C17: custom functions. A fixed menu of Go functions registered through FunctionTable.Register:
// bad signatures and existing names are rejected and leave the table unchanged; the wrapper checks the argument
// count and the dynamic argument types, passes the input collection and the single-item arguments, and returns the
// callee's collection / error unchanged.
func VerifHarness_C17_CustomFunctions() {
	t := Clone()
	before := len(t)
	name := []string{"myFn", "count", "where", "x"}[verifrt.Choose("name", 4)]
	_, exists := t[name]
	var fn any
	goodSig := false
	kind := verifrt.Choose("fn", 12)
	tag := verifrt.NondetInt32("tag")
	var seenIn system.Collection
	var seenArg system.String
	switch kind {
	case 0: // well-typed, one typed argument
		fn = func(in system.Collection, s system.String) (system.Collection, error) {
			seenIn, seenArg = in, s
			return system.Collection{system.Integer(tag)}, nil
		}
		goodSig = true
	case 1: // well-typed, returns an error
		fn = func(in system.Collection, s system.String) (system.Collection, error) {
			return nil, verifCustomErr
		}
		goodSig = true
	case 2: // wrong first parameter
		fn = func(x int) (system.Collection, error) { return nil, nil }
	case 3: // wrong results
		fn = func(in system.Collection) system.Collection { return in }
	case 4: // no parameters at all
		fn = func() (system.Collection, error) { return nil, nil }
	case 6: // a nil function value of a good type: it could be registered but never called
		var nilFn func(system.Collection, system.String) (system.Collection, error)
		fn = nilFn
	case 7: // a variadic parameter list is not a fixed one
		fn = func(in system.Collection, ss ...system.String) (system.Collection, error) { return in, nil }
	case 8: // the second result is a concrete type that implements error, not the error interface: a nil *verifErrT
		// returned on success would turn into a non-nil error
		fn = func(in system.Collection, s system.String) (system.Collection, *verifErrT) { return in, nil }
	case 10: // a parameter of a type that no item has: the function could be registered but every call would fail
		fn = func(in system.Collection, n int) (system.Collection, error) { return in, nil }
	case 9: // the second result is not an error at all
		fn = func(in system.Collection, s system.String) (system.Collection, bool) { return in, true }
	case 11: // the second result is a type that is merely *called* error (what it returns would be dropped)
		fn = verifFuncWithATypeCalledError()
	default: // not a function
		fn = 42
	}
	err := t.Register(name, fn)
	if exists || !goodSig {
		verifrt.Assert(err != nil, "bad-signature-or-existing-name-is-rejected")
		verifrt.Assert(len(t) == before, "rejected-registration-leaves-the-table-unchanged")
		if exists {
			verifrt.Assert(len(baseTable) == before, "built-in-table-is-not-altered")
		}
		verifrt.Reach("rejected")
		return
	}
	verifrt.Assert(err == nil && len(t) == before+1, "good-function-is-registered")
	if err != nil {
		return
	}
	_, leaked := baseTable[name]
	verifrt.Assert(!leaked, "registered-function-exists-only-in-this-table")
	f := t[name]
	verifrt.Assert(f.MinArity == 1 && f.MaxArity == 1, "arity-is-the-parameter-count-minus-the-input")
	input := system.Collection{system.Integer(verifrt.NondetInt32("in"))}
	// argument forms: 0 a String (well-typed), 1 an Integer (wrong type), 2 empty, 3 two items, 4 no argument at all,
	// 5 a nil item (what another custom function may return: collections are passed through unchanged)
	var args []expr.Expression
	argS := system.String(verifrt.NondetString("arg", 2))
	form := verifrt.Choose("argForm", 6)
	switch form {
	case 0:
		args = []expr.Expression{&expr.LiteralExpression{Literal: argS}}
	case 1:
		args = []expr.Expression{&expr.LiteralExpression{Literal: system.Integer(1)}}
	case 2:
		args = []expr.Expression{&expr.LiteralExpression{}}
	case 3:
		args = []expr.Expression{verifConst(system.Collection{argS, argS})}
	case 5:
		args = []expr.Expression{verifConst(system.Collection{nil})}
	}
	res, cerr := f.Func(verifCtx(), input, args...)
	switch {
	case form == 4:
		verifrt.Assert(errors.Is(cerr, impl.ErrWrongArity), "wrong-argument-count-is-an-arity-error")
	case form != 0:
		verifrt.Assert(cerr != nil && !errors.Is(cerr, verifCustomErr), "ill-typed-or-non-singleton-argument-is-rejected-before-the-call")
	case kind == 0:
		ok := cerr == nil && len(res) == 1 && res[0] == system.Integer(tag)
		verifrt.Assert(ok, "result-collection-is-passed-through")
		verifrt.Assert(len(seenIn) == 1 && seenIn[0] == input[0] && seenArg == argS, "callee-receives-the-input-collection-and-the-argument")
	default:
		verifrt.Assert(errors.Is(cerr, verifCustomErr), "callee-error-is-passed-through")
	}
	verifrt.Reach("end")
}

// C17: each invocation of a custom function receives the current input collection and its own evaluated arguments,
// also when invocations of the same function are nested or follow one another (see verifCustomFunctionIsReentrant).
func VerifHarness_C17_CustomFunctionInvocationsAreIndependent() { verifCustomFunctionIsReentrant() }

// C17: a custom function is invoked with its evaluated arguments - the very items the argument expressions yield: a
// FHIR element arrives as that element (same node: its id and extensions are the caller's to read), whether the
// parameter is declared as the element type or as an open interface, and a System value as that value.
func VerifHarness_C17_ArgumentsArriveAsEvaluated() {
	t := Clone()
	el := &dtpb.String{Value: verifrt.NondetString("text", 1), Id: &dtpb.String{Value: "e1"}}
	var seen any
	var fn any
	switch verifrt.Choose("param", 3) {
	case 0:
		fn = func(in system.Collection, s *dtpb.String) (system.Collection, error) { seen = s; return in, nil }
	case 1:
		fn = func(in system.Collection, a any) (system.Collection, error) { seen = a; return in, nil }
	default:
		fn = func(in system.Collection, a system.Any) (system.Collection, error) { seen = a; return in, nil }
	}
	verifrt.Assert(t.Register("probe", fn) == nil, "well-formed-function-is-registered")
	var arg any = el
	if verifrt.NondetBool("systemArgument") {
		arg = system.String(el.Value)
	}
	_, err := t["probe"].Func(verifCtx(), system.Collection{}, verifConst(system.Collection{arg}))
	_, isElement := arg.(*dtpb.String)
	if err == nil {
		verifrt.Assert(seen == arg, "the-callee-receives-the-evaluated-argument-itself")
	} else {
		// only a declared type that the item does not have may refuse it: *dtpb.String refuses a System String,
		// system.Any refuses an element
		verifrt.Assert(seen == nil, "a-refused-call-does-not-reach-the-callee")
		_ = isElement
	}
	verifrt.Reach("end")
}

// C17: a variable supplied through options evaluates to exactly the supplied value - also after a collection function
// was applied to it: %v.distinct() and its relatives work on %v's items, they do not rearrange the variable.
func VerifHarness_C17_VariableKeepsItsValueAfterUse() {
	verifrt.IgnorePanics()
	t := verifFullTable()
	menu := []string{"distinct", "isDistinct", "intersect", "exclude", "tail", "skip", "take", "first", "last"}
	name := menu[verifrt.Choose("fn", len(menu))]
	verifrt.Tag("fnName", name)
	fn, ok := t[name]
	verifrt.Assume(ok)
	supplied := make(system.Collection, 0, 4)
	for i := 0; i < 3; i++ {
		supplied = append(supplied, system.Integer(verifrt.NondetIntRange("v.i", 0, 1)))
	}
	saved := append(system.Collection{}, supplied...)
	ctx := &expr.Context{ExternalConstants: map[string]any{"v": supplied}}
	variable := &expr.ExternalConstantExpression{Identifier: "v"}
	input, err := variable.Evaluate(ctx, system.Collection{})
	verifrt.Assert(err == nil, "supplied-variable-evaluates")
	var args []expr.Expression
	if fn.MinArity >= 1 {
		args = append(args, &expr.LiteralExpression{Literal: system.Integer(verifrt.NondetIntRange("arg.i", 0, 1))})
	}
	fn.Func(ctx, input, args...)
	again, err := variable.Evaluate(ctx, system.Collection{})
	same := err == nil && len(again) == len(saved)
	for i := 0; same && i < len(saved); i++ {
		same = again[i] == saved[i]
	}
	verifrt.Assert(same, "variable-evaluates-to-the-supplied-value-after-use")
	verifrt.Reach("end")
}

// verifFuncWithATypeCalledError: inside this function `error` is a local struct type, not the predeclared interface.
func verifFuncWithATypeCalledError() any {
	type error struct{ msg string }
	return func(in system.Collection, s system.String) (system.Collection, error) { return in, error{"dropped"} }
}

// C17: a custom function that Compile accepted is the function that is invoked - enabling the experimental functions
// afterwards does not replace it (a name that is taken stays taken), and its result is passed through unchanged.
func VerifHarness_C17_AcceptedFunctionIsTheOneInvoked() {
	t := Clone()
	name := []string{"join", "probe"}[verifrt.Choose("name", 2)]
	tag := verifrt.NondetInt32("tag")
	calls := 0
	err := t.Register(name, func(in system.Collection, a, b system.String) (system.Collection, error) {
		calls++
		return system.Collection{system.Integer(tag)}, nil
	})
	verifrt.Assert(err == nil, "a-name-not-in-the-base-table-is-free")
	if verifrt.NondetBool("experimentalAfterwards") {
		t = AddExperimentalFuncs(t)
	}
	f, ok := t[name]
	verifrt.Assert(ok && f.MinArity == 2 && f.MaxArity == 2, "arity-is-the-one-declared")
	out, err := f.Func(verifCtx(), system.Collection{}, &expr.LiteralExpression{Literal: system.String("a")}, &expr.LiteralExpression{Literal: system.String("b")})
	verifrt.Assert(err == nil && calls == 1 && len(out) == 1 && out[0] == system.Integer(tag), "the-accepted-function-is-invoked-and-its-result-passed-through")
	verifrt.Reach("end")
}
