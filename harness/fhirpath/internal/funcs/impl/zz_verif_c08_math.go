//go:build verif

package impl

import (
	dtpb "github.com/google/fhir/go/proto/google/fhir/proto/r4/core/datatypes_go_proto"
	"math"
	"math/big"

	"github.com/shopspring/decimal"
	"github.com/verily-src/fhirpath-go/fhirpath/system"
	"github.com/verily-src/fhirpath-go/internal/verifrt"
)

func verifPow10(k int) *big.Int { return new(big.Int).Exp(big.NewInt(10), big.NewInt(int64(k)), nil) }

// verifDecIs: d denotes exactly n*10^-k.
func verifDecIs(d decimal.Decimal, n *big.Int, k int) bool {
	e := int(d.Exponent())
	c := d.Coefficient()
	// c*10^e == n*10^-k
	if e >= -k {
		return new(big.Int).Mul(c, verifPow10(e+k)).Cmp(n) == 0
	}
	return c.Cmp(new(big.Int).Mul(n, verifPow10(-k-e))) == 0
}

// (scale, digits) menus: the value is n*10^-scale with |n| < 10^digits. The pairs are chosen so that the int32 boundary
// (scales 0..2), magnitudes beyond 2^64 (scale 1 with 22 digits: 64-bit wrap-around of the integral part), values with more
// than 17 significant digits next to an integer (scales 17, 20) and tiny values occur.
var verifMathShapesQuick = [][2]int{{0, 11}, {1, 12}, {1, 22}, {17, 19}, {20, 21}}
var verifMathShapesThorough = [][2]int{{0, 11}, {0, 25}, {1, 12}, {2, 18}, {9, 20}, {17, 19}, {20, 21}, {20, 30}}

func verifMathOperand() (in system.Collection, n *big.Int, k int) {
	shapes := verifMathShapesQuick
	if verifrt.Thorough() {
		shapes = verifMathShapesThorough
	}
	if verifrt.NondetBool("isInteger") {
		i := verifrt.NondetInt32("i")
		if verifrt.NondetBool("element") {
			return system.Collection{&dtpb.Integer{Value: i}}, big.NewInt(int64(i)), 0
		}
		return system.Collection{system.Integer(i)}, big.NewInt(int64(i)), 0
	}
	if verifrt.NondetBool("element") {
		// a FHIR decimal element (a Quantity's value reached by navigation) carries its digits as text: an integral
		// part next to the 32-bit limits or small, and eleven arbitrary decimal places - with the larger integral parts more digits than a float64 holds
		const places = 11
		sign := []string{"", "-"}[verifrt.Choose("el.sign", 2)]
		whole := []string{"0", "41", "2147483646", "2147483647", "2147483648"}[verifrt.Choose("el.whole", 5)]
		frac := verifrt.NondetStringN("el.frac", places)
		n, _ := new(big.Int).SetString(whole, 10)
		for i := 0; i < places; i++ {
			verifrt.Assume(frac[i] >= '0' && frac[i] <= '9')
			n = new(big.Int).Add(new(big.Int).Mul(n, big.NewInt(10)), big.NewInt(int64(frac[i]-'0')))
		}
		if sign == "-" {
			n = new(big.Int).Neg(n)
		}
		return system.Collection{&dtpb.Decimal{Value: sign + whole + "." + frac}}, n, places
	}
	sh := shapes[verifrt.Choose("shape", len(shapes))]
	d := verifrt.NondetDecimalDigits("d", sh[0], sh[1])
	return system.Collection{system.Decimal(d)}, d.Coefficient(), sh[0]
}

// verifIntegral checks a floor/ceiling/truncate result against the exact integer want.
func verifIntegral(res system.Collection, err error, want *big.Int, label string) {
	if !want.IsInt64() || want.Int64() < math.MinInt32 || want.Int64() > math.MaxInt32 {
		verifrt.Assert(err != nil || len(res) == 0, label+"-unrepresentable-is-not-a-number")
		return
	}
	ok := err == nil && len(res) == 1
	if ok {
		r, isInt := res[0].(system.Integer)
		ok = isInt && int64(r) == want.Int64()
	}
	verifrt.Assert(ok, label+"-agrees-with-exact-decimal-arithmetic")
}

// C08-A6: floor, ceiling, truncate on Integer and Decimal inputs against exact integer arithmetic on the mantissa.
func verifRounding(fn int) {
	verifrt.ExactFloat()
	in, n, k := verifMathOperand()
	q, r := new(big.Int).QuoRem(n, verifPow10(k), new(big.Int)) // truncated quotient and remainder
	switch fn {
	case 0:
		res, err := Floor(verifCtx(), in)
		if r.Sign() < 0 {
			q = new(big.Int).Sub(q, big.NewInt(1))
		}
		verifIntegral(res, err, q, "floor")
	case 1:
		res, err := Ceiling(verifCtx(), in)
		if r.Sign() > 0 {
			q = new(big.Int).Add(q, big.NewInt(1))
		}
		verifIntegral(res, err, q, "ceiling")
	default:
		res, err := Truncate(verifCtx(), in)
		verifIntegral(res, err, q, "truncate")
	}
	verifrt.Reach("end")
}

func VerifHarness_C08_Floor()    { verifRounding(0) }
func VerifHarness_C08_Ceiling()  { verifRounding(1) }
func VerifHarness_C08_Truncate() { verifRounding(2) }

// C08-A7: abs() is exact on Decimals and Integers; |MinInt32| is empty.
func VerifHarness_C08_Abs() {
	verifrt.ExactFloat()
	if verifrt.NondetBool("quantity") {
		// a Quantity: abs() keeps the unit and every digit (seven decimal places here; the old code kept six)
		d := verifrt.NondetDecimalDigits("q", 7, verifrt.Bound(3, 9))
		unit := []string{"mg", "1", "year"}[verifrt.Choose("unit", 3)]
		q, err := system.ParseQuantity(d.String(), unit)
		verifrt.Assume(err == nil)
		res, err := Abs(verifCtx(), system.Collection{q})
		wantQ, err2 := system.ParseQuantity(d.Abs().String(), unit)
		verifrt.Assume(err2 == nil)
		ok := err == nil && len(res) == 1
		if ok {
			eq, has := system.TryEqual(res[0].(system.Any), wantQ)
			ok = eq && has
		}
		verifrt.Assert(ok, "abs-quantity-exact-and-keeps-the-unit")
		verifrt.Reach("end")
		return
	}
	in, n, k := verifMathOperand()
	want := new(big.Int).Abs(n)
	res, err := Abs(verifCtx(), in)
	i, isInt := in[0].(system.Integer)
	if el, isEl := in[0].(*dtpb.Integer); isEl {
		i, isInt = system.Integer(el.Value), true // an integer element is an Integer
	}
	if isInt {
		if i == math.MinInt32 {
			verifrt.Assert(err != nil || len(res) == 0, "abs-of-min-integer-is-not-a-number")
		} else {
			ok := err == nil && len(res) == 1
			if ok {
				r, isI := res[0].(system.Integer)
				ok = isI && int64(r) == want.Int64()
			}
			verifrt.Assert(ok, "abs-integer-exact")
		}
	} else {
		ok := err == nil && len(res) == 1
		if ok {
			d, isDec := res[0].(system.Decimal)
			ok = isDec && verifDecIs(decimal.Decimal(d), want, k)
		}
		verifrt.Assert(ok, "abs-decimal-exact")
	}
	verifrt.Reach("end")
}

// C08-A8: round(p) is the exact value rounded half away from zero at p places (unchanged when p >= scale).
func VerifHarness_C08_Round() {
	var in system.Collection
	var n *big.Int
	var k int
	if verifrt.NondetBool("integerInput") {
		// Round renders an Integer input as text and re-parses it: a menu of values instead of a symbolic itoa
		menu := []int32{0, 1, -1, 15, -25, 149, math.MaxInt32, math.MinInt32}
		i := menu[verifrt.Choose("integer", len(menu))]
		in, n, k = system.Collection{system.Integer(i)}, big.NewInt(int64(i)), 0
	} else if verifrt.NondetBool("fhirDecimalElement") {
		// a FHIR decimal element (its text goes through system.From)
		d := verifrt.NondetDecimalDigits("fd", verifrt.Choose("fscale", 3), 3)
		in, n, k = system.Collection{&dtpb.Decimal{Value: d.String()}}, d.Coefficient(), int(-d.Exponent())
	} else {
		shapes := [][2]int{{0, 11}, {1, 12}, {2, 9}, {3, 19}, {4, 12}, {20, 21}}
		sh := shapes[verifrt.Choose("shape", len(shapes))]
		d := verifrt.NondetDecimalDigits("d", sh[0], sh[1])
		in, n, k = system.Collection{system.Decimal(d)}, d.Coefficient(), sh[0]
	}
	p := verifrt.Choose("precision", 4) // 0..3; also without argument
	var res system.Collection
	var err error
	if verifrt.NondetBool("noArgument") {
		p = 0
		res, err = Round(verifCtx(), in)
	} else {
		res, err = Round(verifCtx(), in, verifLit(system.Integer(p)))
	}
	// want = sign(n) * floor((2|n| + 10^(k-p)) / (2*10^(k-p))) at scale p, when p < k
	wantN, wantK := n, k
	if p < k {
		unit := verifPow10(k - p)
		a := new(big.Int).Abs(n)
		num := new(big.Int).Add(new(big.Int).Mul(a, big.NewInt(2)), unit)
		w := new(big.Int).Quo(num, new(big.Int).Mul(unit, big.NewInt(2)))
		if n.Sign() < 0 {
			w.Neg(w)
		}
		wantN, wantK = w, p
	}
	ok := err == nil && len(res) == 1
	if ok {
		switch r := res[0].(type) {
		case system.Decimal:
			ok = verifDecIs(decimal.Decimal(r), wantN, wantK)
		case system.Integer:
			ok = wantK == 0 && wantN.IsInt64() && wantN.Int64() == int64(r)
		default:
			ok = false
		}
	}
	verifrt.Assert(ok, "round-agrees-with-exact-decimal-arithmetic")
	verifrt.Reach("end")
}
