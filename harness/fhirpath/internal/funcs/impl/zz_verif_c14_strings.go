//go:build verif

package impl

import (
	"unicode"
	"unicode/utf8"

	dtpb "github.com/google/fhir/go/proto/google/fhir/proto/r4/core/datatypes_go_proto"
	"github.com/verily-src/fhirpath-go/fhirpath/system"
	"github.com/verily-src/fhirpath-go/internal/verifrt"
)

func verifSLen() int { return verifrt.Bound(4, 8) }
func verifTLen() int { return verifrt.Bound(2, 4) }

// verifUTF8 draws a valid UTF-8 string of at most max bytes.
func verifUTF8(label string, max int) string {
	s := verifrt.NondetString(label, max)
	verifrt.Assume(utf8.ValidString(s))
	return s
}

// verifReceiver wraps s as a System String or a FHIR string-like element.
func verifReceiver(s string) system.Collection {
	switch verifrt.Choose("recv", 3) {
	case 0:
		return system.Collection{system.String(s)}
	case 1:
		return system.Collection{&dtpb.String{Value: s}}
	default:
		return system.Collection{&dtpb.Code{Value: s}}
	}
}

func verifStr(c system.Collection) (string, bool) {
	if len(c) != 1 {
		return "", false
	}
	s, ok := c[0].(system.String)
	return string(s), ok
}

func verifInt(c system.Collection) (int64, bool) {
	if len(c) != 1 {
		return 0, false
	}
	i, ok := c[0].(system.Integer)
	return int64(i), ok
}

// length() counts characters (code points).
func VerifHarness_C14_Length() {
	s := verifUTF8("s", verifSLen())
	got, err := Length(verifCtx(), verifReceiver(s))
	n, ok := verifInt(got)
	verifrt.Assert(err == nil && ok && n == int64(utf8.RuneCountInString(s)), "length-counts-characters")
	verifrt.Reach("end")
}

// toChars() yields the characters in order; toChars().count() = length().
func VerifHarness_C14_ToChars() {
	s := verifUTF8("s", verifSLen())
	got, err := ToChars(verifCtx(), verifReceiver(s))
	rs := []rune(s)
	ok := err == nil && len(got) == len(rs)
	for i := 0; ok && i < len(rs); i++ {
		c, isStr := got[i].(system.String)
		ok = isStr && string(c) == string(rs[i])
	}
	verifrt.Assert(ok, "tochars-yields-each-character")
	verifrt.Reach("end")
}

// substring(start[, length]) over characters, for every int32 start and length.
func VerifHarness_C14_Substring() {
	s := verifUTF8("s", verifSLen())
	rs := []rune(s)
	start := verifrt.NondetInt32("start")
	two := verifrt.NondetBool("twoArgs")
	length := int32(0)
	var got system.Collection
	var err error
	if two {
		length = verifrt.NondetInt32("length")
		got, err = Substring(verifCtx(), verifReceiver(s), verifLit(system.Integer(start)), verifLit(system.Integer(length)))
	} else {
		got, err = Substring(verifCtx(), verifReceiver(s), verifLit(system.Integer(start)))
	}
	if start < 0 || int64(start) >= int64(len(rs)) {
		verifrt.Assert(err == nil && len(got) == 0, "substring-out-of-range-start-is-empty")
		verifrt.Reach("oob")
		return
	}
	end := int64(len(rs))
	if two && length >= 0 && int64(start)+int64(length) < end {
		end = int64(start) + int64(length)
	}
	want := string(rs[start:end])
	r, ok := verifStr(got)
	verifrt.Assert(err == nil && ok && r == want, "substring-selects-characters")
	verifrt.Assert(!ok || utf8.ValidString(r), "substring-result-is-valid-utf8")
	verifrt.Reach("end")
}

func verifRuneIndex(s, t string) int {
	rs, rt := []rune(s), []rune(t)
	for i := 0; i+len(rt) <= len(rs); i++ {
		match := true
		for k := range rt {
			if rs[i+k] != rt[k] {
				match = false
				break
			}
		}
		if match {
			return i
		}
	}
	return -1
}

// indexOf / contains / startsWith / endsWith against a character-based reference.
func VerifHarness_C14_Search() {
	s := verifUTF8("s", verifSLen())
	t := verifUTF8("t", verifTLen())
	recv := verifReceiver(s)
	arg := verifLit(system.String(t))
	want := verifRuneIndex(s, t)
	idx, e1 := IndexOf(verifCtx(), recv, arg)
	i, ok1 := verifInt(idx)
	verifrt.Assert(e1 == nil && ok1 && i == int64(want), "indexof-is-character-position")
	con, e2 := Contains(verifCtx(), recv, arg)
	verifrt.Assert(e2 == nil && verifTV(con) == b2i(want >= 0), "contains-iff-indexof-nonnegative")
	sw, e3 := StartsWith(verifCtx(), recv, arg)
	verifrt.Assert(e3 == nil && verifTV(sw) == b2i(want == 0), "startswith-iff-indexof-zero")
	ew, e4 := EndsWith(verifCtx(), recv, arg)
	rs, rt := []rune(s), []rune(t)
	ends := len(rt) <= len(rs) && string(rs[len(rs)-len(rt):]) == t
	verifrt.Assert(e4 == nil && verifTV(ew) == b2i(ends), "endswith-matches-suffix")
	verifrt.Reach("end")
}

// The laws: substring(0,k) & substring(k) = s ; indexOf(t)=i>=0 => substring(i).startsWith(t).
func VerifHarness_C14_Laws() {
	s := verifUTF8("s", verifSLen())
	t := verifUTF8("t", verifTLen())
	recv := verifReceiver(s)
	n := int32(utf8.RuneCountInString(s))
	k := int32(verifrt.NondetIntRange("k", 0, 8))
	verifrt.Assume(k < n)
	a, e1 := Substring(verifCtx(), recv, verifLit(system.Integer(0)), verifLit(system.Integer(k)))
	b, e2 := Substring(verifCtx(), recv, verifLit(system.Integer(k)))
	as, ok1 := verifStr(a)
	bs, ok2 := verifStr(b)
	verifrt.Assert(e1 == nil && e2 == nil && ok1 && ok2 && as+bs == s, "substring-0-k-and-k-rejoin")
	idx, e3 := IndexOf(verifCtx(), recv, verifLit(system.String(t)))
	i, ok3 := verifInt(idx)
	verifrt.Assert(e3 == nil && ok3, "indexof-returns-integer")
	if ok3 && i >= 0 && i < int64(n) {
		sub, e4 := Substring(verifCtx(), recv, verifLit(system.Integer(int32(i))))
		sw, e5 := StartsWith(verifCtx(), sub, verifLit(system.String(t)))
		verifrt.Assert(e4 == nil && e5 == nil && verifTV(sw) == 1, "substring-at-indexof-starts-with-pattern")
	}
	verifrt.Reach("end")
}

// replace(old, new) for a non-empty pattern: left-to-right, non-overlapping, character-aligned (byte-level replacement
// of valid UTF-8 by valid UTF-8 is character-aligned); upper/lower on ASCII letters leave every other character intact.
func VerifHarness_C14_Replace() {
	s := verifUTF8("s", verifrt.Bound(3, 6))
	old := verifUTF8("old", 2)
	nw := verifUTF8("new", verifrt.Bound(1, 2))
	verifrt.Assume(len(old) > 0)
	got, err := Replace(verifCtx(), verifReceiver(s), verifLit(system.String(old)), verifLit(system.String(nw)))
	r, ok := verifStr(got)
	// reference: scan characters
	rs, ro := []rune(s), []rune(old)
	want := ""
	for i := 0; i < len(rs); {
		m := i+len(ro) <= len(rs)
		for k := 0; m && k < len(ro); k++ {
			m = rs[i+k] == ro[k]
		}
		if m {
			want += nw
			i += len(ro)
		} else {
			want += string(rs[i])
			i++
		}
	}
	verifrt.Assert(err == nil && ok && r == want, "replace-all-occurrences")
	verifrt.Assert(!ok || utf8.ValidString(r), "replace-result-is-valid-utf8")
	verifrt.Reach("end")
}

// replace() takes pattern and substitution literally: characters that mean something to regular expressions or to
// their replacement templates ('.', '$0', '$$', '${1}', a backslash) are ordinary text on both sides.
func VerifHarness_C14_ReplaceIsLiteral() {
	s := []string{"abc", "a.c", "a$c", "a\\c"}[verifrt.Choose("s", 4)]
	old := []string{"b", ".", "$", "\\", "a"}[verifrt.Choose("old", 5)]
	nw := []string{"$0", "$1x", "$$", "${1}y", "\\1", "$", "x$y", "US$2"}[verifrt.Choose("new", 8)]
	got, err := Replace(verifCtx(), verifReceiver(s), verifLit(system.String(old)), verifLit(system.String(nw)))
	r, ok := verifStr(got)
	want := ""
	for i := 0; i < len(s); {
		if i+len(old) <= len(s) && s[i:i+len(old)] == old {
			want += nw
			i += len(old)
		} else {
			want += s[i : i+1]
			i++
		}
	}
	verifrt.Assert(err == nil && ok && r == want, "replace-takes-pattern-and-substitution-literally")
	verifrt.Reach("end")
}

// upper()/lower(): ASCII letters are mapped, every other ASCII character is intact.
func VerifHarness_C14_Case() {
	s := verifUTF8("s", verifSLen())
	up, e2 := Upper(verifCtx(), verifReceiver(s))
	lo, e3 := Lower(verifCtx(), verifReceiver(s))
	us, ok2 := verifStr(up)
	ls, ok3 := verifStr(lo)
	verifrt.Assert(e2 == nil && e3 == nil && ok2 && ok3, "upper-lower-return-strings")
	ascii := true
	for i := 0; i < len(s); i++ {
		ascii = ascii && s[i] < 0x80
	}
	if ascii && ok2 && ok3 {
		okc := len(us) == len(s) && len(ls) == len(s)
		for i := 0; okc && i < len(s); i++ {
			c := s[i]
			u, l := c, c
			if c >= 'a' && c <= 'z' {
				u = c - 32
			}
			if c >= 'A' && c <= 'Z' {
				l = c + 32
			}
			okc = us[i] == u && ls[i] == l
		}
		verifrt.Assert(okc, "upper-lower-map-ascii-letters-only")
	}
	verifrt.Reach("end")
}

// Characters beyond the basic plane (four bytes in UTF-8, a surrogate pair in UTF-16) are one character each: length,
// toChars, substring and indexOf count them once. The last byte of the character is symbolic, the text around it too.
func VerifHarness_C14_SupplementaryCharacters() {
	b3 := verifrt.NondetStringN("lastByte", 1)
	verifrt.Assume(b3[0] >= 0x80 && b3[0] <= 0xBF)
	ch := string([]byte{0xF0, 0x9F, 0x98, b3[0]})
	head, tail := verifrt.NondetString("head", 1), verifrt.NondetString("tail", 1)
	verifrt.Assume((len(head) == 0 || head[0] < 0x80) && (len(tail) == 0 || tail[0] < 0x80))
	s := head + ch + tail
	chars := int64(len(head) + 1 + len(tail))
	got, err := Length(verifCtx(), verifReceiver(s))
	n, ok := verifInt(got)
	verifrt.Assert(err == nil && ok && n == chars, "length-counts-characters")
	cs, err2 := ToChars(verifCtx(), verifReceiver(s))
	verifrt.Assert(err2 == nil && int64(len(cs)) == chars, "tochars-count-equals-length")
	sub, err3 := Substring(verifCtx(), verifReceiver(s), verifLit(system.Integer(len(head))), verifLit(system.Integer(1)))
	r, isStr := verifStr(sub)
	verifrt.Assert(err3 == nil && isStr && r == ch, "substring-takes-the-whole-character")
	idx, err4 := IndexOf(verifCtx(), verifReceiver(s), verifLit(system.String(ch)))
	i, okI := verifInt(idx)
	verifrt.Assert(err4 == nil && okI && i == int64(len(head)), "indexof-counts-characters")
	verifrt.Reach("end")
}

// upper()/lower() on letters beyond ASCII: the reference model maps each character with the Unicode simple case
// mapping (unicode.ToUpper / ToLower per character), whether or not the text has ASCII letters too. Texts from a menu
// (Latin-1, Latin Extended, Greek, Cyrillic, with and without ASCII around them); decided by execution over the menu.
func VerifHarness_C14_CaseBeyondASCII() {
	menu := []string{"é", "É", "École", "école", "123 é", "x é", "Ärzte", "straße", "ΑΒΓ", "αβγ", "Привет", "ПРИВЕТ", "привет", "ǆ", "Émond-Ñu", "日本"}
	s := menu[verifrt.Choose("text", len(menu))]
	up, e2 := Upper(verifCtx(), verifReceiver(s))
	lo, e3 := Lower(verifCtx(), verifReceiver(s))
	us, ok2 := verifStr(up)
	ls, ok3 := verifStr(lo)
	verifrt.Assert(e2 == nil && e3 == nil && ok2 && ok3, "upper-lower-return-strings")
	wantUp, wantLo := "", ""
	for _, r := range s {
		wantUp += string(unicode.ToUpper(r))
		wantLo += string(unicode.ToLower(r))
	}
	verifrt.Assert(us == wantUp, "upper-maps-every-character")
	verifrt.Assert(ls == wantLo, "lower-maps-every-character")
	verifrt.Reach("end")
}
