//go:build verif

package impl

import (
	opb "github.com/google/fhir/go/proto/google/fhir/proto/r4/core/resources/observation_go_proto"
	ppb "github.com/google/fhir/go/proto/google/fhir/proto/r4/core/resources/patient_go_proto"
	"github.com/shopspring/decimal"
	"math"

	dtpb "github.com/google/fhir/go/proto/google/fhir/proto/r4/core/datatypes_go_proto"
	"github.com/verily-src/fhirpath-go/fhirpath/internal/expr"
	"github.com/verily-src/fhirpath-go/fhirpath/system"
	"github.com/verily-src/fhirpath-go/internal/verifrt"
)

func verifMaxLen() int { return verifrt.Bound(3, 4) }

// select(e) is the in-order concatenation of e over the items.
func VerifHarness_C10_Select() {
	n := verifrt.Choose("n", verifMaxLen()+1)
	input := verifItems("it", n, 1)
	proj := &verifStub{}
	var want system.Collection
	for i := 0; i < n; i++ {
		k := verifrt.Choose("k", 3)
		r := verifItems("p", k, 1)
		proj.r = append(proj.r, r)
		want = append(want, r...)
	}
	got, err := Select(verifCtx(), input, proj)
	verifrt.Assert(err == nil && verifSameColl(got, want), "select-is-in-order-concatenation")
	verifrt.Assert(proj.calls == n, "select-evaluates-projection-once-per-item")
	verifrt.Reach("end")
}

// empty() = (count() = 0); count() is the length.
func VerifHarness_C10_EmptyCount() {
	n := verifrt.Choose("n", verifMaxLen()+1)
	input := verifItems("it", n, 2)
	e, err1 := Empty(verifCtx(), input)
	c, err2 := Count(verifCtx(), input)
	ok := err1 == nil && err2 == nil && len(c) == 1
	if ok {
		ci, isInt := c[0].(system.Integer)
		ok = isInt && int(ci) == n && verifTV(e) == b2i(n == 0)
	}
	verifrt.Assert(ok, "empty-iff-count-zero")
	verifrt.Reach("end")
}

// first() = c[0] = take(1); tail() = skip(1); last() = skip(count()-1).
func VerifHarness_C10_Positional() {
	n := verifrt.Choose("n", verifMaxLen()+1)
	input := verifItems("it", n, 2)
	ctx := verifCtx()
	first, e1 := First(ctx, input)
	idx, e2 := (&expr.IndexExpression{Index: verifLit(system.Integer(0))}).Evaluate(ctx, input)
	take1, e3 := Take(ctx, input, verifLit(system.Integer(1)))
	verifrt.Assert(e1 == nil && e2 == nil && e3 == nil && verifSameColl(first, idx) && verifSameColl(first, take1), "first-equals-index0-equals-take1")
	if n > 0 {
		verifrt.Assert(len(first) == 1 && verifSame(first[0], input[0]), "first-is-the-first-item")
	} else {
		verifrt.Assert(len(first) == 0, "first-of-empty-is-empty")
	}
	tail, e4 := Tail(ctx, input)
	skip1, e5 := Skip(ctx, input, verifLit(system.Integer(1)))
	verifrt.Assert(e4 == nil && e5 == nil && verifSameColl(tail, skip1), "tail-equals-skip1")
	last, e6 := Last(ctx, input)
	skipN, e7 := Skip(ctx, input, verifLit(system.Integer(int32(n-1))))
	if n > 0 {
		verifrt.Assert(e6 == nil && e7 == nil && verifSameColl(last, skipN) && len(last) == 1 && verifSame(last[0], input[n-1]), "last-equals-skip-count-minus-1")
	} else {
		verifrt.Assert(e6 == nil && len(last) == 0, "last-of-empty-is-empty")
	}
	verifrt.Reach("end")
}

// take(k) followed by skip(k) partitions c for every int32 k (full width).
func VerifHarness_C10_TakeSkipPartition() {
	n := verifrt.Choose("n", verifMaxLen()+1)
	input := verifItems("it", n, 1)
	k := verifrt.NondetInt32("k")
	ctx := verifCtx()
	take, e1 := Take(ctx, input, verifLit(system.Integer(k)))
	skip, e2 := Skip(ctx, input, verifLit(system.Integer(k)))
	verifrt.Assert(e1 == nil && e2 == nil, "take-skip-no-error")
	if e1 != nil || e2 != nil {
		return
	}
	var joined system.Collection
	joined = append(joined, take...)
	joined = append(joined, skip...)
	verifrt.Assert(verifSameColl(joined, input), "take-then-skip-partitions")
	wantTake := int64(k)
	if wantTake < 0 {
		wantTake = 0
	}
	if wantTake > int64(n) {
		wantTake = int64(n)
	}
	verifrt.Assert(int64(len(take)) == wantTake, "take-length")
	verifrt.Reach("end")
}

// c[i] for every int32 i: the item at that position, empty when out of range.
func VerifHarness_C10_Index() {
	n := verifrt.Choose("n", verifMaxLen()+1)
	input := verifItems("it", n, 2)
	i := verifrt.NondetInt32("i")
	got, err := (&expr.IndexExpression{Index: verifLit(system.Integer(i))}).Evaluate(verifCtx(), input)
	if i >= 0 && int64(i) < int64(n) {
		verifrt.Assert(err == nil && len(got) == 1 && verifSame(got[0], input[i]), "index-in-range-is-that-item")
	} else {
		verifrt.Assert(err == nil && len(got) == 0, "index-out-of-range-is-empty")
	}
	verifrt.Reach("end")
}

// verifEq: FHIRPath item equality for the item kinds used here (Integer, String by value;
// FHIR integer by value with Integer; complex elements structurally).
func verifEq(a, b any) bool {
	av, aIsNum := verifNum(a)
	bv, bIsNum := verifNum(b)
	if aIsNum || bIsNum {
		return aIsNum && bIsNum && av == bv
	}
	switch x := a.(type) {
	case system.String:
		y, ok := b.(system.String)
		return ok && x == y
	case *dtpb.HumanName:
		y, ok := b.(*dtpb.HumanName)
		return ok && x.GetFamily().GetValue() == y.GetFamily().GetValue()
	}
	return false
}

func verifNum(a any) (int64, bool) {
	switch x := a.(type) {
	case system.Integer:
		return int64(x), true
	case *dtpb.Integer:
		return int64(x.Value), true
	case system.Decimal:
		return decimal.Decimal(x).IntPart(), true // the harness draws integral Decimals only
	}
	return math.MinInt64, false
}

func verifContains(c system.Collection, v any) bool {
	for _, x := range c {
		if verifEq(x, v) {
			return true
		}
	}
	return false
}

// distinct() keeps exactly one representative per class of equal items (first occurrences, in order);
// isDistinct() iff count() = distinct().count(); no null items.
func VerifHarness_C10_Distinct() {
	n := verifrt.Choose("n", verifMaxLen()+1)
	input := verifItems("it", n, 5)
	got, err := Distinct(verifCtx(), input)
	var want system.Collection
	for _, v := range input {
		if !verifContains(want, v) {
			want = append(want, v)
		}
	}
	ok := err == nil && len(got) == len(want)
	for i := 0; ok && i < len(got); i++ {
		ok = got[i] != nil && verifSame(got[i], want[i])
	}
	verifrt.Assert(ok, "distinct-keeps-first-of-each-class")
	isd, err2 := IsDistinct(verifCtx(), input)
	verifrt.Assert(err2 == nil && verifTV(isd) == b2i(len(want) == n), "isdistinct-iff-count-equals-distinct-count")
	verifrt.Reach("end")
}

// exclude(d): the items of c equal to no item of d, order and duplicates preserved; never a null item.
func VerifHarness_C10_Exclude() {
	n := 1 + verifrt.Choose("n", verifrt.Bound(2, 3))
	m := verifrt.Choose("m", verifrt.Bound(2, 3)+1)
	input := verifItemsOf("it", n, []int{0, 2, 3, 4})
	other := verifItemsOf("ot", m, []int{0, 2, 3, 4})
	got, err := Exclude(verifCtx(), input, verifConst(other))
	var want system.Collection
	for _, v := range input {
		if !verifContains(other, v) {
			want = append(want, v)
		}
	}
	// (two obligations: the items of c that survive, in order; and nothing else)
	ok := err == nil && len(got) >= len(want)
	for i := 0; ok && i < len(want); i++ {
		ok = got[i] != nil && verifSame(got[i], want[i])
	}
	verifrt.Assert(ok, "exclude-keeps-exactly-the-items-of-c-not-in-other-in-order")
	verifrt.Assert(err != nil || len(got) <= len(want), "exclude-adds-nothing")
	for _, g := range got {
		verifrt.Assert(g != nil, "exclude-never-yields-a-null-item")
	}
	verifrt.Reach("end")
}

// intersect(d): the duplicate-free items of c equal to some item of d; never a null item.
func VerifHarness_C10_Intersect() {
	n := 1 + verifrt.Choose("n", verifrt.Bound(2, 3))
	m := verifrt.Choose("m", verifrt.Bound(2, 3)+1)
	input := verifItemsOf("it", n, []int{0, 2, 3, 4})
	other := verifItemsOf("ot", m, []int{0, 2, 3, 4})
	got, err := Intersect(verifCtx(), input, verifConst(other))
	var want system.Collection
	for _, v := range input {
		if verifContains(other, v) && !verifContains(want, v) {
			want = append(want, v)
		}
	}
	ok := err == nil && len(got) == len(want)
	for i := 0; ok && i < len(got); i++ {
		ok = got[i] != nil && verifEq(got[i], want[i])
	}
	verifrt.Assert(ok, "intersect-is-duplicate-free-common-items")
	verifrt.Reach("end")
}

// intersect(d) consists of items of c - also where equality relates values of different kinds (here a number equals
// a Quantity of the same amount): the result never holds an item that only d has.
func VerifHarness_C10_IntersectYieldsItemsOfTheInput() {
	n := verifrt.NondetIntRange("n", 0, 3)
	m := verifrt.NondetIntRange("m", 0, 3)
	q := system.MustParseQuantity([]string{"0", "1", "2", "3"}[m], []string{"mg", "1"}[verifrt.Choose("unit", 2)])
	var input, other system.Collection
	if verifrt.NondetBool("quantityInInput") {
		input, other = system.Collection{q}, system.Collection{system.Integer(n), q}
	} else {
		input, other = system.Collection{system.Integer(n)}, system.Collection{q, system.Integer(n + 1)}
	}
	got, err := Intersect(verifCtx(), input, verifConst(other))
	verifrt.Assert(err == nil && len(got) <= 1, "intersect-of-one-item-has-at-most-one-item")
	for _, item := range got {
		_, inputIsQuantity := input[0].(system.Quantity)
		_, isQuantity := item.(system.Quantity)
		verifrt.Assert(isQuantity == inputIsQuantity, "intersect-yields-items-of-the-input")
	}
	verifrt.Reach("end")
}

// extension(u) = extension.where(url = u) on real Extension structs (getter path only).
func VerifHarness_C10_Extension() {
	k := verifrt.Choose("k", 3)
	el := &dtpb.HumanName{}
	var want system.Collection
	u := verifrt.NondetString("u", 2)
	for i := 0; i < k; i++ {
		ext := &dtpb.Extension{}
		if verifrt.NondetBool("hasUrl") {
			ext.Url = &dtpb.Uri{Value: verifrt.NondetString("url", 2)}
		}
		el.Extension = append(el.Extension, ext)
		if ext.Url != nil && ext.Url.Value == u {
			want = append(want, ext)
		}
	}
	arg := verifLit(system.String(u))
	input := system.Collection{el}
	if verifrt.NondetBool("backbone") {
		// a backbone element: its modifierExtension list is another element - extension(u) is extension.where(url = u)
		contact := &ppb.Patient_Contact{Extension: el.Extension}
		for i := 0; i < verifrt.Choose("modifiers", 2); i++ {
			contact.ModifierExtension = append(contact.ModifierExtension, &dtpb.Extension{Url: &dtpb.Uri{Value: verifrt.NondetString("murl", 2)}})
		}
		input = system.Collection{contact}
	}
	if verifrt.NondetBool("emptyUrl") {
		// extension({}) = extension.where(url = {}): nothing is selected, whatever the input (an empty one included)
		arg, want = &expr.LiteralExpression{}, nil
		if verifrt.NondetBool("emptyInput") {
			input = system.Collection{}
		}
	}
	got, err := Extension(verifCtx(), input, arg)
	ok := err == nil && len(got) == len(want)
	for i := 0; ok && i < len(got); i++ {
		ok = got[i] == want[i]
	}
	verifrt.Assert(ok, "extension-equals-where-url")
	verifrt.Reach("end")
}

// C10: where(p) is exactly the order-preserving sub-collection of the items for which p is true and exists(p) equals
// where(p).exists(), for every form a criterion's result can take (System and FHIR booleans, empty, other single
// items, multi-item); all(p) is true iff p is true for every item. (The bodies are shared with C06's singleton rule.)
func VerifHarness_C10_WhereExists() { verifWhereCriteria() }

func VerifHarness_C10_All() { verifAllCriteria() }

// intersect(d) of an input that repeats its items: three or four input items over two or three distinct small Integers
// against two argument items - the shape in which "as many matches as the argument has items" is reached by repeats
// before a later, different member of the intersection is seen.
func VerifHarness_C10_IntersectOfRepeatedItems() {
	n := 3 + verifrt.Choose("n", 2)
	var input, other system.Collection
	for i := 0; i < n; i++ {
		input = append(input, system.Integer(verifrt.NondetIntRange("it", 0, 2)))
	}
	for i := 0; i < 2; i++ {
		other = append(other, system.Integer(verifrt.NondetIntRange("ot", 0, 2)))
	}
	got, err := Intersect(verifCtx(), input, verifConst(other))
	var want system.Collection
	for _, v := range input {
		if verifContains(other, v) && !verifContains(want, v) {
			want = append(want, v)
		}
	}
	ok := err == nil && len(got) == len(want)
	for i := 0; ok && i < len(got); i++ {
		ok = got[i] != nil && verifEq(got[i], want[i])
	}
	verifrt.Assert(ok, "intersect-is-duplicate-free-common-items")
	verifrt.Reach("end")
}

// select(e) with a real projection of two steps through a choice element: Observation.component.select(value.unit)
// over components whose value[x] is a Quantity or a String, in any order. An item on which the path is not defined
// contributes nothing (the library tolerates that unless every item fails); every other item contributes its own
// elements, in order - whatever stood before it.
func VerifHarness_C10_SelectThroughAChoice() {
	n := 2 + verifrt.Choose("n", 2)
	var input, want system.Collection
	for i := 0; i < n; i++ {
		c := &opb.Observation_Component{}
		if verifrt.NondetBool("quantity") {
			u := &dtpb.String{Value: verifrt.NondetString("unit", 1)}
			c.Value = &opb.Observation_Component_ValueX{Choice: &opb.Observation_Component_ValueX_Quantity{Quantity: &dtpb.Quantity{Unit: u}}}
			want = append(want, u)
		} else {
			c.Value = &opb.Observation_Component_ValueX{Choice: &opb.Observation_Component_ValueX_StringValue{StringValue: &dtpb.String{Value: "s"}}}
		}
		input = append(input, c)
	}
	proj := &expr.ExpressionSequence{Expressions: []expr.Expression{&expr.FieldExpression{FieldName: "value"}, &expr.FieldExpression{FieldName: "unit"}}}
	got, err := Select(verifCtx(), input, proj)
	if len(want) == 0 {
		verifrt.Assert(err != nil, "select-fails-when-the-projection-is-defined-on-no-item")
	} else {
		ok := err == nil && len(got) == len(want)
		for i := 0; ok && i < len(want); i++ {
			ok = got[i] == want[i]
		}
		verifrt.Assert(ok, "select-is-in-order-concatenation")
	}
	verifrt.Reach("end")
}
