//go:build verif

package impl

import (
	"github.com/verily-src/fhirpath-go/fhirpath/system"
	"github.com/verily-src/fhirpath-go/internal/verifrt"
)

// C06-(iv): not() follows the three-valued table for every input form; multi-item is an error.
func VerifHarness_C06_Not() {
	in, v := verifCriterion("in")
	got, err := Not(verifCtx(), in)
	switch v {
	case 3:
		verifrt.Assert(err != nil, "not-multi-item-is-error")
	case 2:
		verifrt.Assert(err == nil && len(got) == 0, "not-empty-is-empty")
	default:
		verifrt.Assert(err == nil && verifTV(got) == 1-v, "not-negates")
	}
	verifrt.Reach("end")
}

// De Morgan through the real Not: not(a and b) = not(a) or not(b) is checked in package expr's terms by
// composing the reference tables with the real Not on both sides.
func VerifHarness_C06_NotInvolution() {
	in, v := verifCriterion("in")
	verifrt.Assume(v != 3)
	once, err1 := Not(verifCtx(), in)
	twice, err2 := Not(verifCtx(), once)
	if v == 2 {
		verifrt.Assert(err1 == nil && err2 == nil && len(twice) == 0, "not-not-empty")
	} else {
		verifrt.Assert(err1 == nil && err2 == nil && verifTV(twice) == v, "not-not-identity-on-truth-value")
	}
	verifrt.Reach("end")
}

// The singleton rule governs the criteria of where/exists/all: true keeps, false/empty drops, multi-item is an error.
func VerifHarness_C06_WhereCriteria() { verifWhereCriteria() }

func VerifHarness_C06_AllCriteria() { verifAllCriteria() }

// iif(criterion, a, b): singleton rule on the criterion; false and empty select the otherwise branch.
func VerifHarness_C06_Iif() {
	c, v := verifCriterion("c")
	a := system.Collection{system.Integer(verifrt.NondetInt32("a"))}
	b := system.Collection{system.Integer(verifrt.NondetInt32("b"))}
	three := verifrt.NondetBool("three")
	var got system.Collection
	var err error
	if three {
		got, err = Iif(verifCtx(), system.Collection{}, verifConst(c), verifConst(a), verifConst(b))
	} else {
		got, err = Iif(verifCtx(), system.Collection{}, verifConst(c), verifConst(a))
	}
	switch {
	case v == 3:
		verifrt.Assert(err != nil, "iif-multi-item-criterion-is-error")
	case v == 1:
		verifrt.Assert(err == nil && verifSameColl(got, a), "iif-true-selects-then")
	case three:
		verifrt.Assert(err == nil && verifSameColl(got, b), "iif-false-or-empty-selects-otherwise")
	default:
		verifrt.Assert(err == nil && len(got) == 0, "iif-false-or-empty-without-otherwise-is-empty")
	}
	verifrt.Reach("end")
}

// Collection.ToBool (EvaluateAsBool): empty is false, Boolean is itself, other singleton is true, multi-item is an error.
func VerifHarness_C06_ToBool() {
	c, v := verifCriterion("c")
	got, err := c.ToBool()
	switch v {
	case 3:
		verifrt.Assert(err != nil, "tobool-multi-item-is-error")
	case 2:
		verifrt.Assert(err == nil && !got, "tobool-empty-is-false")
	default:
		verifrt.Assert(err == nil && got == (v == 1), "tobool-singleton-rule")
	}
	verifrt.Reach("end")
}
