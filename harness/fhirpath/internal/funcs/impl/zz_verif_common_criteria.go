//go:build verif

package impl

import (
	"github.com/verily-src/fhirpath-go/fhirpath/system"
	"github.com/verily-src/fhirpath-go/internal/verifrt"
)

// shared by C06 (the singleton rule governs criteria) and C10 (where/exists/all obey the collection algebra)

func verifWhereCriteria() {
	n := verifrt.Choose("n", verifrt.Bound(2, 3)+1)
	input := verifItems("it", n, 1)
	crit := &verifStub{}
	vals := make([]int, n)
	for i := 0; i < n; i++ {
		c, v := verifCriterion("c")
		crit.r = append(crit.r, c)
		vals[i] = v
	}
	// reference
	var want system.Collection
	wantErr := false
	for i := 0; i < n; i++ {
		if vals[i] == 3 {
			wantErr = true
			break
		}
		if vals[i] == 1 {
			want = append(want, input[i])
		}
	}
	got, err := Where(verifCtx(), input, crit)
	if wantErr {
		verifrt.Assert(err != nil, "where-multi-item-criterion-is-error")
	} else {
		verifrt.Assert(err == nil && verifSameColl(got, want), "where-keeps-exactly-true-items-in-order")
	}
	// exists(p) = where(p).exists()
	crit.calls = 0
	ex, err2 := Exists(verifCtx(), input, crit)
	if wantErr {
		verifrt.Assert(err2 != nil, "exists-multi-item-criterion-is-error")
	} else {
		verifrt.Assert(err2 == nil && verifTV(ex) == b2i(len(want) > 0), "exists-equals-where-exists")
	}
	verifrt.Reach("end")
}

func verifAllCriteria() {
	n := verifrt.Choose("n", verifrt.Bound(2, 3)+1)
	input := verifItems("it", n, 1)
	crit := &verifStub{}
	vals := make([]int, n)
	for i := 0; i < n; i++ {
		c, v := verifCriterion("c")
		crit.r = append(crit.r, c)
		vals[i] = v
	}
	// all(p): true iff p is true for every item; an item whose criterion is empty is not true;
	// evaluation may stop at the first non-true item, so an error is required only if a multi-item
	// criterion comes before any false/empty one.
	want, wantErr := 1, false
	for i := 0; i < n; i++ {
		if vals[i] == 3 {
			wantErr = true
			break
		}
		if vals[i] != 1 {
			want = 0
			break
		}
	}
	got, err := All(verifCtx(), input, crit)
	if wantErr {
		verifrt.Assert(err != nil, "all-multi-item-criterion-is-error")
	} else {
		verifrt.Assert(err == nil && verifTV(got) == want, "all-true-iff-every-criterion-true")
	}
	verifrt.Reach("end")
}

