//go:build verif

package impl

import (
	"github.com/shopspring/decimal"
	dtpb "github.com/google/fhir/go/proto/google/fhir/proto/r4/core/datatypes_go_proto"
	"github.com/verily-src/fhirpath-go/fhirpath/internal/expr"
	"github.com/verily-src/fhirpath-go/fhirpath/system"
	"github.com/verily-src/fhirpath-go/internal/verifrt"
)

// verifStub is an expression whose results are drawn in advance: the k-th call returns r[k].
type verifStub struct {
	r     []system.Collection
	calls int
}

func (s *verifStub) Evaluate(*expr.Context, system.Collection) (system.Collection, error) {
	k := s.calls
	s.calls++
	if k >= len(s.r) {
		return system.Collection{}, nil
	}
	return s.r[k], nil
}

func verifConst(c system.Collection) expr.Expression {
	return &verifStub{r: []system.Collection{c, c, c, c, c, c}}
}

func verifLit(v system.Any) expr.Expression { return &expr.LiteralExpression{Literal: v} }

func verifCtx() *expr.Context { return &expr.Context{ExternalConstants: map[string]any{}} }

func b2i(b bool) int {
	if b {
		return 1
	}
	return 0
}

// verifTV decodes a result into {0 false, 1 true, 2 empty, 4 other}.
func verifTV(c system.Collection) int {
	if len(c) == 0 {
		return 2
	}
	if len(c) == 1 {
		if b, ok := c[0].(system.Boolean); ok {
			return b2i(bool(b))
		}
	}
	return 4
}

// verifCriterion draws the result of a criterion for one item; meaning: 0 false, 1 true, 2 empty, 3 multi-item (error).
func verifCriterion(label string) (system.Collection, int) {
	switch verifrt.Choose(label+".form", 9) {
	case 8: // and so does a primitive element that has no System value (a Quantity without a value, an unsignedInt beyond 32 bits)
		if verifrt.NondetBool(label + ".unsigned") {
			return system.Collection{&dtpb.UnsignedInt{Value: 3000000000}}, 1
		}
		return system.Collection{&dtpb.Quantity{Code: &dtpb.Code{Value: "mg"}}}, 1
	case 6: // a complex element counts as true like any other single non-Boolean item
		return system.Collection{&dtpb.HumanName{Family: &dtpb.String{Value: verifrt.NondetString(label+".fam", 1)}}}, 1
	case 7: // so does a FHIR primitive that is not a boolean
		return system.Collection{&dtpb.Code{Value: verifrt.NondetString(label+".code", 1)}}, 1
	case 0:
		v := verifrt.NondetBool(label + ".b")
		return system.Collection{system.Boolean(v)}, b2i(v)
	case 1:
		return system.Collection{}, 2
	case 2:
		v := verifrt.NondetBool(label + ".fb")
		return system.Collection{&dtpb.Boolean{Value: v}}, b2i(v)
	case 3: // non-Boolean singleton counts as true
		return system.Collection{system.Integer(verifrt.NondetInt32(label + ".i"))}, 1
	case 4:
		return system.Collection{system.String(verifrt.NondetString(label+".s", 1))}, 1
	default:
		return system.Collection{system.Boolean(verifrt.NondetBool(label + ".m0")), system.Boolean(verifrt.NondetBool(label + ".m1"))}, 3
	}
}

// verifItems draws a collection of n items; kinds: Integer, String, FHIR integer, complex element (HumanName with a symbolic family).
func verifItems(label string, n int, kinds int) system.Collection {
	c := make(system.Collection, 0, n)
	for i := 0; i < n; i++ {
		c = append(c, verifItem(label, kinds))
	}
	return c
}

// verifItemsOf draws n items whose kinds come from the given list (0 Integer, 1 String, 2 FHIR integer, 3 complex).
func verifItemsOf(label string, n int, kinds []int) system.Collection {
	c := make(system.Collection, 0, n)
	for i := 0; i < n; i++ {
		c = append(c, verifItemKind(label, kinds[verifrt.Choose(label+".kind", len(kinds))]))
	}
	return c
}

func verifItem(label string, kinds int) any {
	return verifItemKind(label, verifrt.Choose(label+".kind", kinds))
}

func verifItemKind(label string, kind int) any {
	switch kind {
	case 0:
		return system.Integer(verifrt.NondetIntRange(label+".i", 0, 3))
	case 1:
		return system.String(verifrt.NondetString(label+".s", 1))
	case 2:
		return &dtpb.Integer{Value: int32(verifrt.NondetIntRange(label+".fi", 0, 3))}
	case 4: // a Decimal with an integral value written with one decimal place: 2.0 = 2 under FHIRPath equality
		return system.Decimal(decimal.New(int64(verifrt.NondetIntRange(label+".dec", 0, 3))*10, -1))
	default:
		return &dtpb.HumanName{Family: &dtpb.String{Value: verifrt.NondetString(label+".fam", 1)}}
	}
}

// verifSame: item identity (pointer identity for elements, value equality for System values of the same type).
func verifSame(a, b any) bool {
	switch x := a.(type) {
	case system.Integer:
		y, ok := b.(system.Integer)
		return ok && x == y
	case system.Decimal:
		y, ok := b.(system.Decimal)
		return ok && decimal.Decimal(x).Equal(decimal.Decimal(y))
	case system.String:
		y, ok := b.(system.String)
		return ok && x == y
	case system.Boolean:
		y, ok := b.(system.Boolean)
		return ok && x == y
	case *dtpb.Integer:
		y, ok := b.(*dtpb.Integer)
		return ok && x == y
	case *dtpb.HumanName:
		y, ok := b.(*dtpb.HumanName)
		return ok && x == y
	case *dtpb.String:
		y, ok := b.(*dtpb.String)
		return ok && x == y
	}
	return false
}

func verifSameColl(a, b system.Collection) bool {
	if len(a) != len(b) {
		return false
	}
	for i := range a {
		if !verifSame(a[i], b[i]) {
			return false
		}
	}
	return true
}
