//go:build verif

package grammar

// The token types the generated parser tests its terminals against (ctx.STRING(), ctx.NUMBER() ...), exported for the
// harnesses of package parser that build parse trees by hand. Read from the generated constants, so a regenerated
// grammar keeps them right.
const (
	VerifTokDATE                = fhirpathParserDATE
	VerifTokDATETIME            = fhirpathParserDATETIME
	VerifTokTIME                = fhirpathParserTIME
	VerifTokIDENTIFIER          = fhirpathParserIDENTIFIER
	VerifTokDELIMITEDIDENTIFIER = fhirpathParserDELIMITEDIDENTIFIER
	VerifTokSTRING              = fhirpathParserSTRING
	VerifTokNUMBER              = fhirpathParserNUMBER
)
