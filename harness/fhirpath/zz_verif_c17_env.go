//go:build verif

package fhirpath

import (
	"errors"

	dtpb "github.com/google/fhir/go/proto/google/fhir/proto/r4/core/datatypes_go_proto"
	"github.com/verily-src/fhirpath-go/fhirpath/evalopts"
	"github.com/verily-src/fhirpath-go/fhirpath/internal/expr"
	"github.com/verily-src/fhirpath-go/fhirpath/system"
	"github.com/verily-src/fhirpath-go/internal/fhir"
	"github.com/verily-src/fhirpath-go/internal/verifrt"
)

// value kinds: 0 System value, 1 FHIR primitive, 2 complex element, 3 collection of those, 4 empty collection,
// 5 collection nesting an unsupported Go value, 6 unsupported Go value, 7 nil, 8 collection nesting a collection of
// supported values (a collection holds items, not collections: nothing downstream flattens or expects one), 9 a nil
// pointer of an element, resource or System type (alone or in a collection), 10 a pointer to a System value - pointers
// satisfy the item interfaces without being items
func verifEnvValue(label string) (any, bool) {
	switch verifrt.Choose(label+".kind", 11) {
	case 0:
		return system.Integer(verifrt.NondetInt32(label + ".i")), true
	case 1:
		return &dtpb.String{Value: verifrt.NondetString(label+".s", 1)}, true
	case 2:
		return &dtpb.HumanName{Family: &dtpb.String{Value: verifrt.NondetString(label+".fam", 1)}}, true
	case 3:
		return system.Collection{system.Integer(verifrt.NondetInt32(label + ".c0")), &dtpb.Boolean{Value: verifrt.NondetBool(label + ".c1")}}, true
	case 4:
		return system.Collection{}, true
	case 5:
		// a collection nesting an unsupported Go value at any position (also inside a nested collection)
		bad := any(42)
		if verifrt.NondetBool(label + ".nestedBad") {
			bad = system.Collection{system.Integer(2), 42, system.Integer(3)}
		}
		c := system.Collection{system.Integer(1), system.String("x"), system.Integer(4)}
		c[verifrt.Choose(label+".badPos", 3)] = bad
		return c, false
	case 6:
		return 42, false
	case 9:
		var v any
		switch verifrt.Choose(label+".nilOf", 3) {
		case 0:
			v = (*dtpb.String)(nil)
		case 1:
			v = (*dtpb.HumanName)(nil)
		default:
			v = (*system.String)(nil)
		}
		if verifrt.NondetBool(label + ".inCollection") {
			return system.Collection{system.Integer(1), v}, false
		}
		return v, false
	case 10:
		s := system.String(verifrt.NondetString(label+".ps", 1))
		return &s, false
	case 8:
		inner := system.Collection{system.Integer(verifrt.NondetInt32(label + ".n0"))}
		if verifrt.NondetBool(label + ".innerEmpty") {
			inner = system.Collection{}
		}
		return system.Collection{inner, system.Integer(3)}, false
	default:
		return nil, false
	}
}

func verifSameValue(got system.Collection, want any) bool {
	if c, ok := want.(system.Collection); ok {
		if len(got) != len(c) {
			return false
		}
		for i := range c {
			if got[i] != c[i] {
				return false
			}
		}
		return true
	}
	return len(got) == 1 && got[0] == want
}

// C17: environment variables behave as declared, for every list of up to 2 (quick) / 3 (thorough) options with
// symbolic names: duplicates and collisions with the predefined names are found by the solver as name equalities.
func VerifHarness_C17_EnvVariables() {
	k := verifrt.Choose("nopts", verifrt.Bound(2, 3)+1)
	names := make([]string, k)
	vals := make([]any, k)
	okv := make([]bool, k)
	var options []EvaluateOption
	for i := 0; i < k; i++ {
		// name lengths 2, 4 ("ucum") and 7 ("context"); thorough also 1 and 8
		lens := []int{2, 4, 7, 1, 8}
		names[i] = verifrt.NondetStringN("name", lens[verifrt.Choose("name.len", verifrt.Bound(3, 5))])
		vals[i], okv[i] = verifEnvValue("v")
		options = append(options, evalopts.EnvVariable(names[i], vals[i]))
	}
	// reference
	wantUnsupported, wantExisting := false, false
	taken := map[string]bool{"context": true, "ucum": true}
	registered := make([]bool, k)
	for i := 0; i < k; i++ {
		switch {
		case !okv[i]:
			wantUnsupported = true
		case taken[names[i]]:
			wantExisting = true
		default:
			taken[names[i]] = true
			registered[i] = true
		}
	}
	probe := &verifProbe{}
	e := &Expression{expression: probe, path: "probe"}
	var input []fhir.Resource
	if k <= 1 && verifrt.NondetBool("nilInputResource") {
		input = []fhir.Resource{nil} // an error of its own, which must not hide the error of a failing option
	}
	res, err := e.Evaluate(input, options...)
	if input != nil && !(wantUnsupported || wantExisting) {
		verifrt.Assert(err != nil && res == nil && probe.ran == 0, "nil-input-resource-is-an-error")
		verifrt.Reach("nil resource")
		return
	}
	if wantUnsupported || wantExisting {
		verifrt.Assert(err != nil && res == nil, "option-error-is-returned")
		verifrt.Assert(probe.ran == 0, "nothing-is-evaluated-when-an-option-fails")
		verifrt.Assert(errors.Is(err, ErrUnsupportedType) == wantUnsupported, "unsupported-value-gives-ErrUnsupportedType")
		verifrt.Assert(errors.Is(err, ErrExistingConstant) == wantExisting, "duplicate-or-predefined-name-gives-ErrExistingConstant")
		verifrt.Reach("rejected")
		return
	}
	verifrt.Assert(err == nil && probe.ran == 1 && len(res) == 1, "evaluation-runs-once-with-valid-options")
	if err != nil || probe.ctx == nil {
		return
	}
	// each supplied variable evaluates to exactly the supplied value (collections spliced, not nested)
	for i := 0; i < k; i++ {
		got, e2 := (&expr.ExternalConstantExpression{Identifier: names[i]}).Evaluate(probe.ctx, probe.in)
		verifrt.Assert(e2 == nil && verifSameValue(got, vals[i]), "variable-evaluates-to-exactly-the-supplied-value")
	}
	ctxv, e3 := (&expr.ExternalConstantExpression{Identifier: "context"}).Evaluate(probe.ctx, probe.in)
	verifrt.Assert(e3 == nil && len(ctxv) == 0, "context-is-the-input-collection")
	ucum, e4 := (&expr.ExternalConstantExpression{Identifier: "ucum"}).Evaluate(probe.ctx, probe.in)
	verifrt.Assert(e4 == nil && len(ucum) == 1 && ucum[0] == system.String("http://unitsofmeasure.org"), "ucum-is-the-UCUM-url")
	unknown := verifrt.NondetString("unknown", 3)
	if !taken[unknown] {
		_, e5 := (&expr.ExternalConstantExpression{Identifier: unknown}).Evaluate(probe.ctx, probe.in)
		verifrt.Assert(errors.Is(e5, expr.ErrConstantNotFound), "unknown-variable-is-an-evaluation-error")
	}
	verifrt.Reach("end")
}
