//go:build verif

package reference

import (
	dtpb "github.com/google/fhir/go/proto/google/fhir/proto/r4/core/datatypes_go_proto"
	"github.com/verily-src/fhirpath-go/internal/verifrt"
)

// verifID draws an id over the FHIR id alphabet [A-Za-z0-9.-], 1..max characters.
func verifID(label string, max int) string {
	n := 1 + verifrt.Choose(label+".len", max)
	s := verifrt.NondetStringN(label, n)
	for i := 0; i < len(s); i++ {
		c := s[i]
		verifrt.Assume((c >= 'A' && c <= 'Z') || (c >= 'a' && c <= 'z') || (c >= '0' && c <= '9') || c == '.' || c == '-')
	}
	return s
}

var verifTypes = []string{"Patient", "List", "Observation", "MedicationRequest"}
var verifBases = []string{"", "http://", "http://a.com/my_fhir-1", "http://h", "https://example.org:8080/fhir/r4", "http://a.b/c"} // "http://": an empty authority

// C19: formatting an identity as a literal reference URI and parsing it back returns the same components, and the
// canonical form equals the input (no redundant slashes), for relative, absolute and versioned forms.
func VerifHarness_C19_LiteralRoundTrip() {
	typ := verifTypes[verifrt.Choose("type", verifrt.Bound(2, len(verifTypes)))]
	base := verifBases[verifrt.Choose("base", verifrt.Bound(3, len(verifBases)))]
	id := verifID("id", verifrt.Bound(1, 3))
	uri := typ + "/" + id
	version := ""
	if verifrt.NondetBool("versioned") {
		version = verifID("version", verifrt.Bound(1, 3))
		uri += "/_history/" + version
	}
	if base != "" {
		uri = base + "/" + uri
	}
	lit, err := LiteralInfoFromURI(uri)
	verifrt.Assert(err == nil && lit != nil, "well-formed-reference-is-accepted")
	if err != nil || lit == nil {
		return
	}
	ident, ok := lit.Identity()
	verifrt.Assert(ok && ident != nil, "reference-has-an-identity")
	if !ok || ident == nil {
		return
	}
	v, hasV := ident.VersionID()
	verifrt.Assert(string(ident.Type()) == typ && ident.ID() == id && v == version && hasV == (version != ""), "parse-returns-the-formatted-components")
	verifrt.Assert(lit.ServiceBaseURL() == base, "service-base-url-is-recovered")
	verifrt.Assert(lit.URIString() == uri, "canonical-form-equals-the-input")
	// the base that parsing recovered is a base that formatting accepts
	same, errB := lit.WithServiceBaseURL(lit.ServiceBaseURL())
	verifrt.Assert(errB == nil && same != nil && same.URIString() == uri, "recovered-service-base-url-is-accepted-back")
	// parse - format - parse
	again, err2 := LiteralInfoFromURI(lit.URIString())
	ok2 := err2 == nil && again != nil
	if ok2 {
		id2, has2 := again.Identity()
		ok2 = has2 && id2.Equal(ident) && again.ServiceBaseURL() == lit.ServiceBaseURL()
	}
	verifrt.Assert(ok2, "parse-format-parse-is-stable")
	verifrt.Reach("end")
}

// C19: fragment references ('#', '#id') round-trip; an invalid fragment id is an error.
func VerifHarness_C19_Fragments() {
	frag := verifrt.NondetString("frag", verifrt.Bound(3, 5))
	valid := true
	for i := 0; i < len(frag); i++ {
		c := frag[i]
		valid = valid && ((c >= 'A' && c <= 'Z') || (c >= 'a' && c <= 'z') || (c >= '0' && c <= '9') || c == '.' || c == '-')
	}
	lit, err := LiteralInfoFromURI("#" + frag)
	if valid {
		ok := err == nil && lit != nil
		if ok {
			f, has := lit.FragmentID()
			ok = has && f == frag && lit.URIString() == "#"+frag
		}
		verifrt.Assert(ok, "fragment-reference-round-trips")
	} else {
		verifrt.Assert(err != nil, "invalid-fragment-id-is-rejected")
	}
	// the same through a Reference element
	lit2, err2 := LiteralInfoOf(&dtpb.Reference{Reference: &dtpb.Reference_Fragment{Fragment: &dtpb.String{Value: frag}}})
	if valid {
		ok := err2 == nil && lit2 != nil
		if ok {
			f, has := lit2.FragmentID()
			ok = has && f == frag
		}
		verifrt.Assert(ok, "fragment-reference-element-round-trips")
	} else {
		verifrt.Assert(err2 != nil, "invalid-fragment-element-is-rejected")
	}
	verifrt.Reach("end")
}

// C19: rejected strings produce an error, never a crash - for arbitrary byte strings.
func VerifHarness_C19_ArbitraryStringsNeverCrash() {
	s := verifrt.NondetString("s", verifrt.Bound(2, 4))
	lit, err := LiteralInfoFromURI(s)
	verifrt.Assert((err == nil) == (lit != nil), "either-a-result-or-an-error")
	_, _ = IdentityFromRelativeURI(s)
	verifrt.Reach("end")
}

// C19: the parsers of one reference string agree on what they accept: a relative reference with an arbitrary id (and
// version) has an identity by IdentityFromRelativeURI exactly when LiteralInfoFromURI gives it one.
func VerifHarness_C19_RelativeParsersAgree() {
	typ := verifTypes[verifrt.Choose("type", 2)]
	// the id is "x" followed by at most one arbitrary byte, or empty; the version comes from a menu (two arbitrary bytes
	// and an arbitrary version through both parsers: 18000 paths, beyond the quick budget)
	id := verifrt.NondetString("idTail", 1)
	if !verifrt.NondetBool("emptyId") {
		id = "x" + id
	}
	uri := typ + "/" + id + []string{"", "/_history/2", "/_history/@", "/_history/", "/_history/a b"}[verifrt.Choose("version", 5)]
	ident, err := IdentityFromRelativeURI(uri)
	lit, err2 := LiteralInfoFromURI(uri)
	var viaLiteral bool
	if err2 == nil && lit != nil {
		_, viaLiteral = lit.Identity()
	}
	verifrt.Assert((err == nil && ident != nil) == viaLiteral, "relative-reference-parsers-accept-the-same-strings")
	verifrt.Reach("end")
}

// C19: relative URI <-> identity.
func VerifHarness_C19_RelativeIdentity() {
	typ := verifTypes[verifrt.Choose("type", len(verifTypes))]
	id := verifID("id", verifrt.Bound(2, 4))
	version := ""
	uri := typ + "/" + id
	if verifrt.NondetBool("versioned") {
		version = verifID("version", 2)
		uri += "/_history/" + version
	}
	ident, err := IdentityFromRelativeURI(uri)
	ok := err == nil && ident != nil
	if ok {
		v, _ := ident.VersionID()
		ok = string(ident.Type()) == typ && ident.ID() == id && v == version && ident.String() == uri
	}
	verifrt.Assert(ok, "relative-uri-identity-round-trips")
	verifrt.Reach("end")
}

// C19: reference identity comparison is reflexive, symmetric and transitive (URI and fragment references, with and
// without a version).
func VerifHarness_C19_IsEquivalence() {
	mk := func(label string, forms []int, types int) *dtpb.Reference {
		typ := verifTypes[verifrt.Choose(label+".type", types)]
		id := []string{"1", "2"}[verifrt.Choose(label+".id", 2)]
		switch forms[verifrt.Choose(label+".form", len(forms))] {
		case 4: // pinned to a version: another reference than the unversioned one, from whichever side it is compared
			return &dtpb.Reference{Reference: &dtpb.Reference_Uri{Uri: &dtpb.String{Value: typ + "/" + id + "/_history/" + []string{"4", "5"}[verifrt.Choose(label+".version", 2)]}}}
		case 5:
			return &dtpb.Reference{Reference: &dtpb.Reference_Uri{Uri: &dtpb.String{Value: "http://h/" + typ + "/" + id + "/_history/4"}}}
		case 0:
			return &dtpb.Reference{Reference: &dtpb.Reference_Uri{Uri: &dtpb.String{Value: typ + "/" + id}}}
		case 1:
			return &dtpb.Reference{Reference: &dtpb.Reference_Uri{Uri: &dtpb.String{Value: "http://h/" + typ + "/" + id}}}
		case 3: // the same resource seen through another service base
			return &dtpb.Reference{Reference: &dtpb.Reference_Uri{Uri: &dtpb.String{Value: "https://b:8443/r4/store/" + typ + "/" + id}}}
		default:
			return &dtpb.Reference{Type: &dtpb.Uri{Value: typ}, Reference: &dtpb.Reference_Fragment{Fragment: &dtpb.String{Value: id}}}
		}
	}
	// (the third reference, needed for transitivity only, takes two of the six forms and one type: 6^3 forms x 4^3 names is beyond
	// the quick budget)
	a, b, c := mk("a", []int{0, 1, 2, 3, 4, 5}, 2), mk("b", []int{0, 1, 2, 3, 4, 5}, 2), mk("c", []int{0, 4}, 1)
	verifrt.Assert(Is(a, a), "is-reflexive")
	verifrt.Assert(Is(a, b) == Is(b, a), "is-symmetric")
	if Is(a, b) && Is(b, c) {
		verifrt.Assert(Is(a, c), "is-transitive")
	}
	verifrt.Reach("end")
}

// verifR4Resources: the resource types of FHIR R4 (hl7.org/fhir/R4/resourcelist.html).
var verifR4Resources = []string{"Account", "ActivityDefinition", "AdverseEvent", "AllergyIntolerance", "Appointment", "AppointmentResponse", "AuditEvent", "Basic", "Binary", "BiologicallyDerivedProduct", "BodyStructure", "Bundle", "CapabilityStatement", "CarePlan", "CareTeam", "CatalogEntry", "ChargeItem", "ChargeItemDefinition", "Claim", "ClaimResponse", "ClinicalImpression", "CodeSystem", "Communication", "CommunicationRequest", "CompartmentDefinition", "Composition", "ConceptMap", "Condition", "Consent", "Contract", "Coverage", "CoverageEligibilityRequest", "CoverageEligibilityResponse", "DetectedIssue", "Device", "DeviceDefinition", "DeviceMetric", "DeviceRequest", "DeviceUseStatement", "DiagnosticReport", "DocumentManifest", "DocumentReference", "EffectEvidenceSynthesis", "Encounter", "Endpoint", "EnrollmentRequest", "EnrollmentResponse", "EpisodeOfCare", "EventDefinition", "Evidence", "EvidenceVariable", "ExampleScenario", "ExplanationOfBenefit", "FamilyMemberHistory", "Flag", "Goal", "GraphDefinition", "Group", "GuidanceResponse", "HealthcareService", "ImagingStudy", "Immunization", "ImmunizationEvaluation", "ImmunizationRecommendation", "ImplementationGuide", "InsurancePlan", "Invoice", "Library", "Linkage", "List", "Location", "Measure", "MeasureReport", "Media", "Medication", "MedicationAdministration", "MedicationDispense", "MedicationKnowledge", "MedicationRequest", "MedicationStatement", "MedicinalProduct", "MedicinalProductAuthorization", "MedicinalProductContraindication", "MedicinalProductIndication", "MedicinalProductIngredient", "MedicinalProductInteraction", "MedicinalProductManufactured", "MedicinalProductPackaged", "MedicinalProductPharmaceutical", "MedicinalProductUndesirableEffect", "MessageDefinition", "MessageHeader", "MolecularSequence", "NamingSystem", "NutritionOrder", "Observation", "ObservationDefinition", "OperationDefinition", "OperationOutcome", "Organization", "OrganizationAffiliation", "Parameters", "Patient", "PaymentNotice", "PaymentReconciliation", "Person", "PlanDefinition", "Practitioner", "PractitionerRole", "Procedure", "Provenance", "Questionnaire", "QuestionnaireResponse", "RelatedPerson", "RequestGroup", "ResearchDefinition", "ResearchElementDefinition", "ResearchStudy", "ResearchSubject", "RiskAssessment", "RiskEvidenceSynthesis", "Schedule", "SearchParameter", "ServiceRequest", "Slot", "Specimen", "SpecimenDefinition", "StructureDefinition", "StructureMap", "Subscription", "Substance", "SubstanceNucleicAcid", "SubstancePolymer", "SubstanceProtein", "SubstanceReferenceInformation", "SubstanceSourceMaterial", "SubstanceSpecification", "SupplyDelivery", "SupplyRequest", "Task", "TerminologyCapabilities", "TestReport", "TestScript", "ValueSet", "VerificationResult", "VisionPrescription"}

// C19: every R4 resource type can be named
// by a relative, an absolute and a versioned literal reference, and the parsed information gives the type back.
func VerifHarness_C19_EveryResourceType() {
	names := verifR4Resources
	typ := names[verifrt.Choose("type", len(names))]
	verifrt.Tag("typeName", typ)
	uri := []string{"", "http://h/fhir/"}[verifrt.Choose("base", 2)] + typ + "/a1" + []string{"", "/_history/2"}[verifrt.Choose("version", 2)]
	lit, err := LiteralInfoFromURI(uri)
	verifrt.Assert(err == nil, "reference-to-every-resource-type-parses")
	if err != nil {
		return
	}
	got, ok := lit.Type()
	verifrt.Assert(ok && string(got) == typ, "parsed-type-is-the-named-type")
	verifrt.Assert(lit.URIString() == uri, "formatting-gives-the-reference-back")
	verifrt.Reach("end")
}

// C19: a typed (strong) reference and the untyped URI reference naming the same resource parse to equal information
// and compare as the same reference - for the resource types whose names exercise the member-name decoding
// (one, two and three words; names ending in letters of "_id").
func VerifHarness_C19_StrongAndWeakAgree() {
	// an arbitrary id (well-formed or not: both forms accept the same ids)
	id := verifrt.NondetString("id", 2)
	verifrt.Assume(len(id) > 0)
	rid := &dtpb.ReferenceId{Value: id}
	var strong *dtpb.Reference
	typ := ""
	switch verifrt.Choose("type", 8) {
	case 0:
		strong, typ = &dtpb.Reference{Reference: &dtpb.Reference_PatientId{PatientId: rid}}, "Patient"
	case 1:
		strong, typ = &dtpb.Reference{Reference: &dtpb.Reference_MedicinalProductManufacturedId{MedicinalProductManufacturedId: rid}}, "MedicinalProductManufactured"
	case 2:
		strong, typ = &dtpb.Reference{Reference: &dtpb.Reference_MedicinalProductPackagedId{MedicinalProductPackagedId: rid}}, "MedicinalProductPackaged"
	case 3:
		strong, typ = &dtpb.Reference{Reference: &dtpb.Reference_SubstanceNucleicAcidId{SubstanceNucleicAcidId: rid}}, "SubstanceNucleicAcid"
	case 4:
		strong, typ = &dtpb.Reference{Reference: &dtpb.Reference_ValueSetId{ValueSetId: rid}}, "ValueSet"
	case 5:
		strong, typ = &dtpb.Reference{Reference: &dtpb.Reference_PlanDefinitionId{PlanDefinitionId: rid}}, "PlanDefinition"
	case 6:
		strong, typ = &dtpb.Reference{Reference: &dtpb.Reference_AppointmentResponseId{AppointmentResponseId: rid}}, "AppointmentResponse"
	default:
		strong, typ = &dtpb.Reference{Reference: &dtpb.Reference_MedicationKnowledgeId{MedicationKnowledgeId: rid}}, "MedicationKnowledge"
	}
	verifrt.Tag("typeName", typ)
	weak := &dtpb.Reference{Reference: &dtpb.Reference_Uri{Uri: &dtpb.String{Value: typ + "/" + id}}}
	is, err := IdentityOf(strong)
	iw, err2 := IdentityOf(weak)
	verifrt.Assert((err == nil) == (err2 == nil), "both-forms-accept-the-same-ids")
	wellFormed := true
	for i := 0; i < len(id); i++ {
		c := id[i]
		wellFormed = wellFormed && ((c >= 'A' && c <= 'Z') || (c >= 'a' && c <= 'z') || (c >= '0' && c <= '9') || c == '-' || c == '.')
	}
	verifrt.Assert((err == nil) == wellFormed, "an-identity-exactly-for-well-formed-ids")
	if err != nil || err2 != nil {
		verifrt.Reach("rejected")
		return
	}
	verifrt.Assert(is.Type() == iw.Type() && is.ID() == iw.ID(), "strong-and-weak-name-the-same-resource")
	verifrt.Assert(string(is.Type()) == typ && is.ID() == id, "strong-reference-decodes-to-its-type-and-id")
	verifrt.Assert(Is(strong, weak) && Is(weak, strong), "strong-and-weak-compare-as-the-same-reference")
	verifrt.Reach("end")
}

// C19: ids of every length up to the FHIR maximum of 64 characters format and parse back - and one more character is
// rejected: the id is 'a' repeated, with a symbolic last byte (so that the accepted alphabet is decided at each length).
func VerifHarness_C19_IdsOfEveryLength() {
	n := []int{1, 2, 63, 64, 65}[verifrt.Choose("length", 5)]
	b := make([]byte, n)
	for i := range b {
		b[i] = 'a'
	}
	last := verifrt.NondetStringN("last", 1)
	b[n-1] = last[0]
	id := string(b)
	c := last[0]
	want := n <= 64 && ((c >= 'A' && c <= 'Z') || (c >= 'a' && c <= 'z') || (c >= '0' && c <= '9') || c == '-' || c == '.')
	lit, err := LiteralInfoFromURI("Patient/" + id)
	verifrt.Assert((err == nil && lit != nil) == want, "an-id-is-accepted-exactly-up-to-64-characters-of-the-id-alphabet")
	if err == nil && lit != nil {
		verifrt.Assert(lit.URIString() == "Patient/"+id, "accepted-id-formats-back")
	}
	strong := &dtpb.Reference{Reference: &dtpb.Reference_PatientId{PatientId: &dtpb.ReferenceId{Value: id}}}
	_, errS := IdentityOf(strong)
	verifrt.Assert((errS == nil) == want, "the-typed-form-accepts-the-same-ids")
	verifrt.Reach("end")
}

// C19: parsing is a function of the string: what LiteralInfoFromURI / LiteralInfoOf report for a URI does not depend
// on which references were parsed before in the process - in particular a URN or canonical URL, whose literal has no
// type of its own and takes the explicit Reference.type of the reference it was found in.
func VerifHarness_C19_ParsingHasNoMemory() {
	uri := []string{"urn:uuid:5a17", "http://x.org/Q", "Patient/1"}[verifrt.Choose("uri", 3)]
	first := verifTypes[verifrt.Choose("firstType", 2)]
	second := verifTypes[2+verifrt.Choose("secondType", 2)]
	bare0, err0 := LiteralInfoFromURI(uri)
	_, hadType := bare0.Type()
	_, errA := LiteralInfoOf(&dtpb.Reference{Type: &dtpb.Uri{Value: first}, Reference: &dtpb.Reference_Uri{Uri: &dtpb.String{Value: uri}}})
	bare1, err1 := LiteralInfoFromURI(uri)
	verifrt.Assert((err0 == nil) == (err1 == nil), "the-same-string-parses-the-same-way-again")
	if err0 == nil && err1 == nil {
		_, hasType := bare1.Type()
		verifrt.Assert(hasType == hadType, "an-earlier-typed-reference-leaves-no-type-behind")
	}
	_, errB := LiteralInfoOf(&dtpb.Reference{Type: &dtpb.Uri{Value: second}, Reference: &dtpb.Reference_Uri{Uri: &dtpb.String{Value: uri}}})
	if uri != "Patient/1" {
		verifrt.Assert(errA == nil && errB == nil, "a-typeless-uri-takes-any-explicit-type")
	}
	verifrt.Reach("end")
}
