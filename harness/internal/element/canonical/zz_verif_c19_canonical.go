//go:build verif

package canonical

import (
	dtpb "github.com/google/fhir/go/proto/google/fhir/proto/r4/core/datatypes_go_proto"
	"github.com/verily-src/fhirpath-go/internal/verifrt"
)

func verifToken(label string, max int, allowEmpty bool) string {
	lo := 1
	if allowEmpty {
		lo = 0
	}
	n := lo + verifrt.Choose(label+".len", max-lo+1)
	s := verifrt.NondetStringN(label, n)
	for i := 0; i < len(s); i++ {
		c := s[i]
		verifrt.Assume((c >= 'A' && c <= 'Z') || (c >= 'a' && c <= 'z') || (c >= '0' && c <= '9') || c == '.' || c == '-')
	}
	return s
}

// C19: well-formed canonical URLs split into url|version#fragment and reassemble unchanged.
func VerifHarness_C19_CanonicalRoundTrip() {
	url := []string{"http://h/Questionnaire/", "urn:x:", "Q"}[verifrt.Choose("prefix", 3)] + verifToken("name", verifrt.Bound(2, 3), false)
	version := verifToken("version", 2, true)
	fragment := verifToken("fragment", 2, true)
	var opts []Option
	if version != "" {
		opts = append(opts, WithVersion(version))
	}
	if fragment != "" {
		opts = append(opts, WithFragment(fragment))
	}
	// options are named, not positional: the caller may list them in either order
	if len(opts) == 2 && verifrt.NondetBool("fragmentFirst") {
		opts[0], opts[1] = opts[1], opts[0]
	}
	c := New(url, opts...)
	want := url
	if version != "" {
		want += "|" + version
	}
	if fragment != "" {
		want += "#" + fragment
	}
	verifrt.Assert(c.GetValue() == want, "canonical-is-url-version-fragment")
	ident, err := IdentityFromReference(c)
	ok := err == nil && ident != nil
	if ok {
		ok = ident.Url == url && ident.Version == version && ident.Fragment == fragment && ident.String() == want
	}
	verifrt.Assert(ok, "canonical-splits-and-reassembles-unchanged")
	verifrt.Reach("end")
}

// C19: rejected canonical strings produce an error, never a crash - for arbitrary byte strings.
func VerifHarness_C19_CanonicalArbitraryNeverCrash() {
	s := verifrt.NondetString("s", verifrt.Bound(3, 6))
	ident, err := IdentityFromReference(&dtpb.Canonical{Value: s})
	verifrt.Assert((err == nil) == (ident != nil), "either-a-result-or-an-error")
	if err == nil && ident != nil {
		// nothing of an accepted string is dropped: its parts reassemble to the string itself
		verifrt.Assert(ident.String() == s, "accepted-canonical-reassembles-to-the-input")
	}
	verifrt.Reach("end")
}
