//go:build verif

package fhirconv

import (
	"fmt"

	dtpb "github.com/google/fhir/go/proto/google/fhir/proto/r4/core/datatypes_go_proto"
	"github.com/verily-src/fhirpath-go/internal/fhir"
	"github.com/verily-src/fhirpath-go/internal/verifrt"
)

// C15-L3: fhir.TimeOfDay accepts exactly the valid fields (full int64 width) and encodes them as microseconds of the day.
func VerifHarness_C15_TimeOfDayAccepts() {
	h, m, s, us := verifrt.NondetInt64("h"), verifrt.NondetInt64("m"), verifrt.NondetInt64("s"), verifrt.NondetInt64("us")
	t, err := fhir.TimeOfDay(h, m, s, us)
	valid := h >= 0 && h < 24 && m >= 0 && m < 60 && s >= 0 && s < 60 && us >= 0 && us < 1000000
	verifrt.Assert((err == nil) == valid, "timeofday-accepts-exactly-valid-fields")
	if err == nil {
		verifrt.Assert(t.ValueUs == ((h*60+m)*60+s)*1000000+us, "timeofday-value-us")
		wantP := dtpb.Time_MICROSECOND
		if us == 0 {
			wantP = dtpb.Time_SECOND
		} else if us%1000 == 0 {
			wantP = dtpb.Time_MILLISECOND
		}
		verifrt.Assert(t.Precision == wantP, "timeofday-precision")
	}
	verifrt.Reach("end")
}

// C15-L3: for every valid (h,m,s,us), TimeToString(TimeOfDay(...)) prints exactly those fields.
func VerifHarness_C15_TimeOfDayToString() {
	h, m, s := int64(verifrt.NondetIntRange("h", 0, 23)), int64(verifrt.NondetIntRange("m", 0, 59)), int64(verifrt.NondetIntRange("s", 0, 59))
	us := int64(verifrt.NondetIntRange("us", 0, 999999))
	t, err := fhir.TimeOfDay(h, m, s, us)
	verifrt.Assert(err == nil, "timeofday-accepts-valid-fields")
	if err != nil {
		return
	}
	got := TimeToString(t)
	var want string
	switch {
	case us == 0:
		want = fmt.Sprintf("%02d:%02d:%02d", h, m, s)
	case us%1000 == 0:
		want = fmt.Sprintf("%02d:%02d:%02d.%03d", h, m, s, us/1000)
	default:
		want = fmt.Sprintf("%02d:%02d:%02d.%06d", h, m, s, us)
	}
	verifrt.Assert(got == want, "timetostring-prints-the-fields")
	verifrt.Reach("end")
}

// C15-L3: TimeToString on every in-range value_us (0 <= v < 24h) prints in-range fields at each precision.
func VerifHarness_C15_TimeToStringInRange() {
	v := int64(verifrt.NondetIntRange("value_us", 0, 86399999999))
	p := []dtpb.Time_Precision{dtpb.Time_SECOND, dtpb.Time_MILLISECOND, dtpb.Time_MICROSECOND, dtpb.Time_PRECISION_UNSPECIFIED}[verifrt.Choose("precision", 4)]
	got := TimeToString(&dtpb.Time{ValueUs: v, Precision: p})
	h, m, s, us := v/3600000000, v/60000000%60, v/1000000%60, v%1000000
	var want string
	switch p {
	case dtpb.Time_SECOND:
		want = fmt.Sprintf("%02d:%02d:%02d", h, m, s)
	case dtpb.Time_MILLISECOND:
		want = fmt.Sprintf("%02d:%02d:%02d.%03d", h, m, s, us/1000)
	default:
		want = fmt.Sprintf("%02d:%02d:%02d.%06d", h, m, s, us)
	}
	verifrt.Assert(got == want, "timetostring-in-range-fields")
	verifrt.Reach("end")
}

// C15-L2 (FHIR side): fhirconv.ToInteger for Integer / UnsignedInt / PositiveInt into narrow targets:
// succeeds exactly when the value is representable, and then is numerically equal.
func VerifHarness_C15_FhirToInteger() {
	switch verifrt.Choose("from", 3) {
	case 0:
		x := verifrt.NondetInt32("x")
		switch verifrt.Choose("to", 4) {
		case 0:
			got, err := ToInteger[int8](&dtpb.Integer{Value: x})
			fits := x >= -128 && x <= 127
			verifrt.Assert((err == nil) == fits && (!fits || int32(got) == x), "fhir-integer-to-int8")
		case 1:
			got, err := ToInteger[uint16](&dtpb.Integer{Value: x})
			fits := x >= 0 && x <= 65535
			verifrt.Assert((err == nil) == fits && (!fits || int32(got) == x), "fhir-integer-to-uint16")
		case 2:
			got, err := ToInteger[uint64](&dtpb.Integer{Value: x})
			fits := x >= 0
			verifrt.Assert((err == nil) == fits && (!fits || got == uint64(x)), "fhir-integer-to-uint64")
		default:
			got, err := ToInteger[int64](&dtpb.Integer{Value: x})
			verifrt.Assert(err == nil && got == int64(x), "fhir-integer-to-int64")
		}
	case 1:
		x := verifrt.NondetUint32("x")
		switch verifrt.Choose("to", 3) {
		case 0:
			got, err := ToInteger[int32](&dtpb.UnsignedInt{Value: x})
			fits := x <= 2147483647
			verifrt.Assert((err == nil) == fits && (!fits || uint32(got) == x), "fhir-unsignedint-to-int32")
		case 1:
			got, err := ToInteger[int16](&dtpb.UnsignedInt{Value: x})
			fits := x <= 32767
			verifrt.Assert((err == nil) == fits && (!fits || uint32(got) == x), "fhir-unsignedint-to-int16")
		default:
			got, err := ToInteger[uint8](&dtpb.UnsignedInt{Value: x})
			fits := x <= 255
			verifrt.Assert((err == nil) == fits && (!fits || uint32(got) == x), "fhir-unsignedint-to-uint8")
		}
	default:
		x := verifrt.NondetUint32("x")
		got, err := ToInteger[int32](&dtpb.PositiveInt{Value: x})
		fits := x <= 2147483647
		verifrt.Assert((err == nil) == fits && (!fits || uint32(got) == x), "fhir-positiveint-to-int32")
	}
	verifrt.Reach("end")
}

// verifClockText draws a time of day from a menu plus a fraction of 0..6 symbolic digits (the clock fields are
// exercised by the TimeOfDay harnesses; here the fraction is the subject).
func verifClockText(label string) string {
	b := []byte([]string{"00:00:00", "23:59:59", "10:30:07"}[verifrt.Choose(label+".clock", 3)])
	nf := verifrt.Choose(label+".fractionDigits", 7)
	if nf > 0 {
		b = append(b, '.')
		for i := 0; i < nf; i++ {
			if i == 0 || i == nf-1 || verifrt.Thorough() {
				b = append(b, byte('0'+verifrt.NondetIntRange(label+".f", 0, 9))) // first and last digit symbolic (all in the thorough tier)
			} else {
				b = append(b, '0')
			}
		}
	}
	return string(b)
}

// C15-L3c: the FHIR primitive helpers are mutual inverses on what the parsers accept: for a dateTime / instant / time
// text with 0..6 fraction digits and each offset form, parse, format and parse again returns the same element (value,
// precision and offset) - so the element the parser produced hides nothing its text does not show.
func VerifHarness_C15_FhirTemporalParseFormatParse() {
	verifrt.SplitCalendar()
	clock := verifClockText("t")
	zone := []string{"Z", "+05:30", "-08:00"}[verifrt.Choose("zone", 3)]
	switch verifrt.Choose("type", 3) {
	case 0:
		e, err := fhir.ParseDateTime("2024-02-29T" + clock + zone)
		if err != nil {
			verifrt.Reach("rejected")
			return
		}
		back, err2 := fhir.ParseDateTime(DateTimeToString(e))
		verifrt.Assert(err2 == nil, "formatted-dateTime-parses")
		verifrt.Assert(err2 != nil || (back.ValueUs == e.ValueUs && back.Precision == e.Precision && back.Timezone == e.Timezone), "dateTime-parse-after-format-is-the-identity")
	case 1:
		e, err := fhir.ParseInstant("2024-02-29T" + clock + zone)
		if err != nil {
			verifrt.Reach("rejected")
			return
		}
		back, err2 := fhir.ParseInstant(InstantToString(e))
		verifrt.Assert(err2 == nil, "formatted-instant-parses")
		verifrt.Assert(err2 != nil || (back.ValueUs == e.ValueUs && back.Precision == e.Precision && back.Timezone == e.Timezone), "instant-parse-after-format-is-the-identity")
	default:
		e, err := fhir.ParseTime(clock)
		if err != nil {
			verifrt.Reach("rejected")
			return
		}
		back, err2 := fhir.ParseTime(TimeToString(e))
		verifrt.Assert(err2 == nil, "formatted-time-parses")
		verifrt.Assert(err2 != nil || (back.ValueUs == e.ValueUs && back.Precision == e.Precision), "time-parse-after-format-is-the-identity")
	}
	verifrt.Reach("end")
}

// C15-L3d: a dateTime / instant element renders with the zone it carries, as its FHIR JSON does (the google/fhir
// unmarshaller keeps the zone as written): 'Z' stays 'Z', a numeric offset stays that offset, a zone given by the name
// UTC renders as +00:00. The instant is symbolic within a day; precision and zone come from menus.
func VerifHarness_C15_ZoneSuffixIsKept() {
	us := int64(1709164800000000) + int64(verifrt.NondetIntRange("secondOfDay", 0, 86399))*1000000
	zone := []string{"Z", "UTC", "+00:00", "+05:30", "-08:00"}[verifrt.Choose("zone", 5)]
	suffix := zone
	if zone == "UTC" {
		suffix = "+00:00"
	}
	var text string
	if verifrt.NondetBool("instant") {
		text = InstantToString(&dtpb.Instant{ValueUs: us, Timezone: zone, Precision: []dtpb.Instant_Precision{dtpb.Instant_SECOND, dtpb.Instant_MILLISECOND, dtpb.Instant_MICROSECOND}[verifrt.Choose("precision", 3)]})
	} else {
		text = DateTimeToString(&dtpb.DateTime{ValueUs: us, Timezone: zone, Precision: []dtpb.DateTime_Precision{dtpb.DateTime_SECOND, dtpb.DateTime_MILLISECOND, dtpb.DateTime_MICROSECOND}[verifrt.Choose("precision", 3)]})
	}
	ok := len(text) > len(suffix) && text[len(text)-len(suffix):] == suffix
	if zone == "Z" {
		ok = ok && text[len(text)-6] != '+' // not '+00:00' in disguise
	}
	verifrt.Assert(ok, "zone-renders-as-written")
	verifrt.Reach("end")
}

func VerifHarness_C15_NumericOffsetsOfEitherSign() { verifNumericOffsets() }
