//go:build verif

package fhirconv

// C02: ... dates and times as the same instant, precision and offset: the offset read from an element is the offset
// written in it (shared body with C15).
func VerifHarness_C02_NumericOffsetsOfEitherSign() { verifNumericOffsets() }
