//go:build verif

package fhirconv

import (
	dtpb "github.com/google/fhir/go/proto/google/fhir/proto/r4/core/datatypes_go_proto"
	"github.com/verily-src/fhirpath-go/internal/verifrt"
)

// C15/C02: a numeric zone offset of either sign with any hour and minute is the offset of the time read from the
// element: -03:30 is three and a half hours west, not two and a half. The offset text is symbolic (sign and four digits).
func verifNumericOffsets() {
	negative := verifrt.NondetBool("negative")
	hh, mm := verifrt.NondetIntRange("hh", 0, 14), verifrt.NondetIntRange("mm", 0, 59)
	sign := "+"
	if negative {
		sign = "-"
	}
	zone := sign + string([]byte{byte('0' + hh/10), byte('0' + hh%10), ':', byte('0' + mm/10), byte('0' + mm%10)})
	t, err := DateTimeToTime(&dtpb.DateTime{ValueUs: 1709164800000000, Timezone: zone, Precision: dtpb.DateTime_SECOND})
	verifrt.Assert(err == nil, "numeric-offset-is-accepted")
	if err == nil {
		_, offset := t.Zone()
		want := hh*3600 + mm*60
		if negative {
			want = -want
		}
		verifrt.Assert(offset == want, "numeric-offset-of-either-sign-is-read-exactly")
		verifrt.Assert(t.UnixMicro() == 1709164800000000, "the-instant-is-the-element's")
	}
	verifrt.Reach("end")
}
