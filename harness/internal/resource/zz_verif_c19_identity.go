//go:build verif

package resource

import "github.com/verily-src/fhirpath-go/internal/verifrt"

func verifID(label string, max int) string {
	n := 1 + verifrt.Choose(label+".len", max)
	s := verifrt.NondetStringN(label, n)
	for i := 0; i < len(s); i++ {
		c := s[i]
		verifrt.Assume((c >= 'A' && c <= 'Z') || (c >= 'a' && c <= 'z') || (c >= '0' && c <= '9') || c == '.' || c == '-')
	}
	return s
}

// C19: NewIdentity -> String / RelativeURIString -> NewIdentityFromURL / NewIdentityFromHistoryURL returns the same components.
func VerifHarness_C19_IdentityURLRoundTrip() {
	typ := []string{"Patient", "List", "Observation"}[verifrt.Choose("type", 3)]
	id := verifID("id", verifrt.Bound(2, 4))
	base := []string{"", "http://h/", "https://example.org/fhir/"}[verifrt.Choose("base", 3)]
	ident, err := NewIdentity(typ, id, "")
	verifrt.Assert(err == nil && ident != nil, "known-type-is-accepted")
	if err != nil {
		return
	}
	verifrt.Assert(ident.String() == typ+"/"+id && ident.RelativeURIString() == typ+"/"+id, "identity-formats-as-type-slash-id")
	back, err2 := NewIdentityFromURL(base + ident.RelativeURIString())
	verifrt.Assert(err2 == nil && back.Equal(ident), "url-round-trip")
	version := verifID("version", 2)
	withV := ident.WithNewVersion(version)
	s, ok := withV.RelativeVersionedURIString()
	verifrt.Assert(ok && s == typ+"/"+id+"/_history/"+version, "versioned-form")
	back2, err3 := NewIdentityFromHistoryURL(base + s) // the relative form (base "") is what the identity itself formats
	verifrt.Assert(err3 == nil && back2.Equal(withV), "history-url-round-trip")
	// the type is a whole path segment: other characters in front of it make another (unknown) segment, not a prefix to skip
	junk := []string{"x-", "foo.", "Not"}[verifrt.Choose("junk", 3)]
	_, err4 := NewIdentityFromURL(base + junk + ident.RelativeURIString())
	_, err5 := NewIdentityFromHistoryURL(base + junk + s)
	verifrt.Assert(err4 != nil && err5 != nil, "type-with-other-characters-in-front-is-rejected")
	verifrt.Reach("end")
}

// C19: an unknown resource type is rejected with an error.
func VerifHarness_C19_UnknownType() {
	name := verifrt.NondetString("type", verifrt.Bound(4, 7))
	ident, err := NewIdentity(name, "x", "")
	verifrt.Assert((err == nil) == IsType(name) && (err == nil) == (ident != nil), "unknown-type-is-an-error")
	verifrt.Reach("end")
}
