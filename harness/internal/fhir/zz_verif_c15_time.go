//go:build verif

package fhir

import (
	"time"

	"github.com/verily-src/fhirpath-go/internal/verifrt"
)

// C15-L3: fhir.Time(t) yields a time of day 0 <= value_us < 24h for every instant (also before 1970).
func VerifHarness_C15_TimeOfInstant() {
	sec := verifrt.NondetInt64("sec")
	nsec := verifrt.NondetInt64("nsec")
	verifrt.Assume(sec >= -62135596800 && sec <= 253402300799 && nsec >= 0 && nsec < 1000000000)
	t := time.Unix(sec, nsec).UTC()
	got := Time(t)
	verifrt.Assert(got.ValueUs >= 0 && got.ValueUs < 86400000000, "time-of-day-in-range")
	// and it is the time of day of the instant
	sod := ((sec%86400)+86400)%86400
	verifrt.Assert(got.ValueUs == sod*1000000+nsec/1000, "time-of-day-of-instant")
	verifrt.Reach("end")
}

// C15-L4: extractTimezone prints sign, hh, mm of every offset in (-24h, +24h); seconds are dropped.
func VerifHarness_C15_ExtractTimezone() {
	off := verifrt.NondetIntRange("offset", -86399, 86399)
	t := time.Unix(0, 0).In(time.FixedZone("x", off))
	got := extractTimezone(t)
	a := off
	sign := byte('+')
	if off < 0 {
		a, sign = -off, '-'
	}
	hh, mm := a/3600, a%3600/60
	want := string([]byte{sign, byte('0' + hh/10), byte('0' + hh%10), ':', byte('0' + mm/10), byte('0' + mm%10)})
	verifrt.Assert(got == want, "timezone-sign-hh-mm")
	verifrt.Reach("end")
}
