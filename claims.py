# Claims table for MANIFEST.json (see gen_manifest.py). Keep in step with DESIGN.md.
HOOK_COMMITS = []
NOTES = ("One technique family: bounded symbolic execution of the real code (go/ssa of /repo's current tree, rebuilt on every run) with SMT solvers "
         "deciding every obligation; bounds, models and stubs are listed per run in the evidence file. 'holds' always means: for all values inside "
         "the stated bounds. Genuine defects found while building the checks were repaired in /repo ('fix:' commits) or recorded in known_findings.json.")

BASE_NOTE = ("Trusted base: go/ssa construction; the gosmt interpreter and its environment models (errors/fmt/strings leaves, math/big.Int as an SMT integer "
             "with shopspring/decimal, time.parse, net/url and strconv executed from their real source on top of it, time.Time as instant+offset, regexp via "
             "regexp/syntax + backtracking, reflect and protoreflect descriptor queries resolved from go/types); the SMT solvers (z3 5.1 + z3 4.8.12 portfolio, "
             "cvc5 cross-check in the thorough tier). Paths that reach unmodelled code are printed INCONCLUSIVE and counted in evidence, never folded into "
             "success; counterexamples are reported only after native replay against the real build; sampled passing paths are replayed natively too.")

T = "SMT-based bounded symbolic execution of the real code from go/ssa"

CLAIMED = {
 "C01": {"technique": T + " (implicit no-panic obligations: bounds, nil, division, type assertion, explicit panic, callee contracts)",
  "text": "Every operator node and every function-table entry (all argument counts its bounds accept), with receiver and arguments ranging over every value form with full-width symbolic payloads, returns a collection or an error: the solver shows no index/slice/nil/division/assertion/panic site is reachable, or produces the input. Field navigation is covered for harness-built resources of symbolic shape (see C02); string-literal decoding for every body the lexer lets through; termination through the unwinding bound plus 'hang' candidates replayed under a time limit. The parse-tree visitor is executed over hand-built trees for operators, polarity, literals and calls (C06, C07, C16, C17 harnesses of package parser); the ANTLR recogniser (text to tree) and Patch are outside the claim.",
  "design_ref": "DESIGN.md §4 C01", "note": BASE_NOTE},
 "C02": {"technique": T + " (protoreflect reads answered from the generated struct types; resource shape symbolic; the message tree stands in for the JSON tree)",
  "text": "Reduced scope, stated: the real TypeExpression / FieldExpression / IndexExpression are executed over harness-built Patient and Observation messages of symbolic shape (0..2 repetitions at each repeated level, optional elements present or absent, each variant of the choice elements). Dotted paths yield exactly the message's own nodes at that path, in document order, repeated elements flattened, absent ones contributing nothing; choice elements yield the chosen value; typed, untyped and fragment references read back through `reference` as Type/id[/_history/vid], the URI and #id; `.value` of primitives yields the denoted System value; proto-only fields are not reachable; unknown names are errors. Outside the claim: every other R4 resource type (the model handles any generated message, the harnesses build two), the google/fhir JSON mapping itself (the message tree is taken as the JSON tree), contained resources and Bundle entries (protoreflect-based unwrapping), extensions.",
  "design_ref": "DESIGN.md §9.7", "note": BASE_NOTE},
 "C03": {"technique": T + " (frame obligations on protected heap cells)",
  "text": "With the input collection, environment-variable collections (including the cells between len and cap) and the expression tree protected, no operator node and no table function can reach a store into them; returned FHIR elements are the inputs' own nodes. FHIR primitive elements in every shape are protected while operators convert them; navigation over a protected Patient of symbolic shape writes nothing either. Contained-resource and Bundle unwrapping are outside the claim.",
  "design_ref": "DESIGN.md §4 C03", "note": BASE_NOTE},
 "C04": {"technique": T + " (read-only-sharing premises; clock as nondeterministic stub; table isolation over two-step histories)",
  "text": "The premises of race-freedom and determinism are decided instead of schedules: no evaluation step writes to any package-level variable, to the expression tree or to its inputs; each Evaluate builds a fresh context and reads the clock once; now/today/timeOfDay are functions of that instant; function tables of successive Compile configurations are isolated for a symbolic function name. Compile isolation is also decided at the public Compile, the recogniser executed on menu texts, for a history of calls with and without a function-registering option. Actual interleavings are outside the claim.",
  "design_ref": "DESIGN.md §4 C04", "note": BASE_NOTE},
 "C05": {"technique": T + " (differential vs reference comparison model; relational laws)",
  "text": "TryEqual / Less and Collection.TryEqual agree with a reference model on symbolic pairs and triples of every System type (Date/DateTime/Time at every precision pair inside a calendar window), are symmetric, at most one of < = > holds, < is transitive; collections are equal iff every pair is.",
  "design_ref": "DESIGN.md §4 C05", "note": BASE_NOTE},
 "C06": {"technique": T + " (truth tables and algebraic laws over symbolic operand forms)",
  "text": "and/or/xor/implies/not and the singleton rule of where/exists/all/iif/ToBool match the FHIRPath tables for every ordered pair of operand forms (literal, FHIR element, computed value, environment variable, non-Boolean singleton, empty, multi-item) with symbolic Booleans; commutativity and implies = not-or hold.",
  "design_ref": "DESIGN.md §4 C06", "note": BASE_NOTE},
 "C07": {"technique": T + " (every operator x position and every table entry x arity x position with the empty collection supplied three ways)",
  "text": "Every operator and every implemented non-aggregate function yields empty on an empty input, and an empty single-value argument yields empty or an error, with the other operands ranging over symbolic forms; `&` treats empty as ''.",
  "design_ref": "DESIGN.md §4 C07", "note": BASE_NOTE},
 "C08": {"technique": T + " (differential vs wide-integer / exact-rational reference)",
  "text": "Integer + - * / div mod, unary minus and FHIR integer operands: exact when representable, empty on overflow or zero divisor, for all int32 pairs (full width). Decimal operators against exact rational arithmetic for symbolic mantissas (bounded digits, listed scales) with shopspring/decimal executed from source. floor/ceiling/truncate/abs/round on Integers and Decimals (up to 22 digits, scales to 20) against exact integer arithmetic on the mantissa; any float64 detour is encoded exactly (correctly rounded decimal->float64, one fork per binade).",
  "design_ref": "DESIGN.md §4 C08", "note": BASE_NOTE},
 "C09": {"technique": T + " (differential vs reference calendar; year/month case-split, day/time/amount symbolic)",
  "text": "Rounding helpers, unit dispatch, duration and year/month conversion kernels over full ranges; Time +/- quantity wraps around midnight; Date/DateTime +/- calendar quantities equal the reference calendar computation, preserve precision, round-trip and are monotone, inside a stated calendar window and amount range.",
  "design_ref": "DESIGN.md §4 C09", "note": BASE_NOTE},
 "C10": {"technique": T + " (differential vs list reference on bounded collections with symbolic items)",
  "text": "where/select/exists/all/empty/count/first/last/tail/skip/take/index/distinct/isDistinct/exclude/intersect/extension against list references for collections up to the bound whose items (Integers, FHIR integers, strings, complex elements) have symbolic content; take/skip/index for every int32.",
  "design_ref": "DESIGN.md §4 C10", "note": BASE_NOTE},
 "C12": {"technique": T + " (type names as symbolic strings; registry contents dumped from the real code as data)",
  "text": "TypeSpecifier.Is is reflexive, transitive, namespace-respecting and terminates; primitive specialisations, hierarchy soundness against the real element/resource registry, name resolution, TypeOf and is/as on System values and harness-built FHIR elements; the compiler's resolution of written type specifiers (parse-tree visitor over hand-built trees).",
  "design_ref": "DESIGN.md §4 C12", "note": BASE_NOTE},
 "C13": {"technique": T + " (strings as byte tuples through the real strconv/decimal/time parsers)",
  "text": "For each target type the table-bound toT/convertsToT pair: convertsToT iff toT non-empty, never an error on a single item, result of type T, idempotent, conversion matrix for non-String sources; Boolean/Integer string round trip.",
  "design_ref": "DESIGN.md §4 C13", "note": BASE_NOTE},
 "C14": {"technique": T + " (valid-UTF-8 byte tuples; differential vs rune-based reference)",
  "text": "length, toChars, substring (every int32 start/length), indexOf, contains, startsWith, endsWith, replace, upper, lower against a character-based reference for every valid UTF-8 string up to the bound; the relational laws.",
  "design_ref": "DESIGN.md §4 C14", "note": BASE_NOTE},
 "C15": {"technique": T + " (full-width integer narrowing; time-of-day and offset kernels)",
  "text": "narrow.ToInteger for all 11x11 integer type pairs over the full value range; fhirconv.ToInteger; fhir.TimeOfDay/Time/extractTimezone and fhirconv.TimeToString field round trips for every value. String-literal escapes incl. \\uXXXX; proto<->System round trips (Date/DateTime/Time for every precision enum and zone spelling, Decimal, Integer, Quantity); Time/DateTime literals with 0-4 fraction digits re-parse from their canonical text to an equal value (no hidden sub-second state).",
  "design_ref": "DESIGN.md §4 C15", "note": BASE_NOTE},
 "C16": {"technique": T + " (function table obtained by executing the package initialiser; finite table checks pushed through the same pipeline)",
  "text": "For every entry of the base+experimental table and every accepted argument count: no arity error; every specification name present with bounds admitting its specified counts; each name bound to the implementation of that name; unimplemented names fail explicitly. Compile's own acceptance test is decided too: the parse-tree visitor's VisitFunction is executed over hand-built parse trees (every table entry, 0..max+1 arguments, function and method form, six places in an expression; a custom function likewise). The ANTLR recogniser that turns text into that tree is outside the claim.",
  "design_ref": "DESIGN.md §4 C16", "note": BASE_NOTE},
 "C17": {"technique": T + " (option lists with symbolic names; reflect model for custom functions)",
  "text": "Evaluate with up to 2/3 EnvVariable options with symbolic names and every value kind: ErrExistingConstant / ErrUnsupportedType exactly when due, nothing evaluated on option error, variables evaluate to the supplied value, %context/%ucum, unknown variable is an error; custom function registration and wrapper behaviour for a menu of signatures.",
  "design_ref": "DESIGN.md §4 C17", "note": BASE_NOTE},
 "C19": {"technique": T + " (byte-tuple strings through the real regexp programs and net/url)",
  "text": "Identity / literal reference / canonical formatting and parsing are mutual inverses for symbolic ids and versions over the id alphabet and a menu of bases; fragments; arbitrary byte strings never crash; reference.Is is an equivalence on URI/fragment references. Typed (oneof) references are outside the claim.",
  "design_ref": "DESIGN.md §4 C19", "note": BASE_NOTE},
}

NOT_APPLICABLE = {
 "C11": "the deciding code is the ANTLR recogniser (lexer DFA, ATN simulation over generated tables): the engine executes it, but only on concrete text, so a claim about every expression tree and rendering could only be enumerated run by run, which is not a solver verdict; a grammar model would not be the code (DESIGN.md §5, §9.6 round 8)",
 "C18": "every patch step is protoreflect traversal/mutation located by pointer identity; oracle is the JSON tree (DESIGN.md §5)",
 "C20": "reflection-built registry and protoreflect/protorange; the finite-schema quantifier is enumeration, not a solver question (DESIGN.md §5)",
}
