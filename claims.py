# Claims table for MANIFEST.json (see gen_manifest.py). Keep in step with DESIGN.md.
HOOK_COMMITS = []
NOTES = ("One technique family: bounded symbolic execution of the real code (go/ssa) with an SMT solver deciding every obligation; "
         "bounds, models and stubs are listed per run in the evidence file. 'holds' always means: for all values inside the stated bounds.")

BASE_NOTE = ("Trusted base: go/ssa construction, the gosmt interpreter and its environment models (errors/fmt/strings leaves, math/big.Int as SMT Int, "
             "time.Time as instant+offset, regexp via regexp/syntax + backtracking), the SMT solvers. Paths that reach unmodelled code are reported "
             "INCONCLUSIVE, never as success; counterexamples are reported only after native replay against the real build.")

CLAIMED = {
 "C08": {
  "technique": "SMT-based bounded symbolic execution of go/ssa (differential vs wide-integer reference)",
  "text": "For all int32 operand pairs (full width, no sampling) Integer.Add/Sub/Mul are exact when the result is representable and report overflow otherwise; decided by z3 over the SSA of the real methods.",
  "design_ref": "DESIGN.md §4 C08",
  "note": BASE_NOTE,
 },
}

PENDING = "not yet claimed in this revision: the check is being built (solver-based technique applies; see DESIGN.md §4)"
NOT_APPLICABLE = {
 "C02": "navigation is protoreflect descriptor lookup + dynamic message reads against a jsonformat oracle: no code on the path is encodable by the SSA/SMT engine (DESIGN.md §5)",
 "C11": "the deciding code is the ANTLR ATN interpreter over generated tables; a grammar model would not be the code (DESIGN.md §5)",
 "C18": "every patch step is protoreflect traversal/mutation located by pointer identity; oracle is the JSON tree (DESIGN.md §5)",
 "C20": "reflection-built registry and protoreflect/protorange; the finite-schema quantifier is enumeration, not a solver question (DESIGN.md §5)",
}
for p in ["C01","C03","C04","C05","C06","C07","C09","C10","C12","C13","C14","C15","C16","C17","C19"]:
    if p not in CLAIMED:
        NOT_APPLICABLE[p] = PENDING
