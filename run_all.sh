#!/bin/sh
# usage: ./run_all.sh [quick|thorough] [props...]   -- runs the checks one after another and prints a summary
tier=${1:-quick}; shift
props=${*:-C01 C02 C03 C04 C05 C06 C07 C08 C09 C10 C12 C13 C14 C15 C16 C17 C19}
here=$(cd "$(dirname "$0")" && pwd); cd "$here"; mkdir -p .work/logs
for p in $props; do
  start=$(date +%s)
  ./check $p $tier > .work/logs/$p.$tier.log 2>&1
  rc=$?
  end=$(date +%s)
  echo "$p rc=$rc $((end-start))s $(grep -c '^VIOLATION' .work/logs/$p.$tier.log) violations, $(grep -c '^KNOWN-FINDING' .work/logs/$p.$tier.log) known, $(grep -c 'INCONCLUSIVE\|INCOMPLETE' .work/logs/$p.$tier.log) inconclusive-lines, $(grep -c SPURIOUS .work/logs/$p.$tier.log) spurious"
done
