package main

import (
	"fmt"
	"os"
	"time"

	"golang.org/x/tools/go/packages"
	"golang.org/x/tools/go/ssa"
	"golang.org/x/tools/go/ssa/ssautil"
)

func main() {
	mode := packages.LoadAllSyntax
	if os.Args[1] == "syntax" {
		mode = packages.LoadSyntax
	}
	t0 := time.Now()
	cfg := &packages.Config{Mode: mode, Dir: "/repo", Env: append(os.Environ(), "GOFLAGS=-mod=mod", "GOPROXY=off")}
	pkgs, err := packages.Load(cfg, os.Args[2:]...)
	fmt.Println("load", time.Since(t0), err, len(pkgs))
	n := 0
	packages.Visit(pkgs, nil, func(p *packages.Package) { n++; for _, e := range p.Errors { fmt.Println(e) } })
	fmt.Println("total pkgs", n)
	t1 := time.Now()
	prog, sp := ssautil.AllPackages(pkgs, ssa.InstantiateGenerics)
	fmt.Println("create", time.Since(t1), len(sp))
	t2 := time.Now()
	for _, p := range sp {
		if p != nil {
			p.Build()
		}
	}
	_ = prog
	fmt.Println("build initial", time.Since(t2))
}
