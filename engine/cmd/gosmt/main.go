package main

import (
	"flag"
	"fmt"
	"os"
	"time"

	"gosmt/smt"
	"gosmt/symex"
)

func main() {
	if len(os.Args) < 2 {
		fmt.Println("usage: gosmt run <property> [--tier quick|thorough]")
		os.Exit(2)
	}
	switch os.Args[1] {
	case "run":
		os.Exit(runCmd(os.Args[2:]))
	case "debug":
		os.Exit(debugCmd(os.Args[2:]))
	}
	os.Exit(2)
}

func debugCmd(args []string) int {
	fs := flag.NewFlagSet("debug", flag.ExitOnError)
	trace := fs.Bool("trace", false, "")
	only := fs.String("only", "", "")
	fs.Parse(args[1:])
	prop := args[0]
	t0 := time.Now()
	p, err := symex.Load(symex.LoadConfig{RepoDir: "/repo", HarnessDir: "/verif/harness", RTDir: "/verif/rt/verifrt"})
	if err != nil {
		fmt.Println("load error:", err)
		return 2
	}
	fmt.Printf("loaded in %v\n", time.Since(t0))
	for _, h := range p.Harnesses(prop) {
		if *only != "" && h.Name() != *only {
			continue
		}
		s, err := smt.NewSolver("z3-new", 10000)
		if err != nil {
			fmt.Println(err)
			return 2
		}
		ex := symex.NewExec(p, h, s, symex.Limits{MaxPaths: 5000, Unwind: 8, MaxDepth: 200, MaxSteps: 2000000})
		ex.Trace = *trace
		t1 := time.Now()
		ex.Run()
		s.Close()
		fmt.Printf("== %s: paths=%d %v steps=%d queries=%d solver=%dms wall=%v\n", h.Name(), ex.Paths, ex.PathsByEnd, ex.Steps, s.Queries, s.Millis, time.Since(t1))
		for _, o := range ex.SortedObs() {
			fmt.Printf("   ob %-70s checked=%d trivial=%d unsat=%d sat=%d inconcl=%d\n", o.ID, o.Checked, o.Trivial, o.Discharged, o.Sat, o.Inconcl)
		}
		for _, c := range ex.SortedCands() {
			fmt.Printf("   CAND %s known=%q draws=%v\n", c.Obligation, c.Known, c.Draws)
		}
		for k, v := range ex.Unsupported {
			fmt.Printf("   UNSUPPORTED x%d: %s\n", v, k)
		}
		for _, k := range ex.Incomplete {
			fmt.Printf("   INCOMPLETE: %s\n", k)
		}
		fmt.Printf("   reached=%v\n", ex.Reached)
	}
	return 0
}

func runCmd(args []string) int { return 0 }
