package main

import (
	"encoding/json"
	"flag"
	"fmt"
	"os"
	"os/exec"
	"path/filepath"
	"sort"
	"strconv"
	"strings"
	"sync"
	"time"

	"gosmt/smt"
	"gosmt/symex"

	"golang.org/x/tools/go/ssa"
)

// verifDir is where harnesses, known findings and evidence live (GOSMT_VERIF_DIR overrides it for background runs from a snapshot).
var verifDir = func() string {
	if d := os.Getenv("GOSMT_VERIF_DIR"); d != "" {
		return d
	}
	return "/verif"
}()

// repoDir is the tree the encoding is generated from and the replays run in: /repo for every registered command.
// GOSMT_REPO_DIR is a development aid (evaluating a seeded change in a scratch worktree while /repo stays as it is,
// e.g. while a long background run reads it); a run with it set leaves evidence/<id>.json alone.
var repoDir = func() string {
	if d := os.Getenv("GOSMT_REPO_DIR"); d != "" {
		return d
	}
	return "/repo"
}()

// witnessRel is where witness files go, relative to verifDir: evidence/witness for a full run on /repo, a scratch
// directory for partial runs and runs against a scratch tree (so that they leave the committed witnesses alone).
var witnessRel = filepath.Join("evidence", "witness")

func main() {
	if len(os.Args) < 2 {
		fmt.Println("usage: gosmt run <property> [--tier quick|thorough] | replay <witness.json> | debug <property>")
		os.Exit(2)
	}
	switch os.Args[1] {
	case "run":
		os.Exit(runCmd(os.Args[2:]))
	case "replay":
		os.Exit(replayCmd(os.Args[2:]))
	case "debug":
		os.Exit(debugCmd(os.Args[2:]))
	}
	fmt.Println("unknown command", os.Args[1])
	os.Exit(2)
}

type knownFinding struct {
	ID         string `json:"id"`
	Property   string `json:"property"`
	Status     string `json:"status"` // known | fixed
	Obligation string `json:"obligation"`
	Pred       string `json:"input_predicate"`
	WhatFails  string `json:"what_fails"`
	Commit     string `json:"commit,omitempty"`
}

func loadKnown(prop string) []knownFinding {
	data, err := os.ReadFile(filepath.Join(verifDir, "known_findings.json"))
	if err != nil {
		return nil
	}
	var all struct {
		Findings []knownFinding `json:"findings"`
	}
	if err := json.Unmarshal(data, &all); err != nil {
		fmt.Println("known_findings.json:", err)
		return nil
	}
	var out []knownFinding
	for _, k := range all.Findings {
		if k.Property == prop {
			out = append(out, k)
		}
	}
	return out
}

func onlyFilter(prop string) func(dir, file string) bool {
	tag := "_" + strings.ToLower(prop) + "_"
	return func(dir, file string) bool {
		return strings.HasPrefix(file, "zz_verif_common") || strings.Contains(file, tag)
	}
}

// propDirs lists harness package dirs that contain at least one file for the property.
func loadProgram(prop string) (*symex.Program, error) {
	tag := "_" + strings.ToLower(prop) + "_"
	dirsWith := map[string]bool{}
	filepath.Walk(filepath.Join(verifDir, "harness"), func(path string, info os.FileInfo, e error) error {
		if e == nil && !info.IsDir() && strings.Contains(filepath.Base(path), tag) {
			rel, _ := filepath.Rel(filepath.Join(verifDir, "harness"), filepath.Dir(path))
			dirsWith[rel] = true
		}
		return nil
	})
	f := onlyFilter(prop)
	return symex.Load(symex.LoadConfig{RepoDir: repoDir, HarnessDir: filepath.Join(verifDir, "harness"), RTDir: filepath.Join(verifDir, "rt/verifrt"),
		Only: func(dir, file string) bool { return dirsWith[dir] && f(dir, file) }})
}

type tierCfg struct {
	name       string
	maxPaths   int
	maxSteps   int
	unwind     int
	solverMs   int
	perHarness time.Duration
	samples    int
	solvers    []string
}

func tierOf(name string) tierCfg {
	if name == "thorough" {
		return tierCfg{name: "thorough", maxPaths: 250000, maxSteps: 4000000, unwind: 16, solverMs: 120000, perHarness: 25 * time.Minute, samples: 12, solvers: []string{"z3-new+z3", "cvc5"}}
	}
	return tierCfg{name: "quick", maxPaths: 40000, maxSteps: 1000000, unwind: 12, solverMs: 8000, perHarness: 150 * time.Second, samples: 3, solvers: []string{"z3-new+z3"}}
}

type harnessResult struct {
	h        *ssa.Function
	ex       *symex.Exec
	solver   *smt.Solver
	wall     time.Duration
	samples  []*symex.Candidate
	crossChk map[string]string // solver -> summary
	disagree []string
}

func solverFor(h *ssa.Function, def string) string {
	if f := os.Getenv("GOSMT_FORCE_SOLVER"); f != "" {
		return f
	}
	// harnesses whose name ends in _cvc5 are decided by cvc5 (calendar arithmetic, see DESIGN P6)
	if strings.HasSuffix(h.Name(), "_cvc5") {
		return "cvc5"
	}
	return def
}

func runHarness(p *symex.Program, h *ssa.Function, tc tierCfg, solverKind string, known []knownFinding, seed int64) *harnessResult {
	s, err := smt.NewSolver(solverKind, tc.solverMs)
	if err != nil {
		fmt.Println("solver:", err)
		os.Exit(2)
	}
	lim := symex.Limits{MaxPaths: tc.maxPaths, Unwind: tc.unwind, MaxDepth: 250, MaxSteps: tc.maxSteps, SolverMs: tc.solverMs,
		Deadline: time.Now().Add(tc.perHarness)}
	ex := symex.NewExec(p, h, s, lim)
	ex.Tier = tc.name
	ex.SampleEvery = tc.samples
	ex.Seed = seed
	for _, k := range known {
		if k.Status == "known" {
			ex.Known = append(ex.Known, symex.KnownPredicate{ID: k.ID, Obligation: k.Obligation, Pred: k.Pred})
		}
	}
	t0 := time.Now()
	ex.Run()
	s.Close()
	return &harnessResult{h: h, ex: ex, solver: s, wall: time.Since(t0)}
}

// engineFailure is the result of a harness on which the engine itself failed: everything about it is inconclusive.
func engineFailure(p *symex.Program, h *ssa.Function, msg string) *harnessResult {
	s, _ := smt.NewSolver("z3-new", 1000)
	ex := symex.NewExec(p, h, nil, symex.Limits{})
	if len(msg) > 300 {
		msg = msg[:300]
	}
	ex.Incomplete = append(ex.Incomplete, "ENGINE-ERROR (no verdict for this harness): "+msg)
	ex.Paths = 1
	s.Close()
	return &harnessResult{h: h, ex: ex, solver: s}
}

// writeEvidenceDropped: harness packages left out of this run (see symex.Load), reported in the evidence.
var writeEvidenceDropped []string

func runCmd(args []string) int {
	if len(args) < 1 {
		fmt.Println("usage: gosmt run <property> [--tier quick|thorough]")
		return 2
	}
	prop := args[0]
	fs := flag.NewFlagSet("run", flag.ExitOnError)
	tierName := fs.String("tier", "quick", "")
	onlyH := fs.String("only", "", "run only harnesses whose name contains this")
	noReplay := fs.Bool("no-replay", false, "")
	fs.Parse(args[1:])
	if *onlyH != "" || repoDir != "/repo" {
		witnessRel = filepath.Join(".work", "witness")
	}
	if t := os.Getenv("VERIF_TIER"); t != "" && *tierName == "" {
		*tierName = t
	}
	tc := tierOf(*tierName)
	seed := int64(0)
	if s := os.Getenv("VERIF_SEED"); s != "" {
		seed, _ = strconv.ParseInt(s, 10, 64)
	}
	t0 := time.Now()
	known := loadKnown(prop)
	p, err := loadProgram(prop)
	if err != nil {
		fmt.Println("BUILD-ERROR (no verdict):", err)
		return 2
	}
	loadDur := time.Since(t0)
	hs := p.Harnesses(prop)
	if *onlyH != "" {
		var f []*ssa.Function
		for _, h := range hs {
			if strings.Contains(h.Name(), *onlyH) {
				f = append(f, h)
			}
		}
		hs = f
	}
	writeEvidenceDropped = p.Dropped
	for _, d := range p.Dropped {
		fmt.Println("   INCONCLUSIVE harness package does not build against this tree (no verdict for its harnesses):", d)
	}
	if len(hs) == 0 {
		fmt.Println("no harnesses for", prop)
		return 2
	}
	fmt.Printf("gosmt: property %s tier %s: %d harnesses, load %.1fs\n", prop, tc.name, len(hs), loadDur.Seconds())

	results := make([]*harnessResult, len(hs))
	var wg sync.WaitGroup
	sem := make(chan struct{}, 12)
	for i, h := range hs {
		wg.Add(1)
		go func(i int, h *ssa.Function) {
			defer wg.Done()
			sem <- struct{}{}
			defer func() { <-sem }()
			defer func() {
				// an engine failure on one harness must not take the other harnesses' verdicts with it
				if rec := recover(); rec != nil {
					results[i] = engineFailure(p, h, fmt.Sprint(rec))
				}
			}()
			r := runHarness(p, h, tc, solverFor(h, tc.solvers[0]), known, seed)
			// thorough: cross-check verdicts with the other solvers
			if tc.name == "thorough" && !strings.HasSuffix(h.Name(), "_cvc5") {
				base := verdicts(r.ex)
				r.crossChk = map[string]string{}
				for _, sk := range tc.solvers[1:] {
					tc2 := tc
					tc2.samples = 0
					r2 := runHarness(p, h, tc2, sk, known, seed)
					v2 := verdicts(r2.ex)
					diff := diffVerdicts(base, v2)
					r.crossChk[sk] = fmt.Sprintf("paths=%d queries=%d ms=%d inconclusive=%d differences=%d", r2.ex.Paths, r2.solver.Queries, r2.solver.Millis, countInconcl(r2.ex), len(diff))
					for _, d := range diff {
						r.disagree = append(r.disagree, sk+": "+d)
					}
				}
			}
			results[i] = r
		}(i, h)
	}
	wg.Wait()

	// replay (witness files of earlier runs of this property are removed first)
	if old, _ := filepath.Glob(filepath.Join(verifDir, witnessRel, prop+"-*.json")); old != nil {
		for _, f := range old {
			os.Remove(f)
		}
	}
	rp := newReplayer(p, prop)
	rp.tier = tc.name
	exit := 0
	var lines []string
	violations := 0
	knownLines := map[string]bool{}
	validated := 0
	spurious := 0
	for _, r := range results {
		for _, c := range r.ex.SortedCands() {
			if *noReplay {
				c.Replay = "SKIPPED"
				continue
			}
			rel, outcome := rp.replay(r.h, c)
			c.WitnessRel = rel
			c.Replay = classify(c, outcome)
			if c.Replay != "REPRODUCED" {
				// the first witness did not reproduce: try the alternates before calling the obligation spurious
				for _, a := range c.Alts {
					arel, aout := rp.replay(r.h, a)
					if classify(a, aout) == "REPRODUCED" {
						c.Draws, c.Model, c.Path = a.Draws, a.Model, a.Path
						rel, outcome = arel, aout
						c.WitnessRel, c.Replay = arel, "REPRODUCED"
						break
					}
				}
			}
			switch {
			case c.Replay == "REPRODUCED" && c.Known == "":
				violations++
				exit = 1
				lines = append(lines, fmt.Sprintf("VIOLATION property=%s replay=%s", prop, filepath.Join(verifDir, rel)))
				lines = append(lines, fmt.Sprintf("  harness=%s obligation=%s at %s native=%q draws=%s", r.h.Name(), c.Obligation, c.Pos, outcome, drawsString(c.Draws)))
			case c.Replay == "REPRODUCED":
				for _, k := range known {
					if k.ID == c.Known && !knownLines[k.ID] {
						knownLines[k.ID] = true
						lines = append(lines, fmt.Sprintf("KNOWN-FINDING: property=%s %s [%s]", prop, k.WhatFails, k.ID))
					}
				}
			default:
				spurious++
				lines = append(lines, fmt.Sprintf("SPURIOUS (not reported): harness=%s obligation=%s native=%q draws=%s", r.h.Name(), c.Obligation, outcome, drawsString(c.Draws)))
			}
		}
		// translator validation on sampled passing paths
		if !*noReplay {
			for _, sc := range r.ex.Samples {
				_, outcome := rp.replay(r.h, sc)
				okObs := compareObs(sc, outcome)
				if strings.Contains(outcome, "outcome=ok") && okObs {
					validated++
					sc.Replay = "AGREE"
				} else {
					sc.Replay = "DISAGREE: " + outcome
					r.ex.Untrusted = append(r.ex.Untrusted, fmt.Sprintf("path sample %v: engine predicts ok, native says %q", sc.Path, outcome))
				}
			}
		}
	}
	rp.cleanup()

	// report
	inconcl := 0
	for _, r := range results {
		ex := r.ex
		fmt.Printf("== %s: paths=%d %v steps=%d queries=%d solver=%dms wall=%.1fs\n", r.h.Name(), ex.Paths, ex.PathsByEnd, ex.Steps, r.solver.Queries, r.solver.Millis, r.wall.Seconds())
		if ex.InitError != "" {
			fmt.Printf("   INCOMPLETE: package initialisation stopped early: %s\n", ex.InitError)
		}
		for _, o := range ex.SortedObs() {
			if o.Inconcl > 0 {
				inconcl++
				fmt.Printf("   INCONCLUSIVE %s: %s\n", o.ID, o.FirstReason)
			}
		}
		keys := sortedKeys(ex.Unsupported)
		for _, k := range keys {
			fmt.Printf("   INCONCLUSIVE unsupported x%d: %s\n", ex.Unsupported[k], k)
		}
		for _, k := range dedup(ex.Incomplete) {
			fmt.Printf("   INCOMPLETE: %s\n", k)
		}
		for _, k := range ex.Untrusted {
			fmt.Printf("   UNTRUSTED: %s\n", k)
		}
		for _, d := range r.disagree {
			fmt.Printf("   SOLVER-DISAGREEMENT: %s\n", d)
		}
	}
	for _, l := range lines {
		fmt.Println(l)
	}
	wall := time.Since(t0)
	if *onlyH != "" || repoDir != "/repo" {
		// a partial run, or a run against a scratch tree (development aids), must not replace the evidence of the full check
		fmt.Printf("gosmt: --only %q / repo %s: evidence/%s.json left as it is\n", *onlyH, repoDir, prop)
	} else {
		writeEvidence(prop, tc, seed, results, violations, validated, spurious, wall, known)
	}
	fmt.Printf("gosmt: %s %s done in %.1fs: violations=%d known=%d spurious=%d validated-traces=%d\n", prop, tc.name, wall.Seconds(), violations, len(knownLines), spurious, validated)
	return exit
}

func sortedKeys(m map[string]int) []string {
	var ks []string
	for k := range m {
		ks = append(ks, k)
	}
	sort.Strings(ks)
	return ks
}

func dedup(xs []string) []string {
	seen := map[string]int{}
	var out []string
	for _, x := range xs {
		if seen[x] == 0 {
			out = append(out, x)
		}
		seen[x]++
	}
	for i, x := range out {
		if seen[x] > 1 {
			out[i] = fmt.Sprintf("%s (x%d)", x, seen[x])
		}
	}
	return out
}

func verdicts(ex *symex.Exec) map[string]string {
	m := map[string]string{}
	for _, o := range ex.SortedObs() {
		v := "discharged"
		if o.Sat > 0 {
			v = "sat"
		} else if o.Inconcl > 0 {
			v = "inconclusive"
		}
		m[o.ID] = v
	}
	return m
}

func diffVerdicts(a, b map[string]string) []string {
	var out []string
	for k, va := range a {
		vb, ok := b[k]
		if !ok {
			continue
		}
		if va != vb && va != "inconclusive" && vb != "inconclusive" {
			out = append(out, fmt.Sprintf("%s: %s vs %s", k, va, vb))
		}
	}
	sort.Strings(out)
	return out
}

func countInconcl(ex *symex.Exec) int {
	n := 0
	for _, o := range ex.Obs {
		if o.Inconcl > 0 {
			n++
		}
	}
	return n
}

func drawsString(ds []symex.Draw) string {
	var parts []string
	for _, d := range ds {
		switch d.Op {
		case "string":
			b := make([]byte, len(d.Bytes))
			for i, x := range d.Bytes {
				b[i] = byte(x)
			}
			parts = append(parts, fmt.Sprintf("%s=%q", d.Label, string(b)))
		case "decimal":
			parts = append(parts, fmt.Sprintf("%s=%ve-%d", d.Label, d.V, d.N))
		default:
			parts = append(parts, fmt.Sprintf("%s=%v", d.Label, d.V))
		}
	}
	return strings.Join(parts, " ")
}

// classify maps the native outcome line to REPRODUCED / NOT-REPRODUCED / ...
func classify(c *symex.Candidate, outcome string) string {
	i := strings.Index(outcome, "outcome=")
	if i < 0 {
		if strings.Contains(outcome, "TIMEOUT") && c.Kind == "hang" {
			return "REPRODUCED"
		}
		return "NO-OUTCOME"
	}
	o := outcome[i+len("outcome="):]
	switch {
	case strings.HasPrefix(o, "assume-rejected"):
		return "ASSUME-REJECTED"
	case strings.HasPrefix(o, "desync"):
		return "DESYNC"
	}
	switch c.Kind {
	case "assert":
		if strings.HasPrefix(o, "assert label="+c.Label) {
			return "REPRODUCED"
		}
	case "frame":
		if strings.HasPrefix(o, "frame") {
			return "REPRODUCED"
		}
	default:
		if strings.HasPrefix(o, "panic") {
			return "REPRODUCED"
		}
	}
	return "NOT-REPRODUCED"
}

func compareObs(sc *symex.Candidate, outcome string) bool {
	if len(sc.Observed) == 0 {
		return true
	}
	var native []string
	for _, l := range strings.Split(outcome, "\n") {
		if strings.HasPrefix(l, "VERIF-OBSERVE ") {
			native = append(native, strings.TrimPrefix(l, "VERIF-OBSERVE "))
		}
	}
	j := 0
	for _, o := range sc.Observed {
		if strings.Contains(o, "?") {
			j++
			continue // not evaluable on the engine side
		}
		if j >= len(native) || native[j] != o {
			return false
		}
		j++
	}
	return true
}

// ---- native replay ----

type replayer struct {
	p     *symex.Program
	tier  string
	prop  string
	work  string
	bins  map[string]string // pkg dir -> test binary
	errs  map[string]string
	mu    sync.Mutex
	count int
}

func newReplayer(p *symex.Program, prop string) *replayer {
	w := filepath.Join(verifDir, ".work", fmt.Sprintf("%s-%d", prop, os.Getpid()))
	os.MkdirAll(w, 0755)
	os.MkdirAll(filepath.Join(verifDir, witnessRel), 0755)
	return &replayer{p: p, prop: prop, work: w, bins: map[string]string{}, errs: map[string]string{}}
}

func (r *replayer) cleanup() { os.RemoveAll(r.work) }

func goEnv() []string {
	return append(os.Environ(), "GOFLAGS=-mod=mod", "GOPROXY=off", "GOSUMDB=off", "GOTOOLCHAIN=local")
}

// build compiles the replay test binary of one harness package (once).
func (r *replayer) build(h *ssa.Function) (string, error) {
	pkgPath := h.Pkg.Pkg.Path()
	rel := strings.TrimPrefix(pkgPath, symex.RepoModule+"/")
	r.mu.Lock()
	defer r.mu.Unlock()
	if b, ok := r.bins[rel]; ok {
		if b == "" {
			return "", fmt.Errorf("%s", r.errs[rel])
		}
		return b, nil
	}
	// generated test file listing all harnesses of the package
	var names []string
	for name, m := range h.Pkg.Members {
		if _, ok := m.(*ssa.Function); ok && strings.HasPrefix(name, "VerifHarness_") {
			names = append(names, name)
		}
	}
	sort.Strings(names)
	var sb strings.Builder
	fmt.Fprintf(&sb, "//go:build verif\n\npackage %s\n\nimport (\n\t\"os\"\n\t\"testing\"\n\n\t\"%s/internal/verifrt\"\n)\n\n", h.Pkg.Pkg.Name(), symex.RepoModule)
	sb.WriteString("func TestVerifReplay(t *testing.T) {\n\tname := os.Getenv(\"VERIF_HARNESS\")\n\tfns := map[string]func(){\n")
	for _, n := range names {
		fmt.Fprintf(&sb, "\t\t%q: %s,\n", n, n)
	}
	sb.WriteString("\t}\n\tf, ok := fns[name]\n\tif !ok {\n\t\tt.Fatalf(\"no harness %q\", name)\n\t}\n\tverifrt.RunReplay(name, f)\n}\n")
	testFile := filepath.Join(r.work, strings.ReplaceAll(rel, "/", "_")+"_replay_test.go")
	os.WriteFile(testFile, []byte(sb.String()), 0644)
	ov := map[string]string{}
	for virt, real := range r.p.Overlay {
		ov[virt] = real
	}
	ov[filepath.Join(repoDir, rel, "zz_verif_replay_test.go")] = testFile
	ovData, _ := json.Marshal(map[string]interface{}{"Replace": ov})
	ovFile := filepath.Join(r.work, strings.ReplaceAll(rel, "/", "_")+"_overlay.json")
	os.WriteFile(ovFile, ovData, 0644)
	bin := filepath.Join(r.work, strings.ReplaceAll(rel, "/", "_")+".test")
	cmd := exec.Command("go", "test", "-c", "-tags", "verif", "-vet=off", "-overlay", ovFile, "-o", bin, "./"+rel)
	cmd.Dir = repoDir
	cmd.Env = goEnv()
	out, err := cmd.CombinedOutput()
	if err != nil {
		r.bins[rel] = ""
		r.errs[rel] = fmt.Sprintf("replay build failed: %v\n%s", err, out)
		return "", fmt.Errorf("%s", r.errs[rel])
	}
	r.bins[rel] = bin
	return bin, nil
}

type witnessFile struct {
	Property   string       `json:"property"`
	Harness    string       `json:"harness"`
	Package    string       `json:"package"`
	Obligation string       `json:"obligation"`
	Kind       string       `json:"kind"`
	Label      string       `json:"label,omitempty"`
	Pos        string       `json:"pos,omitempty"`
	Known      string       `json:"known,omitempty"`
	Tier       string       `json:"tier"`
	Draws      []symex.Draw `json:"draws"`
}

func (r *replayer) replay(h *ssa.Function, c *symex.Candidate) (string, string) {
	bin, err := r.build(h)
	if err != nil {
		return "", err.Error()
	}
	r.mu.Lock()
	r.count++
	n := r.count
	r.mu.Unlock()
	wf := witnessFile{Tier: r.tier, Property: r.prop, Harness: h.Name(), Package: h.Pkg.Pkg.Path(), Obligation: c.Obligation, Kind: c.Kind, Label: c.Label, Pos: c.Pos, Known: c.Known, Draws: c.Draws}
	data, _ := json.MarshalIndent(wf, "", " ")
	rel := ""
	var path string
	if c.Kind == "sample" {
		path = filepath.Join(r.work, fmt.Sprintf("sample-%d.json", n))
	} else {
		rel = filepath.Join(witnessRel, fmt.Sprintf("%s-%s-%d.json", r.prop, h.Name(), n))
		if c.Kind == "hang" {
			rel = filepath.Join(witnessRel, fmt.Sprintf("%s-%s-hang-%d.json", r.prop, h.Name(), n))
		}
		path = filepath.Join(verifDir, rel)
	}
	os.WriteFile(path, data, 0644)
	return rel, runWitness(bin, path, h.Name())
}

func runWitness(bin, witness, harness string) string {
	limit := "30"
	if strings.Contains(witness, "-hang-") {
		limit = "12" // a candidate non-termination: the native run is given 12 s (the engine spent its whole step budget)
	}
	out := runWitnessLimit(bin, witness, harness, limit)
	if strings.Contains(witness, "-hang-") && strings.Contains(out, "TIMEOUT") {
		// confirm on a second, longer run before calling it a hang (a loaded machine can make one run slow)
		out = runWitnessLimit(bin, witness, harness, "40")
	}
	return out
}

func runWitnessLimit(bin, witness, harness, limit string) string {
	cmd := exec.Command("timeout", "-k", "2", limit, bin, "-test.run", "^TestVerifReplay$", "-test.v")
	cmd.Dir = filepath.Dir(bin)
	cmd.Env = append(os.Environ(), "VERIF_WITNESS="+witness, "VERIF_HARNESS="+harness)
	out, err := cmd.CombinedOutput()
	var keep []string
	for _, l := range strings.Split(string(out), "\n") {
		if strings.HasPrefix(l, "VERIF-") {
			keep = append(keep, l)
		}
	}
	if ee, ok := err.(*exec.ExitError); ok && ee.ExitCode() == 124 {
		keep = append(keep, "TIMEOUT")
	}
	if len(keep) == 0 {
		s := string(out)
		if len(s) > 600 {
			s = s[:600]
		}
		return "no outcome line: " + s
	}
	return strings.Join(keep, "\n")
}

func replayCmd(args []string) int {
	if len(args) < 1 {
		fmt.Println("usage: gosmt replay <witness.json>")
		return 2
	}
	data, err := os.ReadFile(args[0])
	if err != nil {
		fmt.Println(err)
		return 2
	}
	var wf witnessFile
	if err := json.Unmarshal(data, &wf); err != nil {
		fmt.Println(err)
		return 2
	}
	p, err := loadProgram(wf.Property)
	if err != nil {
		fmt.Println("BUILD-ERROR:", err)
		return 2
	}
	var h *ssa.Function
	for _, f := range p.Harnesses(wf.Property) {
		if f.Name() == wf.Harness {
			h = f
		}
	}
	if h == nil {
		fmt.Println("harness not found:", wf.Harness)
		return 2
	}
	rp := newReplayer(p, wf.Property)
	defer rp.cleanup()
	bin, err := rp.build(h)
	if err != nil {
		fmt.Println(err)
		return 2
	}
	abs, _ := filepath.Abs(args[0])
	outcome := runWitness(bin, abs, wf.Harness)
	fmt.Println(outcome)
	c := &symex.Candidate{Kind: wf.Kind, Label: wf.Label}
	res := classify(c, outcome)
	fmt.Println(res, wf.Obligation)
	if res == "REPRODUCED" {
		return 1
	}
	return 0
}

// ---- evidence ----

func writeEvidence(prop string, tc tierCfg, seed int64, results []*harnessResult, violations, validated, spurious int, wall time.Duration, known []knownFinding) {
	type sample struct {
		Obligation string `json:"obligation"`
		Verdict    string `json:"verdict"`
		Checked    int    `json:"times_posed"`
		Trivial    int    `json:"folded_true"`
		Pos        string `json:"pos,omitempty"`
		Witness    string `json:"witness,omitempty"`
		Replay     string `json:"replay,omitempty"`
		Known      string `json:"known,omitempty"`
	}
	cov := map[string]interface{}{}
	states, transitions := 0, int64(0)
	obligations, discharged, inconclusive, sat := 0, 0, 0, 0
	queries, solverMs := 0, int64(0)
	funcs := map[string]int{}
	modelsUsed := map[string]int{}
	unsupported := map[string]int{}
	forks := map[string]int{}
	var samples []sample
	var incomplete, untrusted, disagreements []string
	harnessInfo := []map[string]interface{}{}
	reached := map[string]int{}
	assumes := map[string]int{}
	flags := map[string]int{}
	for _, r := range results {
		ex := r.ex
		states += ex.Paths
		transitions += ex.Steps
		queries += r.solver.Queries
		solverMs += r.solver.Millis
		for k, v := range ex.Funcs {
			funcs[k] += v
		}
		for k, v := range ex.Models {
			modelsUsed[k] += v
		}
		for k, v := range ex.Unsupported {
			unsupported[k] += v
		}
		for k, v := range ex.Forks {
			forks[k] += v
		}
		for k, v := range ex.Reached {
			reached[r.h.Name()+":"+k] += v
		}
		for k, v := range ex.Assumes {
			assumes[k] += v
		}
		for k, v := range ex.Flags {
			flags[k] += v
		}
		cands := map[string][]*symex.Candidate{}
		for _, c := range ex.SortedCands() {
			cands[c.Obligation] = append(cands[c.Obligation], c)
		}
		for _, o := range ex.SortedObs() {
			obligations++
			v := "discharged"
			switch {
			case o.Sat > 0:
				v = "sat"
				sat++
			case o.Inconcl > 0:
				v = "inconclusive"
				inconclusive++
			default:
				discharged++
			}
			s := sample{Obligation: o.ID, Verdict: v, Checked: o.Checked, Trivial: o.Trivial, Pos: o.Pos}
			for _, c := range cands[o.ID] {
				s.Witness, s.Replay, s.Known = c.WitnessRel, c.Replay, c.Known
			}
			if len(samples) < 400 || v != "discharged" {
				samples = append(samples, s)
			}
		}
		incomplete = append(incomplete, prefixAll(r.h.Name()+": ", dedup(ex.Incomplete))...)
		untrusted = append(untrusted, prefixAll(r.h.Name()+": ", ex.Untrusted)...)
		disagreements = append(disagreements, prefixAll(r.h.Name()+": ", r.disagree)...)
		hi := map[string]interface{}{"harness": r.h.Name(), "paths": ex.Paths, "paths_by_end": ex.PathsByEnd, "instructions": ex.Steps,
			"solver": r.solver.Name, "queries": r.solver.Queries, "solver_ms": r.solver.Millis, "wall_s": r.wall.Seconds(),
			"by_result": map[string]int{"unsat": r.solver.ByRes[0], "sat": r.solver.ByRes[1], "unknown": r.solver.ByRes[2]}, "decided_by": r.solver.ByProc}
		if r.crossChk != nil {
			hi["cross_check"] = r.crossChk
		}
		harnessInfo = append(harnessInfo, hi)
	}
	if samples == nil {
		samples = []sample{}
	}
	var fnList []string
	for k := range funcs {
		fnList = append(fnList, k)
	}
	sort.Strings(fnList)
	cov["states"] = states
	cov["transitions"] = transitions
	cov["traces_validated_against_impl"] = validated
	cov["samples"] = samples
	cov["obligations"] = obligations
	cov["discharged"] = discharged
	cov["sat_replayed"] = sat
	cov["inconclusive"] = inconclusive
	cov["spurious_candidates"] = spurious
	cov["solver_queries"] = queries
	cov["solver_ms"] = solverMs
	cov["functions_encoded"] = fnList
	cov["models_used"] = modelsUsed
	cov["unsupported_paths"] = unsupported
	cov["fork_points"] = forks
	cov["harnesses"] = harnessInfo
	for _, d := range writeEvidenceDropped {
		incomplete = append(incomplete, "harness package does not build against this tree (no verdict for its harnesses): "+d)
	}
	cov["incomplete"] = incomplete
	cov["untrusted"] = untrusted
	cov["solver_disagreements"] = disagreements
	cov["reach_markers"] = reached
	cov["path_flags"] = flags
	cov["bounds"] = map[string]interface{}{"max_paths_per_harness": tc.maxPaths, "unwind": tc.unwind, "solver_timeout_ms": tc.solverMs,
		"per_harness_deadline_s": tc.perHarness.Seconds(), "harness_bounds": "see DESIGN.md §4 and the harness sources; verifrt.Bound(q,t) selects per tier"}
	cov["solver_versions"] = solverVersions(tc.solvers)
	cov["trusted_base"] = []string{"go/ssa (x/tools v0.29.0)", "gosmt interpreter + models (validated by native replay of sampled paths and of every counterexample)", "SMT solvers: " + strings.Join(tc.solvers, ", ")}
	cov["exhaustive"] = false
	var kn []string
	for _, k := range known {
		kn = append(kn, fmt.Sprintf("%s [%s] %s", k.ID, k.Status, k.WhatFails))
	}
	cov["known_findings"] = kn
	assumptions := []string{
		"GOARCH=amd64: int/uint are 64-bit; out-of-range float->int32/int64 conversions yield the minimum value (CVTTSD2SL/SQ)",
		"integers are SMT Int with explicit mod-2^k wrapping; strings are concrete-length tuples of symbolic bytes",
		"math/big.Int is modelled as an unbounded SMT integer; github.com/shopspring/decimal is executed from its source on top of that",
		"time.Time is modelled as (unix seconds, nanoseconds, fixed offset); calendar fields via Hinnant's civil_from_days/days_from_civil",
		"errors.New/fmt.Errorf/errors.Is/errors.Join: identity + %w chain; message text is opaque",
		"regexp: real regexp/syntax program run by a backtracking matcher whose rune tests fork",
		"map iteration follows insertion order (claims must not depend on map order; flagged per path)",
	}
	for k := range assumes {
		assumptions = append(assumptions, "harness Assume at "+k)
	}
	sort.Strings(assumptions[7:])
	ev := map[string]interface{}{
		"property_id": prop, "tier": tc.name, "seed": seed, "level": "model_checking", "coverage": cov,
		"assumptions": assumptions, "wall_s": wall.Seconds(), "violations": violations,
	}
	data, _ := json.MarshalIndent(ev, "", " ")
	os.MkdirAll(filepath.Join(verifDir, "evidence"), 0755)
	os.WriteFile(filepath.Join(verifDir, "evidence", prop+".json"), data, 0644)
}

func prefixAll(p string, xs []string) []string {
	out := []string{}
	for _, x := range xs {
		out = append(out, p+x)
	}
	return out
}

func solverVersions(kinds []string) map[string]string {
	m := map[string]string{}
	var all []string
	for _, k := range kinds {
		all = append(all, strings.Split(k, "+")...)
	}
	for _, k := range all {
		out, err := exec.Command(k, "--version").CombinedOutput()
		if err == nil {
			m[k] = strings.TrimSpace(strings.Split(string(out), "\n")[0])
		}
	}
	return m
}

// ---- debug ----

func debugCmd(args []string) int {
	fs := flag.NewFlagSet("debug", flag.ExitOnError)
	trace := fs.Bool("trace", false, "")
	only := fs.String("only", "", "")
	solver := fs.String("solver", "z3-new+z3", "")
	paths := fs.Int("paths", 5000, "")
	witness := fs.String("witness", "", "pin the draws to this witness file")
	fs.Parse(args[1:])
	prop := args[0]
	t0 := time.Now()
	p, err := loadProgram(prop)
	if err != nil {
		fmt.Println("load error:", err)
		return 2
	}
	fmt.Printf("loaded in %v\n", time.Since(t0))
	for _, h := range p.Harnesses(prop) {
		if *only != "" && !strings.Contains(h.Name(), *only) {
			continue
		}
		s, err := smt.NewSolver(solverFor(h, *solver), 10000)
		if err != nil {
			fmt.Println(err)
			return 2
		}
		ex := symex.NewExec(p, h, s, symex.Limits{MaxPaths: *paths, Unwind: 12, MaxDepth: 250, MaxSteps: 4000000})
		ex.Trace = *trace
		ex.Tier = "quick"
		if *witness != "" {
			data, _ := os.ReadFile(*witness)
			var wf witnessFile
			json.Unmarshal(data, &wf)
			if wf.Harness != h.Name() {
				continue
			}
			ex.Fixed = wf.Draws
			ex.TraceInstr = *trace
		}
		t1 := time.Now()
		ex.Run()
		s.Close()
		fmt.Printf("== %s: paths=%d %v steps=%d queries=%d solver=%dms wall=%v\n", h.Name(), ex.Paths, ex.PathsByEnd, ex.Steps, s.Queries, s.Millis, time.Since(t1))
		for _, o := range ex.SortedObs() {
			if o.Sat > 0 || o.Inconcl > 0 {
				fmt.Printf("   ob %-70s checked=%d trivial=%d unsat=%d sat=%d inconcl=%d\n", o.ID, o.Checked, o.Trivial, o.Discharged, o.Sat, o.Inconcl)
			}
		}
		for _, c := range ex.SortedCands() {
			fmt.Printf("   CAND %s known=%q %s\n", c.Obligation, c.Known, drawsString(c.Draws))
		}
		for _, k := range sortedKeys(ex.Unsupported) {
			fmt.Printf("   UNSUPPORTED x%d: %s\n", ex.Unsupported[k], k)
		}
		for _, k := range dedup(ex.Incomplete) {
			fmt.Printf("   INCOMPLETE: %s\n", k)
		}
		fmt.Printf("   reached=%v obligations=%d\n", ex.Reached, len(ex.Obs))
	}
	return 0
}
