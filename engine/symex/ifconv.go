package symex

import (
	"go/token"

	"gosmt/smt"

	"golang.org/x/tools/go/ssa"
)

// If-conversion: a branch on a symbolic condition whose arms are small side-effect-free blocks
// that meet again (a diamond or a triangle, typically `a && b`, `x := p; if c { x = q }`) is
// evaluated on both arms and merged with ite at the join's phi nodes instead of forking the path.

func pureInstr(in ssa.Instruction) bool {
	switch in := in.(type) {
	case *ssa.DebugRef:
		return true
	case *ssa.BinOp:
		if in.Op == token.QUO || in.Op == token.REM {
			if c, ok := in.Y.(*ssa.Const); ok && c.Value != nil {
				if _, isInt := isInteger(in.X.Type()); isInt && c.Int64() != 0 && c.Int64() != -1 {
					return true
				}
			}
			return false
		}
		switch in.Op {
		case token.ADD, token.SUB, token.MUL, token.EQL, token.NEQ, token.LSS, token.LEQ, token.GTR, token.GEQ:
			if _, ok := isInteger(in.X.Type()); ok {
				return true
			}
			if isBool(in.X.Type()) || isString(in.X.Type()) {
				return in.Op == token.EQL || in.Op == token.NEQ || (isString(in.X.Type()) && in.Op != token.ADD && in.Op != token.SUB && in.Op != token.MUL)
			}
		}
		return false
	case *ssa.UnOp:
		if in.Op == token.NOT {
			return true
		}
		if in.Op == token.SUB {
			_, ok := isInteger(in.X.Type())
			return ok
		}
		return false
	case *ssa.Convert:
		_, ok1 := isInteger(in.Type())
		_, ok2 := isInteger(in.X.Type())
		return ok1 && ok2
	case *ssa.ChangeType:
		return true
	case *ssa.Call:
		if b, ok := in.Call.Value.(*ssa.Builtin); ok && b.Name() == "len" && len(in.Call.Args) == 1 {
			return isString(in.Call.Args[0].Type())
		}
		return false
	}
	return false
}

// pureBlock: no phis, every non-terminator instruction is pure, terminator is Jump or If.
func (ex *Exec) pureBlock(b *ssa.BasicBlock) bool {
	if v, ok := ex.pureMemo[b]; ok {
		return v
	}
	ok := len(b.Instrs) > 0 && len(b.Instrs) <= 12
	if ok {
		for _, in := range b.Instrs[:len(b.Instrs)-1] {
			if _, isPhi := in.(*ssa.Phi); isPhi || !pureInstr(in) {
				ok = false
				break
			}
		}
		switch b.Instrs[len(b.Instrs)-1].(type) {
		case *ssa.Jump, *ssa.If:
		default:
			ok = false
		}
	}
	if ex.pureMemo == nil {
		ex.pureMemo = map[*ssa.BasicBlock]bool{}
	}
	ex.pureMemo[b] = ok
	return ok
}

func (ex *Exec) runPure(fr *frame, b *ssa.BasicBlock) bool {
	ok := true
	func() {
		defer func() {
			if r := recover(); r != nil {
				if _, isPE := r.(pathEnd); isPE {
					ok = false
					return
				}
				panic(r)
			}
		}()
		for _, in := range b.Instrs[:len(b.Instrs)-1] {
			ex.steps++
			ex.visitInstr(fr, in)
		}
	}()
	return ok
}

// tryIfConvert merges a pure acyclic region hanging off the branch at the end of fr.block:
// all region blocks are pure, all their predecessors lie in the region (or are the branch
// block), and every path through the region ends at one join block J. Returns true when the
// region was merged; fr.block is then J with its phi values assigned.
func (ex *Exec) tryIfConvert(fr *frame, c *smt.Term) bool {
	b := fr.block
	in := map[*ssa.BasicBlock]bool{}
	var order []*ssa.BasicBlock
	// grow the region breadth-first
	work := []*ssa.BasicBlock{b.Succs[0], b.Succs[1]}
	for len(work) > 0 && len(order) <= 8 {
		x := work[0]
		work = work[1:]
		if in[x] || x == b || !ex.pureBlock(x) {
			continue
		}
		allIn := true
		for _, p := range x.Preds {
			if p != b && !in[p] {
				allIn = false
				break
			}
		}
		if !allIn {
			continue
		}
		in[x] = true
		order = append(order, x)
		work = append(work, x.Succs...)
		// a block that was rejected earlier because a predecessor was not yet in the region may qualify now
		for _, y := range x.Succs {
			if !in[y] {
				work = append(work, y)
			}
		}
	}
	if len(order) == 0 || len(order) > 8 {
		return false
	}
	// exits
	var J *ssa.BasicBlock
	exitOK := true
	check := func(t *ssa.BasicBlock) {
		if in[t] {
			return
		}
		if t == b {
			exitOK = false // loop back edge
			return
		}
		if J == nil {
			J = t
		} else if J != t {
			exitOK = false
		}
	}
	check(b.Succs[0])
	check(b.Succs[1])
	for _, x := range order {
		for _, t := range x.Succs {
			check(t)
		}
	}
	if !exitOK || J == nil {
		return false
	}
	for _, p := range J.Preds {
		if p != b && !in[p] {
			return false
		}
	}
	// topological order: repeatedly pick a block whose in-region preds are done (region is small)
	done := map[*ssa.BasicBlock]bool{}
	rc := map[*ssa.BasicBlock]*smt.Term{b: ex.b.True}
	edge := func(p, t *ssa.BasicBlock) *smt.Term {
		pc := rc[p]
		if len(p.Succs) == 2 {
			var cond *smt.Term
			if p == b {
				cond = c
			} else {
				cv, ok := fr.get(p.Instrs[len(p.Instrs)-1].(*ssa.If).Cond).(*smt.Term)
				if !ok {
					return nil
				}
				cond = cv
			}
			switch {
			case p.Succs[0] == t && p.Succs[1] == t:
				return pc
			case p.Succs[0] == t:
				return ex.b.And(pc, cond)
			default:
				return ex.b.And(pc, ex.b.Not(cond))
			}
		}
		return pc
	}
	for n := 0; n < len(order); n++ {
		var pick *ssa.BasicBlock
		for _, x := range order {
			if done[x] {
				continue
			}
			ready := true
			for _, p := range x.Preds {
				if p != b && !done[p] {
					ready = false
					break
				}
			}
			if ready {
				pick = x
				break
			}
		}
		if pick == nil {
			return false // cycle inside the region
		}
		if !ex.runPure(fr, pick) {
			return false
		}
		var conds []*smt.Term
		for _, p := range pick.Preds {
			e := edge(p, pick)
			if e == nil {
				return false
			}
			conds = append(conds, e)
		}
		rc[pick] = ex.b.Or(conds...)
		done[pick] = true
	}
	// merge at J
	over := map[*ssa.Phi]value{}
	for _, inst := range J.Instrs {
		phi, ok := inst.(*ssa.Phi)
		if !ok {
			break
		}
		var acc value
		for i := len(J.Preds) - 1; i >= 0; i-- {
			p := J.Preds[i]
			v := fr.get(phi.Edges[i])
			if acc == nil {
				acc = v
				continue
			}
			e := edge(p, J)
			if e == nil {
				return false
			}
			tv, ok1 := v.(*smt.Term)
			ta, ok2 := acc.(*smt.Term)
			switch {
			case ok1 && ok2 && tv.Sort == ta.Sort && tv.Sort != smt.SFP:
				acc = ex.b.Ite(e, tv, ta)
			case ok1 && ok2 && tv == ta:
			default:
				sv, okS1 := v.(*Str)
				sa, okS2 := acc.(*Str)
				if okS1 && okS2 && sv == sa {
					continue
				}
				return false
			}
		}
		over[phi] = acc
	}
	ex.IfConverted++
	fr.phiOverride = over
	fr.prevBlock, fr.block = J.Preds[0], J
	return true
}
