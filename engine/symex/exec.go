package symex

import (
	"fmt"
	"go/token"
	"go/types"
	"math/big"
	"runtime"
	"sort"
	"strings"
	"time"

	"gosmt/smt"

	"golang.org/x/tools/go/ssa"
)

// Draw is one nondeterministic input of the harness, in creation order.
type Draw struct {
	Op    string      `json:"op"` // bool,int8..uint64,choose,string,float64bits,decimal...
	Label string      `json:"label,omitempty"`
	N     int         `json:"n,omitempty"`     // choose arity / string max
	V     interface{} `json:"v,omitempty"`     // concrete value in a witness
	Bytes []int       `json:"bytes,omitempty"` // string payload in a witness
	vars  []*smt.Term // symbolic payload
	pick  int         // choose result on this path
}

type Outcome struct {
	Kind  string `json:"kind"` // assert | panic | unwind | ok
	Label string `json:"label,omitempty"`
}

type Candidate struct {
	Obligation string
	Kind       string // assert, bounds, divzero, nil, typeassert, panic, frame, ...
	Label      string
	Pos        string
	Draws      []Draw
	Model      map[string]interface{}
	Path       []int
	Known      string // id of the known finding that covers it ("" = new)
	Replay     string // REPRODUCED / NOT-REPRODUCED / ...
	WitnessRel string
	Observed   []string // sampled paths: label=value as the engine computes them
	Alts       []*Candidate // witnesses of the same obligation through other harness choices (tried if this one does not reproduce)
}

type ObStat struct {
	ID          string
	Kind        string
	Pos         string
	Checked     int // times the obligation was posed to the solver
	Trivial     int // times it folded to true
	Discharged  int
	Sat         int
	Inconcl     int
	FirstReason string
}

type pathEnd struct {
	kind string // return | panic | assume | unwind | unsupported | infeasible | budget
	msg  string
}

type Limits struct {
	MaxPaths     int
	Unwind       int
	MaxDepth     int
	MaxSteps     int
	SolverMs     int
	Deadline     time.Time
	NoPanicCheck bool
}

// Exec explores one harness.
type Exec struct {
	P      *Program
	b      *smt.Builder
	solver *smt.Solver
	lim    Limits

	Harness *ssa.Function

	// per-path state
	prefix    []int
	pos       int
	trail     []int
	pc        []*smt.Term
	draws     []Draw
	globals   map[*ssa.Global]*value
	inited    map[*ssa.Package]bool
	protected map[*value]string
	steps     int
	depth     int
	errSeq    int
	objSeq    int
	imprecise []string
	timeSeq   int
	pathFlags map[string]bool
	curFrame  *frame

	// cross-path state
	pending     [][]int
	Paths       int
	PathsByEnd  map[string]int
	Steps       int64
	Obs         map[string]*ObStat
	Cands       map[string]*Candidate
	Reached     map[string]int
	Funcs       map[string]int
	Models      map[string]int
	Unsupported map[string]int
	Assumes     map[string]int
	Forks       map[string]int
	Incomplete  []string
	Known       []KnownPredicate
	Trace       bool
	Fixed       []Draw // concolic mode: pinned draws (consumed in order)
	Observed    map[string][]string
	Tier        string
	TraceInstr  bool
	SampleEvery int
	Seed        int64
	Samples     []*Candidate
	Untrusted   []string
	Flags       map[string]int
	InitError   string
	InitSteps   int
	baseGlobals map[*ssa.Global]*value
	baseInited  map[*ssa.Package]bool
	noPanicDefault bool
	pathObs     []obsEntry
	facts       map[int]bool
	model       map[string]interface{}
	ModelHits   int
	modelState
}

type obsEntry struct {
	label string
	v     value
}

// KnownPredicate excludes a recorded finding from an obligation.
type KnownPredicate struct {
	ID         string
	Obligation string // obligation id (prefix match) the predicate applies to
	Pred       string // predicate source over draw labels
}

func NewExec(p *Program, h *ssa.Function, solver *smt.Solver, lim Limits) *Exec {
	return &Exec{
		P: p, b: smt.NewBuilder(), solver: solver, lim: lim, Harness: h,
		PathsByEnd: map[string]int{}, Obs: map[string]*ObStat{}, Cands: map[string]*Candidate{},
		Reached: map[string]int{}, Funcs: map[string]int{}, Models: map[string]int{},
		Unsupported: map[string]int{}, Assumes: map[string]int{}, Forks: map[string]int{},
		Observed: map[string][]string{}, Flags: map[string]int{},
	}
}

func (ex *Exec) unsupported(msg string) pathEnd {
	return pathEnd{kind: "unsupported", msg: msg}
}

// Run explores all paths (depth-first by decision-log re-execution).
func (ex *Exec) Run() {
	ex.pending = [][]int{{}}
	for len(ex.pending) > 0 {
		if ex.lim.MaxPaths > 0 && ex.Paths >= ex.lim.MaxPaths {
			ex.Incomplete = append(ex.Incomplete, fmt.Sprintf("paths: budget %d exhausted with %d prefixes pending", ex.lim.MaxPaths, len(ex.pending)))
			break
		}
		if !ex.lim.Deadline.IsZero() && time.Now().After(ex.lim.Deadline) {
			ex.Incomplete = append(ex.Incomplete, fmt.Sprintf("time: deadline reached with %d prefixes pending", len(ex.pending)))
			break
		}
		n := len(ex.pending) - 1
		prefix := ex.pending[n]
		ex.pending = ex.pending[:n]
		ex.runPath(prefix)
	}
}

func (ex *Exec) runPath(prefix []int) {
	ex.prefix, ex.pos, ex.trail = prefix, 0, nil
	ex.lim.NoPanicCheck = ex.noPanicDefault
	ex.pc, ex.draws = nil, nil
	ex.protected = map[*value]string{}
	ex.protectedMaps = map[*MapV]string{}
	ex.pathFlags = map[string]bool{}
	ex.resetGlobals()
	ex.steps, ex.depth, ex.errSeq, ex.objSeq, ex.timeSeq = 0, 0, 0, 0, 0
	ex.imprecise = nil
	ex.pathFlags = map[string]bool{}
	ex.pathObs = nil
	ex.facts = nil
	ex.model = nil
	ex.modelReset()
	if ex.solver != nil {
		ex.solver.Push()
	}
	end := pathEnd{kind: "return"}
	func() {
		defer func() {
			if r := recover(); r != nil {
				if pe, ok := r.(pathEnd); ok {
					end = pe
					return
				}
				if re, ok := r.(runtime.Error); ok && strings.Contains(re.Error(), "symex.opaqueV") {
					end = pathEnd{kind: "unsupported", msg: "opaque (unmodelled) value used" + ex.stackOf(ex.curFrame)}
					return
				}
				panic(r)
			}
		}()
		ex.callFn(nil, token.NoPos, ex.Harness, nil)
	}()
	if end.kind == "return" && ex.solver != nil && len(ex.Samples) < ex.SampleEvery && isPow2(ex.PathsByEnd["return"]+1) {
		ex.samplePath()
	}
	if end.kind == "budget" && ex.solver != nil && ex.Fixed == nil {
		// The step budget ran out on a path whose loops take no symbolic decision: either a long concrete computation
		// or a loop that does not terminate for these inputs. A model of the path is kept as a "hang" candidate; the
		// caller replays it natively under a time limit and reports it only if the real code does not finish either.
		id := ex.Harness.Name() + "#termination" // one per harness: the first path that exhausts the budget
		if ex.Cands[id] == nil {
			ex.checkSatModel(ex.b.True, func(m map[string]interface{}) {
				ex.recordCandidate(id, "hang", "terminates", nil, token.NoPos, m, "")
			})
		}
	}
	for k := range ex.pathFlags {
		ex.Flags[k]++
	}
	if ex.solver != nil {
		ex.solver.Pop()
	}
	ex.Paths++
	ex.Steps += int64(ex.steps)
	ex.PathsByEnd[end.kind]++
	switch end.kind {
	case "unsupported":
		ex.Unsupported[end.msg]++
	case "unwind", "budget", "depth":
		ex.Incomplete = append(ex.Incomplete, end.kind+": "+end.msg)
	}
	if ex.Trace {
		fmt.Printf("  path %v -> %s %s\n", ex.trail, end.kind, end.msg)
	}
}

// ---- path condition and decisions ----

func (ex *Exec) assume(c *smt.Term) {
	if cb, ok := c.ConstBool(); ok {
		if !cb {
			panic(pathEnd{kind: "infeasible"})
		}
		return
	}
	ex.noteFact(c, true)
	if ex.model != nil {
		if v, ok := smt.Eval(c, ex.model); !ok || !v.(bool) {
			ex.model = nil
		}
	}
	ex.pc = append(ex.pc, c)
	if ex.solver != nil {
		ex.solver.Assert(c)
	}
}

func (ex *Exec) checkSat(extra ...*smt.Term) smt.Result {
	if ex.solver == nil {
		// concolic mode: everything is constant, so a non-constant here is a bug
		for _, e := range extra {
			if cb, ok := e.ConstBool(); ok {
				if !cb {
					return smt.Unsat
				}
			} else {
				return smt.Unknown
			}
		}
		return smt.Sat
	}
	return ex.solver.CheckWith(extra...)
}

// noteFact records an atom asserted on this path (cheap syntactic pruning of later branches).
func (ex *Exec) noteFact(c *smt.Term, truth bool) {
	if ex.facts == nil {
		ex.facts = map[int]bool{}
	}
	ex.facts[c.ID] = truth
	switch c.Op {
	case smt.OpNot:
		ex.noteFact(c.Args[0], !truth)
	case smt.OpAnd:
		if truth {
			for _, a := range c.Args {
				ex.noteFact(a, true)
			}
		}
	case smt.OpOr:
		if !truth {
			for _, a := range c.Args {
				ex.noteFact(a, false)
			}
		}
	}
}

// decide picks one of the mutually exclusive, jointly exhaustive alternatives.
func (ex *Exec) decide(kind string, alts []*smt.Term) int {
	// constant folding: exactly one alternative may be constant-true
	live := []int{}
	for i, a := range alts {
		if cb, ok := a.ConstBool(); ok {
			if cb {
				return i
			}
			continue
		}
		if t, known := ex.facts[a.ID]; known {
			if t {
				return i
			}
			continue
		}
		live = append(live, i)
	}
	if len(live) == 0 {
		panic(pathEnd{kind: "infeasible"})
	}
	if len(live) == 1 && len(alts) > 1 {
		// all others are constant false; exhaustive => this one holds
		ex.assume(alts[live[0]])
		return live[0]
	}
	ex.forkSeq++
	if ex.pos < len(ex.prefix) {
		c := ex.prefix[ex.pos]
		ex.pos++
		ex.trail = append(ex.trail, c)
		ex.assume(alts[c])
		return c
	}
	ex.Forks[kind]++
	var feas []int
	models := map[int]map[string]interface{}{}
	for k, i := range live {
		if k == len(live)-1 && len(feas) == 0 {
			feas = append(feas, i) // last one standing
			break
		}
		// the model of the current path condition may already witness this alternative
		if ex.model != nil {
			if v, ok := smt.Eval(alts[i], ex.model); ok && v.(bool) {
				feas = append(feas, i)
				models[i] = ex.model
				ex.ModelHits++
				continue
			}
		}
		r := ex.checkSatKeep(alts[i], func() {
			if m, err := ex.solver.Model(ex.modelVars()); err == nil {
				models[i] = m
			}
		})
		if r != smt.Unsat {
			feas = append(feas, i)
		}
	}
	if len(feas) == 0 {
		panic(pathEnd{kind: "infeasible"})
	}
	ex.model = models[feas[0]]
	for k := len(feas) - 1; k >= 1; k-- {
		p := append(append([]int{}, ex.trail...), feas[k])
		ex.pending = append(ex.pending, p)
	}
	ex.pos++
	ex.trail = append(ex.trail, feas[0])
	ex.assume(alts[feas[0]])
	return feas[0]
}

// branch decides a Boolean condition; returns its truth value on this path.
func (ex *Exec) branch(kind string, c *smt.Term) bool {
	if cb, ok := c.ConstBool(); ok {
		return cb
	}
	return ex.decide(kind, []*smt.Term{c, ex.b.Not(c)}) == 0
}

// choose is an n-way unconstrained fork (verifrt.Choose and length forks).
func (ex *Exec) choose(kind string, n int) int {
	if n <= 0 {
		panic(pathEnd{kind: "infeasible"})
	}
	if n == 1 {
		return 0
	}
	ex.forkSeq++
	if ex.pos < len(ex.prefix) {
		c := ex.prefix[ex.pos]
		ex.pos++
		ex.trail = append(ex.trail, c)
		return c
	}
	ex.Forks[kind]++
	for k := n - 1; k >= 1; k-- {
		p := append(append([]int{}, ex.trail...), k)
		ex.pending = append(ex.pending, p)
	}
	ex.pos++
	ex.trail = append(ex.trail, 0)
	return 0
}

// concretize case-splits a term known to lie in [lo,hi] into a concrete value. The feasible
// values are enumerated with the solver (one query per feasible value, not per candidate); the
// decision log stores the chosen value itself.
func (ex *Exec) concretize(kind string, t *smt.Term, lo, hi int64) int64 {
	if c, ok := t.ConstInt(); ok {
		return c.Int64()
	}
	if t.Lo != nil && t.Lo.IsInt64() && t.Lo.Int64() > lo {
		lo = t.Lo.Int64()
	}
	if t.Hi != nil && t.Hi.IsInt64() && t.Hi.Int64() < hi {
		hi = t.Hi.Int64()
	}
	if hi < lo {
		panic(pathEnd{kind: "infeasible"})
	}
	b := ex.b
	ex.forkSeq++
	if ex.pos < len(ex.prefix) {
		v := int64(ex.prefix[ex.pos])
		ex.pos++
		ex.trail = append(ex.trail, int(v))
		ex.assume(b.Eq(t, b.I64(v)))
		return v
	}
	ex.Forks["concretize:"+kind]++
	var vals []int64
	if ex.solver == nil {
		panic(ex.unsupported("concretize without a solver"))
	}
	// a value from the current model comes for free
	var excl []*smt.Term
	if ex.model != nil {
		if r, ok := smt.Eval(t, ex.model); ok {
			v := r.(*big.Int).Int64()
			if v >= lo && v <= hi {
				vals = append(vals, v)
				excl = append(excl, b.Ne(t, b.I64(v)))
				ex.ModelHits++
			}
		}
	}
	firstModel := ex.model
	for len(vals) <= 64 {
		ex.solver.Push()
		ex.solver.Assert(b.And(b.Le(b.I64(lo), t), b.Le(t, b.I64(hi))))
		for _, e := range excl {
			ex.solver.Assert(e)
		}
		r := ex.solver.CheckLight()
		if r != smt.Sat {
			ex.solver.Pop()
			if r == smt.Unknown && len(vals) == 0 {
				panic(ex.unsupported("concretize " + kind + ": solver cannot enumerate values"))
			}
			break
		}
		v, err := ex.solver.IntValue(t)
		var m map[string]interface{}
		if err == nil && len(vals) == 0 {
			m, _ = ex.solver.Model(ex.modelVars())
		}
		ex.solver.Pop()
		if err != nil {
			panic(ex.unsupported("concretize " + kind + ": " + err.Error()))
		}
		if len(vals) == 0 {
			firstModel = m
		}
		vals = append(vals, v.Int64())
		excl = append(excl, b.Ne(t, b.Int(v)))
	}
	if len(vals) == 0 {
		panic(pathEnd{kind: "infeasible"})
	}
	if len(vals) > 64 {
		panic(ex.unsupported(fmt.Sprintf("concretize %s over more than 64 values", kind)))
	}
	for k := len(vals) - 1; k >= 1; k-- {
		p := append(append([]int{}, ex.trail...), int(vals[k]))
		ex.pending = append(ex.pending, p)
	}
	ex.pos++
	ex.trail = append(ex.trail, int(vals[0]))
	ex.model = firstModel
	ex.assume(b.Eq(t, b.I64(vals[0])))
	return vals[0]
}

// ---- obligations ----

func (ex *Exec) posOf(p token.Pos) string {
	if p == token.NoPos {
		return ""
	}
	pos := ex.P.Fset.Position(p)
	f := pos.Filename
	if rd := ex.P.RepoDir; rd != "" && strings.HasPrefix(f, rd+"/") {
		f = f[len(rd)+1:]
	} else if i := strings.Index(f, "/repo/"); i >= 0 {
		f = f[i+6:]
	}
	return fmt.Sprintf("%s:%d", f, pos.Line)
}

func (ex *Exec) site(fr *frame, p token.Pos) string {
	fn := ""
	if fr != nil {
		fn = fr.fn.String()
	}
	return fn + "@" + ex.posOf(p)
}

func (ex *Exec) obStat(id, kind, pos string) *ObStat {
	o := ex.Obs[id]
	if o == nil {
		o = &ObStat{ID: id, Kind: kind, Pos: pos}
		ex.Obs[id] = o
	}
	return o
}

// oblige poses "ok must hold here". A satisfiable negation records a candidate
// counterexample; the path continues under ok (CBMC style).
func (ex *Exec) oblige(kind, label string, fr *frame, p token.Pos, ok *smt.Term) {
	id := ex.Harness.Name() + "#" + kind + ":" + label
	if kind != "assert" {
		id = ex.Harness.Name() + "#" + kind + ":" + ex.site(fr, p)
	}
	if ex.lim.NoPanicCheck && kind != "assert" && kind != "frame" {
		// still constrain the path
		if cb, isC := ok.ConstBool(); isC && !cb {
			panic(pathEnd{kind: "panic", msg: kind})
		}
		if _, isC := ok.ConstBool(); !isC {
			ex.assume(ok)
		}
		return
	}
	st := ex.obStat(id, kind, ex.posOf(p))
	ex.curObligation = id
	if cb, isC := ok.ConstBool(); isC && cb {
		st.Trivial++
		return
	}
	st.Checked++
	neg := ex.b.Not(ok)
	known := ""
	r := ex.checkSatModel(neg, func(m map[string]interface{}) {
		ex.recordCandidate(id, kind, label, fr, p, m, "")
	})
	switch r {
	case smt.Unsat:
		st.Discharged++
	case smt.Sat:
		st.Sat++
		_ = known
	default:
		st.Inconcl++
		if st.FirstReason == "" {
			st.FirstReason = "solver unknown/timeout"
		}
	}
	if kind == "frame" {
		// a write to protected memory does not stop a Go program: the path goes on with the write performed, so that
		// what the mutation leads to later (a function leaking into the next Compile) is seen as well
		return
	}
	if cb, isC := ok.ConstBool(); isC && !cb {
		panic(pathEnd{kind: "panic", msg: kind + " " + label})
	}
	ex.assume(ok)
	if r == smt.Sat {
		// make sure the remaining path is still feasible
		if ex.checkSat() == smt.Unsat {
			panic(pathEnd{kind: "panic", msg: kind + " " + label})
		}
	}
}

// checkSatModel checks pc ∧ extra and, when satisfiable, hands the model of all draw
// variables to f. Known-finding predicates registered for the obligation are handled
// by the caller through recordCandidate.
func (ex *Exec) checkSatModel(extra *smt.Term, f func(map[string]interface{})) smt.Result {
	if ex.solver == nil {
		if cb, ok := extra.ConstBool(); ok {
			if cb {
				f(map[string]interface{}{})
				return smt.Sat
			}
			return smt.Unsat
		}
		return smt.Unknown
	}
	ex.solver.Push()
	defer ex.solver.Pop()
	ex.solver.Assert(extra)
	r := ex.solver.Check()
	if r != smt.Sat {
		return r
	}
	m, err := ex.solver.Model(ex.drawVars())
	if err != nil {
		return smt.Unknown
	}
	// Known findings: try to find a model outside every known predicate.
	var knownHit string
	preds := ex.knownFor(extra)
	if len(preds) > 0 {
		var negs []*smt.Term
		for _, kp := range preds {
			t, err := ex.parsePred(kp.Pred)
			if err != nil {
				continue
			}
			negs = append(negs, ex.b.Not(t))
		}
		for _, n := range negs {
			ex.solver.Assert(n)
		}
		r2 := ex.solver.Check()
		if r2 == smt.Sat {
			if m2, err := ex.solver.Model(ex.drawVars()); err == nil {
				m = m2
			}
		} else if r2 == smt.Unsat {
			knownHit = preds[0].ID
			for _, kp := range preds {
				if t, err := ex.parsePred(kp.Pred); err == nil {
					if v, ok := smt.Eval(t, m); ok && v.(bool) {
						knownHit = kp.ID
					}
				}
			}
		}
	}
	ex.pendingKnown = knownHit
	f(m)
	ex.pendingKnown = ""
	return smt.Sat
}

func (ex *Exec) drawVars() []*smt.Term {
	var vs []*smt.Term
	for _, d := range ex.draws {
		vs = append(vs, d.vars...)
	}
	return vs
}

func (ex *Exec) recordCandidate(id, kind, label string, fr *frame, p token.Pos, m map[string]interface{}, _ string) {
	key := id
	if ex.pendingKnown != "" {
		key = id + "|known:" + ex.pendingKnown
	}
	c := &Candidate{Obligation: id, Kind: kind, Label: label, Pos: ex.posOf(p), Model: m, Known: ex.pendingKnown,
		Path: append([]int{}, ex.trail...)}
	for _, d := range ex.draws {
		c.Draws = append(c.Draws, ex.concreteDraw(d, m))
	}
	if old := ex.Cands[key]; old != nil {
		// further witnesses of the same obligation that come through other choices of the harness (another function, another
		// form of operand) are kept as alternates: when the first does not reproduce natively - the engine's model of a
		// float or text operation was too loose on that path - one of them may, and a real finding is not lost behind it
		sig := choiceSignature(c)
		if len(old.Alts) >= 8 || sig == choiceSignature(old) {
			return
		}
		for _, a := range old.Alts {
			if choiceSignature(a) == sig {
				return
			}
		}
		old.Alts = append(old.Alts, c)
		return
	}
	ex.Cands[key] = c
}

func choiceSignature(c *Candidate) string {
	var sb strings.Builder
	for _, d := range c.Draws {
		if d.Op == "choose" || d.Op == "tag" {
			fmt.Fprintf(&sb, "%s=%v;", d.Label, d.V)
		}
	}
	return sb.String()
}

func (ex *Exec) concreteDraw(d Draw, m map[string]interface{}) Draw {
	out := Draw{Op: d.Op, Label: d.Label, N: d.N}
	if len(d.vars) == 0 && d.Op != "choose" && d.Op != "string" && d.Op != "tag" {
		out.V, out.Bytes = d.V, d.Bytes
		return out
	}
	switch d.Op {
	case "tag":
		out.V = d.V
	case "choose":
		out.V = d.pick
	case "string", "bytes":
		out.Bytes = []int{}
		for _, v := range d.vars {
			x := int64(0)
			if bv, ok := m[v.Name].(*big.Int); ok {
				x = bv.Int64()
			}
			out.Bytes = append(out.Bytes, int(x))
		}
	case "bool":
		bv, _ := m[d.vars[0].Name].(bool)
		out.V = bv
	case "float64bits":
		if s, ok := m[d.vars[0].Name].(string); ok {
			out.V = s
		}
	case "decimal":
		n := "0"
		if bv, ok := m[d.vars[0].Name].(*big.Int); ok {
			n = bv.String()
		}
		out.V = n // exponent is in N (negated scale)
	default: // integers
		n := "0"
		if bv, ok := m[d.vars[0].Name].(*big.Int); ok {
			n = bv.String()
		}
		out.V = n
	}
	return out
}

// ---- known findings ----

func (ex *Exec) knownFor(_ *smt.Term) []KnownPredicate {
	id := ex.curObligation
	var out []KnownPredicate
	for _, k := range ex.Known {
		if k.Obligation == id || (strings.HasSuffix(k.Obligation, "*") && strings.HasPrefix(id, strings.TrimSuffix(k.Obligation, "*"))) {
			out = append(out, k)
		}
	}
	return out
}

// ---- summaries ----

func (ex *Exec) SortedObs() []*ObStat {
	var out []*ObStat
	for _, o := range ex.Obs {
		out = append(out, o)
	}
	sort.Slice(out, func(i, j int) bool { return out[i].ID < out[j].ID })
	return out
}

func (ex *Exec) SortedCands() []*Candidate {
	var out []*Candidate
	for _, c := range ex.Cands {
		out = append(out, c)
	}
	sort.Slice(out, func(i, j int) bool {
		if out[i].Obligation != out[j].Obligation {
			return out[i].Obligation < out[j].Obligation
		}
		return out[i].Known < out[j].Known
	})
	return out
}

var _ = types.Typ

func isPow2(n int) bool { return n > 0 && n&(n-1) == 0 }

// samplePath asks the solver for one concrete input that follows the path just explored to a
// normal return; it is replayed natively (translator validation: the native run must also end
// normally and print the same Observe values).
func (ex *Exec) samplePath() {
	if ex.solver.Check() != smt.Sat {
		return
	}
	m, err := ex.solver.Model(ex.drawVars())
	if err != nil {
		return
	}
	c := &Candidate{Obligation: "path-sample", Kind: "sample", Model: m, Path: append([]int{}, ex.trail...)}
	for _, d := range ex.draws {
		c.Draws = append(c.Draws, ex.concreteDraw(d, m))
	}
	for _, o := range ex.pathObs {
		c.Observed = append(c.Observed, o.label+"="+ex.renderUnder(o.v, m))
	}
	ex.Samples = append(ex.Samples, c)
}

// resetGlobals gives the path a private copy of the post-initialisation heap. The initialisers
// of the harness package and its imports are executed once per harness (they are concrete).
func (ex *Exec) resetGlobals() {
	if ex.baseGlobals == nil {
		ex.globals = map[*ssa.Global]*value{}
		ex.inited = map[*ssa.Package]bool{}
		func() {
			defer func() {
				if r := recover(); r != nil {
					if pe, ok := r.(pathEnd); ok {
						ex.InitError = pe.kind + ": " + pe.msg
						return
					}
					panic(r)
				}
			}()
			ex.ensureInit(ex.Harness.Pkg)
		}()
		ex.baseGlobals = ex.globals
		ex.baseInited = ex.inited
		ex.InitSteps = ex.steps
	}
	c := newCloner()
	ex.globals = map[*ssa.Global]*value{}
	for g, cell := range ex.baseGlobals {
		// the range tables of package unicode are some ten thousand cells of constant data that no code writes: every
		// path shares them instead of copying them (they are 2/3 of the cost of a short path otherwise)
		if g.Pkg != nil && g.Pkg.Pkg.Path() == "unicode" {
			ex.globals[g] = cell
			continue
		}
		ex.globals[g] = c.cell(cell)
	}
	ex.inited = map[*ssa.Package]bool{}
	for p, v := range ex.baseInited {
		ex.inited[p] = v
	}
	if ex.ProtectGlobals {
		for g, cell := range ex.globals {
			if g.Pkg != nil && strings.HasPrefix(g.Pkg.Pkg.Path(), RepoModule) && g.Name() != "init$guard" {
				ex.protectDeep(cell, "global "+g.String(), map[*value]bool{})
			}
		}
	}
}

// checkSatKeep is checkSat for one extra assertion; onSat runs while the solver still holds the model.
func (ex *Exec) checkSatKeep(extra *smt.Term, onSat func()) smt.Result {
	if ex.solver == nil {
		return ex.checkSat(extra)
	}
	ex.solver.Push()
	ex.solver.Assert(extra)
	r := ex.solver.CheckLight()
	if r == smt.Sat {
		onSat()
	}
	ex.solver.Pop()
	return r
}

// modelVars: draw variables plus the other symbolic inputs of the path (clock reads).
func (ex *Exec) modelVars() []*smt.Term {
	vs := ex.drawVars()
	return append(vs, ex.extraVars...)
}
