// Package symex is a symbolic executor over go/ssa: scalar values are SMT terms,
// the heap shape is concrete, the environment is a set of explicit models.
package symex

import (
	"fmt"
	"go/types"
	"math/big"
	"strings"

	"gosmt/smt"

	"golang.org/x/tools/go/ssa"
)

type value interface{}

type structure []value
type array []value
type tuple []value

// iface is an interface value; t == nil means the nil interface.
type iface struct {
	t types.Type
	v value
}

type closure struct {
	Fn  *ssa.Function
	Env []value
}

// Str is a Go string: a concrete-length tuple of byte terms (Int 0..255).
// An opaque string is message text: only identity and passing along are supported.
type Str struct {
	b      []*smt.Term
	opaque bool
	note   string
	tag    *fmtTag // set when the string is the rendering of a time value
}

// MapV is a Go map with a concrete, ordered entry list.
type MapV struct {
	keyT    types.Type
	entries []*mapEntry
}

type mapEntry struct {
	k, v    value
	deleted bool
}

// ErrV is the model of the stdlib error implementations (errors.New, fmt.Errorf, errors.Join).
type ErrV struct {
	id    int
	msg   string
	wraps []value // iface values
}

// bad marks a destroyed local.
type bad struct{}

// opaqueV is the result of a havoc stub: anything done with it aborts the path as unsupported.
type opaqueV struct{ why string }

func (ex *Exec) strConst(s string) *Str {
	r := &Str{b: make([]*smt.Term, len(s))}
	for i := 0; i < len(s); i++ {
		r.b[i] = ex.b.I64(int64(s[i]))
	}
	return r
}

// concrete returns the Go string if every byte is constant.
func (s *Str) concrete() (string, bool) {
	if s.opaque {
		return "", false
	}
	var sb strings.Builder
	for _, t := range s.b {
		c, ok := t.ConstInt()
		if !ok {
			return "", false
		}
		sb.WriteByte(byte(c.Int64()))
	}
	return sb.String(), true
}

func (s *Str) String() string {
	if s.opaque {
		return "<opaque:" + s.note + ">"
	}
	if c, ok := s.concrete(); ok {
		return fmt.Sprintf("%q", c)
	}
	var parts []string
	for _, t := range s.b {
		parts = append(parts, t.String())
	}
	return "str[" + strings.Join(parts, ",") + "]"
}

var (
	big0 = big.NewInt(0)
	big1 = big.NewInt(1)
)

func intRange(bt *types.Basic) (lo, hi *big.Int, bits uint, signed bool) {
	switch bt.Kind() {
	case types.Int8:
		bits, signed = 8, true
	case types.Int16:
		bits, signed = 16, true
	case types.Int32, types.UntypedRune:
		bits, signed = 32, true
	case types.Int64, types.Int, types.UntypedInt:
		bits, signed = 64, true
	case types.Uint8:
		bits = 8
	case types.Uint16:
		bits = 16
	case types.Uint32:
		bits = 32
	case types.Uint64, types.Uint, types.Uintptr:
		bits = 64
	default:
		panic("intRange: not an integer type: " + bt.String())
	}
	if signed {
		lo = new(big.Int).Neg(smt.Pow2(bits - 1))
		hi = new(big.Int).Sub(smt.Pow2(bits-1), big1)
	} else {
		lo = big0
		hi = new(big.Int).Sub(smt.Pow2(bits), big1)
	}
	return
}

func isInteger(t types.Type) (*types.Basic, bool) {
	bt, ok := t.Underlying().(*types.Basic)
	if !ok {
		return nil, false
	}
	return bt, bt.Info()&types.IsInteger != 0
}

func isString(t types.Type) bool {
	bt, ok := t.Underlying().(*types.Basic)
	return ok && bt.Info()&types.IsString != 0
}

func isFloat(t types.Type) bool {
	bt, ok := t.Underlying().(*types.Basic)
	return ok && bt.Info()&types.IsFloat != 0
}

func isBool(t types.Type) bool {
	bt, ok := t.Underlying().(*types.Basic)
	return ok && bt.Info()&types.IsBoolean != 0
}

func typeName(t types.Type) string {
	return types.TypeString(t, nil)
}

// zero returns the zero value of t.
func (ex *Exec) zero(t types.Type) value {
	if mz := ex.modelZero(t); mz != nil {
		return mz
	}
	switch t := t.(type) {
	case *types.Basic:
		if t.Kind() == types.UntypedNil {
			panic("untyped nil has no zero value")
		}
		switch {
		case t.Info()&types.IsBoolean != 0:
			return ex.b.False
		case t.Info()&types.IsInteger != 0:
			return ex.b.I64(0)
		case t.Info()&types.IsFloat != 0:
			return ex.fpConst(0)
		case t.Info()&types.IsString != 0:
			return &Str{}
		case t.Kind() == types.UnsafePointer:
			return (*value)(nil)
		}
		panic(ex.unsupported("zero of basic type " + t.String()))
	case *types.Pointer:
		return (*value)(nil)
	case *types.Array:
		a := make(array, t.Len())
		for i := range a {
			a[i] = ex.zero(t.Elem())
		}
		return a
	case *types.Slice:
		return []value(nil)
	case *types.Struct:
		s := make(structure, t.NumFields())
		for i := range s {
			s[i] = ex.zero(t.Field(i).Type())
		}
		return s
	case *types.Tuple:
		if t.Len() == 1 {
			return ex.zero(t.At(0).Type())
		}
		s := make(tuple, t.Len())
		for i := range s {
			s[i] = ex.zero(t.At(i).Type())
		}
		return s
	case *types.Chan:
		return nil
	case *types.Map:
		return (*MapV)(nil)
	case *types.Signature:
		return (*ssa.Function)(nil)
	case *types.Interface:
		return iface{}
	case *types.Named:
		return ex.zero(t.Underlying())
	case *types.Alias:
		return ex.zero(types.Unalias(t))
	}
	panic(ex.unsupported(fmt.Sprintf("zero of %T %v", t, t)))
}

// copyVal makes a copy of a value with Go assignment semantics.
func copyVal(v value) value {
	switch v := v.(type) {
	case structure:
		a := make(structure, len(v))
		for i := range v {
			a[i] = copyVal(v[i])
		}
		return a
	case array:
		a := make(array, len(v))
		for i := range v {
			a[i] = copyVal(v[i])
		}
		return a
	case tuple:
		a := make(tuple, len(v))
		for i := range v {
			a[i] = copyVal(v[i])
		}
		return a
	case *BuilderV:
		// strings.Builder is a struct: assignment copies it
		if v == nil {
			return v
		}
		return &BuilderV{b: append([]*smt.Term{}, v.b...)}
	}
	return v
}

func (ex *Exec) describe(v value) string {
	switch v := v.(type) {
	case nil:
		return "nil"
	case *smt.Term:
		s := v.String()
		if len(s) > 120 {
			s = s[:120] + "…"
		}
		return s
	case *Str:
		return v.String()
	case iface:
		if v.t == nil {
			return "nil-iface"
		}
		return "iface{" + typeName(v.t) + ": " + ex.describe(v.v) + "}"
	case structure:
		var p []string
		for _, f := range v {
			p = append(p, ex.describe(f))
		}
		return "{" + strings.Join(p, ", ") + "}"
	case []value:
		var p []string
		for _, f := range v {
			p = append(p, ex.describe(f))
		}
		return "[" + strings.Join(p, ", ") + "]"
	case *value:
		if v == nil {
			return "nil-ptr"
		}
		return "&" + ex.describe(*v)
	case *ErrV:
		return "err#" + fmt.Sprint(v.id) + "(" + v.msg + ")"
	}
	return fmt.Sprintf("%T", v)
}
