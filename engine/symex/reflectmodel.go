package symex

import (
	"fmt"
	"go/token"
	"go/types"

	"gosmt/smt"

	"golang.org/x/tools/go/ssa"
)

// A model of the part of package reflect that the repository uses (system/cmp.go and
// funcs/function.go). Everything is resolved concretely from go/types on the concrete dynamic
// types of the operands; Value.Call is a direct call of the resolved SSA function.

// RTypeV is a reflect.Type. For method values obtained through Type.MethodByName the function
// type has the receiver as its first parameter (recv != nil).
type RTypeV struct {
	t    types.Type
	recv types.Type
}

// RValV is a reflect.Value.
type RValV struct {
	valid bool
	t     types.Type // dynamic type
	v     value
	meth  *ssa.Function // method function value (receiver first)
	recv  types.Type
}

var rtypeFake = &fakeType{name: "*reflect.rtype", methods: map[string]bool{"MethodByName": true, "In": true, "Out": true, "NumIn": true, "NumOut": true,
	"Name": true, "String": true, "Kind": true, "AssignableTo": true, "ConvertibleTo": true, "Elem": true, "IsVariadic": true, "Implements": true}, anyIface: true}

func (ex *Exec) rtype(t types.Type) value { return iface{rtypeFake, RTypeV{t: t}} }

func rtypeOf(v value) (RTypeV, bool) {
	it, ok := v.(iface)
	if !ok || it.t != rtypeFake {
		return RTypeV{}, false
	}
	r, ok := it.v.(RTypeV)
	return r, ok
}

func kindOf(t types.Type) int64 {
	switch u := t.Underlying().(type) {
	case *types.Basic:
		switch u.Kind() {
		case types.Bool:
			return 1
		case types.Int:
			return 2
		case types.Int8:
			return 3
		case types.Int16:
			return 4
		case types.Int32:
			return 5
		case types.Int64:
			return 6
		case types.Uint:
			return 7
		case types.Uint8:
			return 8
		case types.Uint16:
			return 9
		case types.Uint32:
			return 10
		case types.Uint64:
			return 11
		case types.Uintptr:
			return 12
		case types.Float32:
			return 13
		case types.Float64:
			return 14
		case types.String:
			return 24
		case types.UnsafePointer:
			return 26
		}
	case *types.Array:
		return 17
	case *types.Chan:
		return 18
	case *types.Signature:
		return 19
	case *types.Interface:
		return 20
	case *types.Map:
		return 21
	case *types.Pointer:
		return 22
	case *types.Slice:
		return 23
	case *types.Struct:
		return 25
	}
	return 0
}

func (r RTypeV) params() []types.Type {
	sig, ok := r.t.Underlying().(*types.Signature)
	if !ok {
		return nil
	}
	var out []types.Type
	if r.recv != nil {
		out = append(out, r.recv)
	}
	for i := 0; i < sig.Params().Len(); i++ {
		out = append(out, sig.Params().At(i).Type())
	}
	return out
}

func (ex *Exec) reflectTypeMethod(recv iface, name string) *modelClosure {
	r := recv.v.(RTypeV)
	mk := func(f func(ex *Exec, fr *frame, pos token.Pos, args []value) value) *modelClosure {
		return &modelClosure{name: "reflect.Type." + name, f: func(ex *Exec, caller *frame, pos token.Pos, args []value) value {
			ex.Models["reflect(model).Type."+name]++
			return f(ex, caller, pos, args)
		}}
	}
	switch name {
	case "MethodByName":
		return mk(func(ex *Exec, fr *frame, pos token.Pos, args []value) value {
			mname := ex.wantConcrete(args[1], "reflect MethodByName")
			ms := ex.P.Prog.MethodSets.MethodSet(r.t)
			var sel *types.Selection
			if token.IsExported(mname) {
				sel = ms.Lookup(nil, mname)
			}
			if sel == nil {
				return tuple{ex.reflectMethodStruct("", RTypeV{}, RValV{}, 0), ex.b.False}
			}
			fn := ex.P.Prog.MethodValue(sel)
			if fn == nil {
				panic(ex.unsupported("reflect: abstract method " + mname))
			}
			ft := RTypeV{t: sel.Type(), recv: r.t}
			// index among exported methods sorted by name
			idx := 0
			for i := 0; i < ms.Len(); i++ {
				if n := ms.At(i).Obj().Name(); token.IsExported(n) && n < mname {
					idx++
				}
			}
			return tuple{ex.reflectMethodStruct(mname, ft, RValV{valid: true, t: sel.Type(), meth: fn, recv: r.t}, idx), ex.b.True}
		})
	case "In":
		return mk(func(ex *Exec, fr *frame, pos token.Pos, args []value) value {
			ps := r.params()
			i := ex.concreteInt(args[1], "reflect Type.In index")
			if _, ok := r.t.Underlying().(*types.Signature); !ok || i < 0 || i >= len(ps) {
				ex.oblige("panic", "reflect: Type.In out of range / not a func", fr, pos, ex.b.False)
			}
			return ex.rtype(ps[i])
		})
	case "Out":
		return mk(func(ex *Exec, fr *frame, pos token.Pos, args []value) value {
			sig, ok := r.t.Underlying().(*types.Signature)
			i := ex.concreteInt(args[1], "reflect Type.Out index")
			if !ok || i < 0 || i >= sig.Results().Len() {
				ex.oblige("panic", "reflect: Type.Out out of range / not a func", fr, pos, ex.b.False)
			}
			return ex.rtype(sig.Results().At(i).Type())
		})
	case "NumIn":
		return mk(func(ex *Exec, fr *frame, pos token.Pos, args []value) value {
			if _, ok := r.t.Underlying().(*types.Signature); !ok {
				ex.oblige("panic", "reflect: NumIn of non-func type", fr, pos, ex.b.False)
			}
			return ex.k(int64(len(r.params())))
		})
	case "NumOut":
		return mk(func(ex *Exec, fr *frame, pos token.Pos, args []value) value {
			sig, ok := r.t.Underlying().(*types.Signature)
			if !ok {
				ex.oblige("panic", "reflect: NumOut of non-func type", fr, pos, ex.b.False)
			}
			return ex.k(int64(sig.Results().Len()))
		})
	case "Name":
		return mk(func(ex *Exec, fr *frame, pos token.Pos, args []value) value {
			switch t := r.t.(type) {
			case *types.Named:
				return ex.strConst(t.Obj().Name())
			case *types.Basic:
				return ex.strConst(t.Name())
			case *types.Alias:
				return ex.strConst(t.Obj().Name())
			}
			return ex.strConst("")
		})
	case "String":
		return mk(func(ex *Exec, fr *frame, pos token.Pos, args []value) value { return ex.strConst(goTypeString(r.t)) })
	case "Kind":
		return mk(func(ex *Exec, fr *frame, pos token.Pos, args []value) value { return ex.k(kindOf(r.t)) })
	case "IsVariadic":
		return mk(func(ex *Exec, fr *frame, pos token.Pos, args []value) value {
			sig, ok := r.t.Underlying().(*types.Signature)
			if !ok {
				ex.oblige("panic", "reflect: IsVariadic of non-func type", fr, pos, ex.b.False)
			}
			return ex.b.Bool(sig.Variadic())
		})
	case "Implements":
		return mk(func(ex *Exec, fr *frame, pos token.Pos, args []value) value {
			u, ok := rtypeOf(args[1])
			if !ok {
				ex.oblige("panic", "reflect: nil type passed to Type.Implements", fr, pos, ex.b.False)
			}
			it, ok := u.t.Underlying().(*types.Interface)
			if !ok {
				ex.oblige("panic", "reflect: non-interface type passed to Type.Implements", fr, pos, ex.b.False)
			}
			return ex.b.Bool(types.Implements(r.t, it))
		})
	case "Elem":
		return mk(func(ex *Exec, fr *frame, pos token.Pos, args []value) value {
			switch u := r.t.Underlying().(type) {
			case *types.Pointer:
				return ex.rtype(u.Elem())
			case *types.Slice:
				return ex.rtype(u.Elem())
			case *types.Array:
				return ex.rtype(u.Elem())
			case *types.Map:
				return ex.rtype(u.Elem())
			case *types.Chan:
				return ex.rtype(u.Elem())
			}
			ex.oblige("panic", "reflect: Elem of invalid type", fr, pos, ex.b.False)
			return nil
		})
	case "AssignableTo", "ConvertibleTo":
		return mk(func(ex *Exec, fr *frame, pos token.Pos, args []value) value {
			u, ok := rtypeOf(args[1])
			if !ok {
				ex.oblige("panic", "reflect: nil type passed to Type."+name, fr, pos, ex.b.False)
			}
			if r.recv != nil || u.recv != nil {
				panic(ex.unsupported("reflect: " + name + " on method function types"))
			}
			if name == "AssignableTo" {
				return ex.b.Bool(types.AssignableTo(r.t, u.t))
			}
			return ex.b.Bool(types.ConvertibleTo(r.t, u.t))
		})
	}
	return nil
}

// reflectMethodStruct builds a reflect.Method value: {Name, PkgPath string; Type Type; Func Value; Index int}.
func (ex *Exec) reflectMethodStruct(name string, ft RTypeV, fn RValV, idx int) value {
	var tv value = iface{}
	if ft.t != nil {
		tv = iface{rtypeFake, ft}
	}
	return structure{ex.strConst(name), ex.strConst(""), tv, fn, ex.k(int64(idx))}
}

func (ex *Exec) rvalOf(v value) RValV {
	switch x := v.(type) {
	case RValV:
		return x
	}
	panic(ex.unsupported(fmt.Sprintf("reflect.Value operand is %T", v)))
}

// toParam converts a reflect.Value into the representation of a parameter of static type pt.
func (ex *Exec) toParam(fr *frame, pos token.Pos, a RValV, pt types.Type) value {
	if !a.valid {
		ex.oblige("panic", "reflect: Call using zero Value argument", fr, pos, ex.b.False)
	}
	if _, isI := pt.Underlying().(*types.Interface); isI {
		if _, srcI := a.t.Underlying().(*types.Interface); srcI {
			return a.v
		}
		if !ex.implements(a.t, pt.Underlying().(*types.Interface)) {
			ex.oblige("panic", fmt.Sprintf("reflect: Call using %s as type %s", a.t, pt), fr, pos, ex.b.False)
		}
		return iface{t: a.t, v: a.v}
	}
	if !types.AssignableTo(a.t, pt) {
		ex.oblige("panic", fmt.Sprintf("reflect: Call using %s as type %s", a.t, pt), fr, pos, ex.b.False)
	}
	return a.v
}

func init() {
	reg("reflect.TypeOf", func(ex *Exec, fr *frame, pos token.Pos, args []value) value {
		it := args[0].(iface)
		if it.t == nil {
			return iface{}
		}
		if _, isFake := it.t.(*fakeType); isFake {
			panic(ex.unsupported("reflect.TypeOf on a model object"))
		}
		return ex.rtype(it.t)
	})
	reg("reflect.DeepEqual", func(ex *Exec, fr *frame, pos token.Pos, args []value) value {
		a, b := args[0].(iface), args[1].(iface)
		if a.t == nil || b.t == nil {
			return ex.b.Bool(a.t == nil && b.t == nil)
		}
		if !typesIdentical(a.t, b.t) {
			return ex.b.False
		}
		switch a.t.Underlying().(type) {
		case *types.Basic:
			return ex.eqVal(a.t, a.v, b.v)
		}
		panic(ex.unsupported("reflect.DeepEqual on " + typeName(a.t)))
	})
	reg("reflect.ValueOf", func(ex *Exec, fr *frame, pos token.Pos, args []value) value {
		it := args[0].(iface)
		if it.t == nil {
			return RValV{}
		}
		if _, isFake := it.t.(*fakeType); isFake {
			panic(ex.unsupported("reflect.ValueOf on a model object"))
		}
		return RValV{valid: true, t: it.t, v: it.v}
	})
	reg("(reflect.Value).Type", func(ex *Exec, fr *frame, pos token.Pos, args []value) value {
		r := ex.rvalOf(args[0])
		if !r.valid {
			ex.oblige("panic", "reflect: call of reflect.Value.Type on zero Value", fr, pos, ex.b.False)
		}
		return iface{rtypeFake, RTypeV{t: r.t, recv: r.recv}}
	})
	reg("(reflect.Value).Kind", func(ex *Exec, fr *frame, pos token.Pos, args []value) value {
		r := ex.rvalOf(args[0])
		if !r.valid {
			return ex.k(0)
		}
		return ex.k(kindOf(r.t))
	})
	reg("(reflect.Value).IsNil", func(ex *Exec, fr *frame, pos token.Pos, args []value) value {
		r := ex.rvalOf(args[0])
		if !r.valid {
			ex.oblige("panic", "reflect: call of reflect.Value.IsNil on zero Value", fr, pos, ex.b.False)
		}
		switch v := r.v.(type) {
		case nil:
			return ex.b.True
		case *ssa.Function:
			return ex.b.Bool(v == nil)
		case *closure:
			return ex.b.Bool(v == nil)
		case *value:
			return ex.b.Bool(v == nil)
		case []value:
			return ex.b.Bool(v == nil)
		case *MapV:
			return ex.b.Bool(v == nil)
		case iface:
			return ex.b.Bool(v.t == nil)
		}
		switch r.t.Underlying().(type) {
		case *types.Signature, *types.Pointer, *types.Slice, *types.Map, *types.Chan, *types.Interface:
			panic(ex.unsupported(fmt.Sprintf("reflect.Value.IsNil on %T", r.v)))
		}
		ex.oblige("panic", "reflect: call of reflect.Value.IsNil on a non-nillable kind", fr, pos, ex.b.False)
		return ex.b.False
	})
	reg("(reflect.Value).Bool", func(ex *Exec, fr *frame, pos token.Pos, args []value) value {
		r := ex.rvalOf(args[0])
		if !r.valid || !isBool(r.t) {
			ex.oblige("panic", "reflect: call of reflect.Value.Bool on non-bool Value", fr, pos, ex.b.False)
		}
		return r.v
	})
	reg("(reflect.Value).Interface", func(ex *Exec, fr *frame, pos token.Pos, args []value) value {
		r := ex.rvalOf(args[0])
		if !r.valid {
			ex.oblige("panic", "reflect: call of reflect.Value.Interface on zero Value", fr, pos, ex.b.False)
		}
		if _, isI := r.t.Underlying().(*types.Interface); isI {
			return r.v
		}
		return iface{t: r.t, v: r.v}
	})
	reg("(reflect.Value).Pointer", func(ex *Exec, fr *frame, pos token.Pos, args []value) value {
		r := ex.rvalOf(args[0])
		if !r.valid {
			ex.oblige("panic", "reflect: call of reflect.Value.Pointer on zero Value", fr, pos, ex.b.False)
		}
		// code pointers of top-level functions: one stable identity per function
		switch f := r.v.(type) {
		case *ssa.Function:
			if f == nil {
				return ex.k(0)
			}
			id, ok := ex.fnIDs[f]
			if !ok {
				if ex.fnIDs == nil {
					ex.fnIDs = map[*ssa.Function]int64{}
				}
				id = int64(0x10000 + 16*len(ex.fnIDs))
				ex.fnIDs[f] = id
			}
			return ex.k(id)
		}
		panic(ex.unsupported(fmt.Sprintf("reflect.Value.Pointer on %T", r.v)))
	})
	reg("(reflect.Value).IsValid", func(ex *Exec, fr *frame, pos token.Pos, args []value) value {
		return ex.b.Bool(ex.rvalOf(args[0]).valid)
	})
	reg("(reflect.Value).Call", func(ex *Exec, fr *frame, pos token.Pos, args []value) value {
		f := ex.rvalOf(args[0])
		in, _ := args[1].([]value)
		if !f.valid {
			ex.oblige("panic", "reflect: call of reflect.Value.Call on zero Value", fr, pos, ex.b.False)
		}
		sig, ok := f.t.Underlying().(*types.Signature)
		if !ok {
			ex.oblige("panic", "reflect: call of non-function", fr, pos, ex.b.False)
		}
		ft := RTypeV{t: f.t, recv: f.recv}
		ps := ft.params()
		if sig.Variadic() {
			panic(ex.unsupported("reflect.Value.Call of a variadic function"))
		}
		if len(in) != len(ps) {
			ex.oblige("panic", "reflect: Call with too few/many input arguments", fr, pos, ex.b.False)
		}
		callArgs := make([]value, len(ps))
		for i := range ps {
			callArgs[i] = ex.toParam(fr, pos, ex.rvalOf(in[i]), ps[i])
		}
		var res value
		if f.meth != nil {
			res = ex.callFn(fr, pos, f.meth, callArgs)
		} else {
			res = ex.callValue(fr, pos, f.v, callArgs)
		}
		n := sig.Results().Len()
		out := make([]value, n)
		for i := 0; i < n; i++ {
			rt := sig.Results().At(i).Type()
			var rv value
			if n == 1 {
				rv = res
			} else {
				rv = res.(tuple)[i]
			}
			out[i] = RValV{valid: true, t: rt, v: rv}
		}
		return out
	})
}

var _ = smt.SBool
