package symex

import (
	"fmt"
	"go/token"
	"math"
	"math/big"
	"strconv"
	"strings"

	"gosmt/smt"
)

func init() {
	fp1 := func(head string, f func(float64) float64) modelFunc {
		return func(ex *Exec, fr *frame, pos token.Pos, args []value) value {
			x := args[0].(*smt.Term)
			if c, ok := fpConstVal(x); ok {
				return ex.fpConst(f(c))
			}
			return ex.fpRaw(smt.SFP, head, x)
		}
	}
	reg("math.Abs", fp1("fp.abs", math.Abs))
	reg("math.Ceil", fp1("fp.roundToIntegral RTP", math.Ceil))
	reg("math.Floor", fp1("fp.roundToIntegral RTN", math.Floor))
	reg("math.Trunc", fp1("fp.roundToIntegral RTZ", math.Trunc))
	reg("math.Sqrt", fp1("fp.sqrt RNE", math.Sqrt))
	reg("math.IsNaN", func(ex *Exec, fr *frame, pos token.Pos, args []value) value {
		return ex.fpIsNaN(args[0].(*smt.Term))
	})
	reg("math.IsInf", func(ex *Exec, fr *frame, pos token.Pos, args []value) value {
		x := args[0].(*smt.Term)
		sign := args[1].(*smt.Term)
		sc, ok := sign.ConstInt()
		if !ok {
			panic(ex.unsupported("math.IsInf with symbolic sign"))
		}
		inf := ex.fpIsInf(x)
		switch {
		case sc.Sign() > 0:
			return ex.b.And(inf, ex.fpRaw(smt.SBool, "fp.isPositive", x))
		case sc.Sign() < 0:
			return ex.b.And(inf, ex.fpRaw(smt.SBool, "fp.isNegative", x))
		}
		return inf
	})
	reg("math.NaN", func(ex *Exec, fr *frame, pos token.Pos, args []value) value { return ex.fpConst(math.NaN()) })
	reg("math.Inf", func(ex *Exec, fr *frame, pos token.Pos, args []value) value {
		sc, ok := args[0].(*smt.Term).ConstInt()
		if !ok {
			panic(ex.unsupported("math.Inf with symbolic sign"))
		}
		if sc.Sign() >= 0 {
			return ex.fpConst(math.Inf(1))
		}
		return ex.fpConst(math.Inf(-1))
	})
	// transcendental functions: an arbitrary float64 constrained only by the documented special cases
	reg("math.Log", func(ex *Exec, fr *frame, pos token.Pos, args []value) value {
		x := args[0].(*smt.Term)
		if c, ok := fpConstVal(x); ok {
			return ex.fpConst(math.Log(c))
		}
		r := ex.freshFP("math.Log")
		b := ex.b
		zero := ex.fpConst(0)
		isNaN := ex.fpIsNaN(x)
		neg := ex.fpRaw(smt.SBool, "fp.lt", x, zero)
		isZero := ex.fpRaw(smt.SBool, "fp.isZero", x)
		posInf := b.And(ex.fpIsInf(x), ex.fpRaw(smt.SBool, "fp.isPositive", x))
		// Log(+Inf)=+Inf, Log(0)=-Inf, Log(x<0)=NaN, Log(NaN)=NaN, otherwise finite
		ex.assume(b.Ite(b.Or(isNaN, neg), ex.fpIsNaN(r),
			b.Ite(isZero, b.And(ex.fpIsInf(r), ex.fpRaw(smt.SBool, "fp.isNegative", r)),
				b.Ite(posInf, b.And(ex.fpIsInf(r), ex.fpRaw(smt.SBool, "fp.isPositive", r)),
					b.And(b.Not(ex.fpIsNaN(r)), b.Not(ex.fpIsInf(r)))))))
		return r
	})
	reg("math.Pow", func(ex *Exec, fr *frame, pos token.Pos, args []value) value {
		x, y := args[0].(*smt.Term), args[1].(*smt.Term)
		cx, okx := fpConstVal(x)
		cy, oky := fpConstVal(y)
		if okx && oky {
			return ex.fpConst(math.Pow(cx, cy))
		}
		// unconstrained: may be any float64 including NaN and ±Inf
		return ex.freshFP("math.Pow")
	})
	const dec = "github.com/shopspring/decimal"
	// InexactFloat64: some float64 near the decimal's value; no relation between the two is assumed
	// (DESIGN P5: no solver here is trustworthy on symbolic real->float); never NaN.
	inexact := func(ex *Exec, fr *frame, pos token.Pos, args []value) value {
		d := args[0].(structure)
		if n, ok := (*d[0].(*value)).(BigV); ok {
			if c, isC := n.t.ConstInt(); isC {
				if e, isE := d[1].(*smt.Term).ConstInt(); isE && e.IsInt64() && e.Int64() > -400 && e.Int64() < 400 {
					f, _ := new(big.Float).SetPrec(200).SetInt(c).Float64()
					if c.BitLen() < 60 {
						v, _ := strconv.ParseFloat(c.String()+"e"+e.String(), 64)
						f = v
					}
					return ex.fpConst(f)
				}
			}
		}
		r := ex.freshFP("decimal.InexactFloat64")
		ex.assume(ex.b.Not(ex.fpIsNaN(r)))
		return r
	}
	reg("("+dec+".Decimal).InexactFloat64", inexact)
	reg("("+dec+".Decimal).Float64", func(ex *Exec, fr *frame, pos token.Pos, args []value) value {
		return tuple{inexact(ex, fr, pos, args), ex.freshBool("decimal.Float64.exact")}
	})
	// NewFromFloat: panics on NaN/Inf (documented); the shortest-representation digits of a symbolic float are
	// not computed: the result is an arbitrary decimal (symbolic mantissa and exponent).
	reg(dec+".NewFromFloat", func(ex *Exec, fr *frame, pos token.Pos, args []value) value {
		f := args[0].(*smt.Term)
		if c, ok := fpConstVal(f); ok {
			if math.IsNaN(c) || math.IsInf(c, 0) {
				ex.oblige("panic", "decimal.NewFromFloat: cannot create a Decimal from NaN/Inf", fr, pos, ex.b.False)
			}
			s := strconv.FormatFloat(c, 'f', -1, 64)
			neg := strings.HasPrefix(s, "-")
			s = strings.TrimPrefix(s, "-")
			exp := 0
			if i := strings.IndexByte(s, '.'); i >= 0 {
				exp = -(len(s) - i - 1)
				s = s[:i] + s[i+1:]
			}
			n, _ := new(big.Int).SetString(s, 10)
			if neg {
				n.Neg(n)
			}
			return ex.mkDecimal(ex.b.Int(n), exp)
		}
		ex.oblige("panic", "decimal.NewFromFloat: cannot create a Decimal from NaN/Inf", fr, pos, ex.b.Not(ex.b.Or(ex.fpIsNaN(f), ex.fpIsInf(f))))
		ex.fpSeq++
		n := ex.b.Var(fmt.Sprintf("decimal.NewFromFloat.n!%d", ex.fpSeq), smt.SInt, nil, nil)
		e := ex.b.Var(fmt.Sprintf("decimal.NewFromFloat.exp!%d", ex.fpSeq), smt.SInt, big.NewInt(-400), big.NewInt(400))
		if ex.solver != nil {
			ex.solver.Declare(n)
			ex.solver.AssertRange(e)
		}
		return structure{ex.bigCell(n), e}
	})
	reg("math.Float64bits", func(ex *Exec, fr *frame, pos token.Pos, args []value) value {
		x := args[0].(*smt.Term)
		if c, ok := fpConstVal(x); ok {
			return ex.b.Int(bigFromU64(math.Float64bits(c)))
		}
		panic(ex.unsupported("math.Float64bits of a symbolic float"))
	})
}
