package symex

import (
	"go/token"
	"math"

	"gosmt/smt"
)

func init() {
	fp1 := func(head string, f func(float64) float64) modelFunc {
		return func(ex *Exec, fr *frame, pos token.Pos, args []value) value {
			x := args[0].(*smt.Term)
			if c, ok := fpConstVal(x); ok {
				return ex.fpConst(f(c))
			}
			return ex.fpRaw(smt.SFP, head, x)
		}
	}
	reg("math.Abs", fp1("fp.abs", math.Abs))
	reg("math.Ceil", fp1("fp.roundToIntegral RTP", math.Ceil))
	reg("math.Floor", fp1("fp.roundToIntegral RTN", math.Floor))
	reg("math.Trunc", fp1("fp.roundToIntegral RTZ", math.Trunc))
	reg("math.Sqrt", fp1("fp.sqrt RNE", math.Sqrt))
	reg("math.IsNaN", func(ex *Exec, fr *frame, pos token.Pos, args []value) value {
		return ex.fpIsNaN(args[0].(*smt.Term))
	})
	reg("math.IsInf", func(ex *Exec, fr *frame, pos token.Pos, args []value) value {
		x := args[0].(*smt.Term)
		sign := args[1].(*smt.Term)
		sc, ok := sign.ConstInt()
		if !ok {
			panic(ex.unsupported("math.IsInf with symbolic sign"))
		}
		inf := ex.fpIsInf(x)
		switch {
		case sc.Sign() > 0:
			return ex.b.And(inf, ex.fpRaw(smt.SBool, "fp.isPositive", x))
		case sc.Sign() < 0:
			return ex.b.And(inf, ex.fpRaw(smt.SBool, "fp.isNegative", x))
		}
		return inf
	})
	reg("math.NaN", func(ex *Exec, fr *frame, pos token.Pos, args []value) value { return ex.fpConst(math.NaN()) })
	reg("math.Inf", func(ex *Exec, fr *frame, pos token.Pos, args []value) value {
		sc, ok := args[0].(*smt.Term).ConstInt()
		if !ok {
			panic(ex.unsupported("math.Inf with symbolic sign"))
		}
		if sc.Sign() >= 0 {
			return ex.fpConst(math.Inf(1))
		}
		return ex.fpConst(math.Inf(-1))
	})
	// transcendental functions: an arbitrary float64 constrained only by the documented special cases
	reg("math.Log", func(ex *Exec, fr *frame, pos token.Pos, args []value) value {
		x := args[0].(*smt.Term)
		if c, ok := fpConstVal(x); ok {
			return ex.fpConst(math.Log(c))
		}
		r := ex.freshFP("math.Log")
		b := ex.b
		zero := ex.fpConst(0)
		isNaN := ex.fpIsNaN(x)
		neg := ex.fpRaw(smt.SBool, "fp.lt", x, zero)
		isZero := ex.fpRaw(smt.SBool, "fp.isZero", x)
		posInf := b.And(ex.fpIsInf(x), ex.fpRaw(smt.SBool, "fp.isPositive", x))
		// Log(+Inf)=+Inf, Log(0)=-Inf, Log(x<0)=NaN, Log(NaN)=NaN, otherwise finite
		ex.assume(b.Ite(b.Or(isNaN, neg), ex.fpIsNaN(r),
			b.Ite(isZero, b.And(ex.fpIsInf(r), ex.fpRaw(smt.SBool, "fp.isNegative", r)),
				b.Ite(posInf, b.And(ex.fpIsInf(r), ex.fpRaw(smt.SBool, "fp.isPositive", r)),
					b.And(b.Not(ex.fpIsNaN(r)), b.Not(ex.fpIsInf(r)))))))
		return r
	})
	reg("math.Pow", func(ex *Exec, fr *frame, pos token.Pos, args []value) value {
		x, y := args[0].(*smt.Term), args[1].(*smt.Term)
		cx, okx := fpConstVal(x)
		cy, oky := fpConstVal(y)
		if okx && oky {
			return ex.fpConst(math.Pow(cx, cy))
		}
		// unconstrained: may be any float64 including NaN and ±Inf
		return ex.freshFP("math.Pow")
	})
	reg("math.Float64bits", func(ex *Exec, fr *frame, pos token.Pos, args []value) value {
		x := args[0].(*smt.Term)
		if c, ok := fpConstVal(x); ok {
			return ex.b.Int(bigFromU64(math.Float64bits(c)))
		}
		panic(ex.unsupported("math.Float64bits of a symbolic float"))
	})
}
