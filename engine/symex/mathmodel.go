package symex

import (
	"fmt"
	"go/token"
	"math"
	"math/big"
	"strconv"
	"strings"

	"gosmt/smt"
)

func init() {
	fp1 := func(head string, f func(float64) float64) modelFunc {
		return func(ex *Exec, fr *frame, pos token.Pos, args []value) value {
			x := args[0].(*smt.Term)
			if c, ok := fpConstVal(x); ok {
				return ex.fpConst(f(c))
			}
			return ex.fpRaw(smt.SFP, head, x)
		}
	}
	fp1s := func(f func(float64) float64, g func(ex *Exec, x *smt.Term) *smt.Term) modelFunc {
		return func(ex *Exec, fr *frame, pos token.Pos, args []value) value {
			x := args[0].(*smt.Term)
			if c, ok := fpConstVal(x); ok {
				return ex.fpConst(f(c))
			}
			return g(ex, x)
		}
	}
	reg("math.Abs", fp1s(math.Abs, func(ex *Exec, x *smt.Term) *smt.Term { return ex.fpAbs(x) }))
	reg("math.Ceil", fp1s(math.Ceil, func(ex *Exec, x *smt.Term) *smt.Term { return ex.fpRound(x, 1) }))
	reg("math.Floor", fp1s(math.Floor, func(ex *Exec, x *smt.Term) *smt.Term { return ex.fpRound(x, -1) }))
	reg("math.Trunc", fp1s(math.Trunc, func(ex *Exec, x *smt.Term) *smt.Term { return ex.fpRound(x, 0) }))
	reg("math.Sqrt", fp1("fp.sqrt RNE", math.Sqrt))
	reg("math.IsNaN", func(ex *Exec, fr *frame, pos token.Pos, args []value) value {
		return ex.fpIsNaN(args[0].(*smt.Term))
	})
	reg("math.IsInf", func(ex *Exec, fr *frame, pos token.Pos, args []value) value {
		x := args[0].(*smt.Term)
		sign := args[1].(*smt.Term)
		sc, ok := sign.ConstInt()
		if !ok {
			panic(ex.unsupported("math.IsInf with symbolic sign"))
		}
		inf := ex.fpIsInf(x)
		switch {
		case sc.Sign() > 0:
			return ex.b.And(inf, ex.fpRaw(smt.SBool, "fp.isPositive", x))
		case sc.Sign() < 0:
			return ex.b.And(inf, ex.fpRaw(smt.SBool, "fp.isNegative", x))
		}
		return inf
	})
	reg("math.NaN", func(ex *Exec, fr *frame, pos token.Pos, args []value) value { return ex.fpConst(math.NaN()) })
	reg("math.Inf", func(ex *Exec, fr *frame, pos token.Pos, args []value) value {
		sc, ok := args[0].(*smt.Term).ConstInt()
		if !ok {
			panic(ex.unsupported("math.Inf with symbolic sign"))
		}
		if sc.Sign() >= 0 {
			return ex.fpConst(math.Inf(1))
		}
		return ex.fpConst(math.Inf(-1))
	})
	// transcendental functions: an arbitrary float64 constrained only by the documented special cases
	reg("math.Log", func(ex *Exec, fr *frame, pos token.Pos, args []value) value {
		x := args[0].(*smt.Term)
		if c, ok := fpConstVal(x); ok {
			return ex.fpConst(math.Log(c))
		}
		r := ex.freshFP("math.Log")
		b := ex.b
		zero := ex.fpConst(0)
		isNaN := ex.fpIsNaN(x)
		neg := ex.fpBinop(fr, pos, token.LSS, x, zero)
		isZero := ex.fpBinop(fr, pos, token.EQL, x, zero)
		posInf := b.And(ex.fpIsInf(x), ex.fpRaw(smt.SBool, "fp.isPositive", x))
		// Log(+Inf)=+Inf, Log(0)=-Inf, Log(x<0)=NaN, Log(NaN)=NaN, otherwise finite
		ex.assume(b.Ite(b.Or(isNaN, neg), ex.fpIsNaN(r),
			b.Ite(isZero, b.And(ex.fpIsInf(r), ex.fpRaw(smt.SBool, "fp.isNegative", r)),
				b.Ite(posInf, b.And(ex.fpIsInf(r), ex.fpRaw(smt.SBool, "fp.isPositive", r)),
					b.And(b.Not(ex.fpIsNaN(r)), b.Not(ex.fpIsInf(r)))))))
		return r
	})
	reg("math.Pow", func(ex *Exec, fr *frame, pos token.Pos, args []value) value {
		x, y := args[0].(*smt.Term), args[1].(*smt.Term)
		cx, okx := fpConstVal(x)
		cy, oky := fpConstVal(y)
		if okx && oky {
			return ex.fpConst(math.Pow(cx, cy))
		}
		// unconstrained: may be any float64 including NaN and ±Inf
		return ex.freshFP("math.Pow")
	})
	const dec = "github.com/shopspring/decimal"
	// InexactFloat64: some float64 near the decimal's value; no relation between the two is assumed
	// (DESIGN P5: no solver here is trustworthy on symbolic real->float); never NaN.
	inexact := func(ex *Exec, fr *frame, pos token.Pos, args []value) value {
		d := args[0].(structure)
		if n, ok := (*d[0].(*value)).(BigV); ok {
			if c, isC := n.t.ConstInt(); isC {
				if e, isE := d[1].(*smt.Term).ConstInt(); isE && e.IsInt64() && e.Int64() > -400 && e.Int64() < 400 {
					f, _ := new(big.Float).SetPrec(200).SetInt(c).Float64()
					if c.BitLen() < 60 {
						v, _ := strconv.ParseFloat(c.String()+"e"+e.String(), 64)
						f = v
					}
					return ex.fpConst(f)
				}
			}
		}
		if ex.exactFloat {
			if r := ex.exactDecimalFloat(d); r != nil {
				return r
			}
		}
		r := ex.freshFP("decimal.InexactFloat64")
		ex.assume(ex.b.Not(ex.fpIsNaN(r)))
		return r
	}
	reg("("+dec+".Decimal).InexactFloat64", inexact)
	reg("("+dec+".Decimal).Float64", func(ex *Exec, fr *frame, pos token.Pos, args []value) value {
		return tuple{inexact(ex, fr, pos, args), ex.freshBool("decimal.Float64.exact")}
	})
	// NewFromFloat: panics on NaN/Inf (documented); the shortest-representation digits of a symbolic float are
	// not computed: the result is an arbitrary decimal (symbolic mantissa and exponent).
	reg(dec+".NewFromFloat", func(ex *Exec, fr *frame, pos token.Pos, args []value) value {
		f := args[0].(*smt.Term)
		if c, ok := fpConstVal(f); ok {
			if math.IsNaN(c) || math.IsInf(c, 0) {
				ex.oblige("panic", "decimal.NewFromFloat: cannot create a Decimal from NaN/Inf", fr, pos, ex.b.False)
			}
			s := strconv.FormatFloat(c, 'f', -1, 64)
			neg := strings.HasPrefix(s, "-")
			s = strings.TrimPrefix(s, "-")
			exp := 0
			if i := strings.IndexByte(s, '.'); i >= 0 {
				exp = -(len(s) - i - 1)
				s = s[:i] + s[i+1:]
			}
			n, _ := new(big.Int).SetString(s, 10)
			if neg {
				n.Neg(n)
			}
			return ex.mkDecimal(ex.b.Int(n), exp)
		}
		ex.oblige("panic", "decimal.NewFromFloat: cannot create a Decimal from NaN/Inf", fr, pos, ex.b.Not(ex.b.Or(ex.fpIsNaN(f), ex.fpIsInf(f))))
		ex.fpSeq++
		n := ex.b.Var(fmt.Sprintf("decimal.NewFromFloat.n!%d", ex.fpSeq), smt.SInt, nil, nil)
		e := ex.b.Var(fmt.Sprintf("decimal.NewFromFloat.exp!%d", ex.fpSeq), smt.SInt, big.NewInt(-400), big.NewInt(400))
		if ex.solver != nil {
			ex.solver.Declare(n)
			ex.solver.AssertRange(e)
		}
		return structure{ex.bigCell(n), e}
	})
	reg("math.Float64bits", func(ex *Exec, fr *frame, pos token.Pos, args []value) value {
		x := args[0].(*smt.Term)
		if c, ok := fpConstVal(x); ok {
			return ex.b.Int(bigFromU64(math.Float64bits(c)))
		}
		panic(ex.unsupported("math.Float64bits of a symbolic float"))
	})
}

// exactDecimalFloat is the correctly rounded (nearest-even) float64 of the decimal n*10^exp for a symbolic
// coefficient n with known bounds and a concrete exponent: big.Rat.Float64, which decimal.InexactFloat64 calls.
// The sign and the binade e (2^e <= |x| < 2^(e+1)) are decided by forking (binary search with linear tests), the
// 53-bit significand m is an Int constrained by 2*|num - m*den| <= den with ties to even, and the float is
// assembled from its fields. nil when the value may leave the normal range or the bounds are unknown.
func (ex *Exec) exactDecimalFloat(d structure) *smt.Term {
	b := ex.b
	bn, ok := (*d[0].(*value)).(BigV)
	if !ok {
		return nil
	}
	n := bn.t
	ec, isE := d[1].(*smt.Term).ConstInt()
	if !isE || !ec.IsInt64() || ec.Int64() < -60 || ec.Int64() > 60 || n.Lo == nil || n.Hi == nil {
		return nil
	}
	exp := int(ec.Int64())
	amax := new(big.Int).Abs(n.Lo)
	if h := new(big.Int).Abs(n.Hi); h.Cmp(amax) > 0 {
		amax = h
	}
	if amax.BitLen() > 400 {
		return nil
	}
	sgn := ex.decide("float-sign", []*smt.Term{b.Lt(n, ex.k(0)), b.Eq(n, ex.k(0)), b.Lt(ex.k(0), n)})
	if sgn == 1 {
		return ex.fpConst(0)
	}
	a := n
	if sgn == 0 {
		a = b.Neg(n)
	}
	// |x| = a*pn/q
	pn, q := big.NewInt(1), big.NewInt(1)
	ten := big.NewInt(10)
	if exp >= 0 {
		pn.Exp(ten, big.NewInt(int64(exp)), nil)
	} else {
		q.Exp(ten, big.NewInt(int64(-exp)), nil)
	}
	// geq(k): |x| >= 2^k
	geq := func(k int) *smt.Term {
		l, r := new(big.Int).Set(pn), new(big.Int).Set(q)
		if k >= 0 {
			r.Lsh(r, uint(k))
		} else {
			l.Lsh(l, uint(-k))
		}
		return b.Ge(b.Mul(a, b.Int(l)), b.Int(r))
	}
	// binade range from the bounds: a in [1, amax]
	log2floor := func(num, den *big.Int) int { // floor(log2(num/den))
		k := num.BitLen() - den.BitLen()
		l, r := new(big.Int).Set(num), new(big.Int).Set(den)
		if k >= 0 {
			r.Lsh(r, uint(k))
		} else {
			l.Lsh(l, uint(-k))
		}
		if l.Cmp(r) < 0 {
			k--
		}
		return k
	}
	lo := log2floor(pn, q)
	hi := log2floor(new(big.Int).Mul(amax, pn), q)
	for lo < hi {
		mid := (lo + hi + 1) / 2
		if ex.branch("float-binade", geq(mid)) {
			lo = mid
		} else {
			hi = mid - 1
		}
	}
	e := lo
	if e < -1000 || e > 1000 {
		return nil
	}
	// m = RNE(a*pn*2^(52-e)/q)
	num, den := new(big.Int).Set(pn), new(big.Int).Set(q)
	if 52-e >= 0 {
		num.Lsh(num, uint(52-e))
	} else {
		den.Lsh(den, uint(e-52))
	}
	ex.fpSeq++
	m := b.Var(fmt.Sprintf("decimal.InexactFloat64.m!%d", ex.fpSeq), smt.SInt, smt.Pow2(52), smt.Pow2(53))
	if ex.solver != nil {
		ex.solver.Declare(m)
		ex.solver.AssertRange(m)
	}
	num2 := b.Mul(a, b.Int(new(big.Int).Lsh(num, 1))) // 2*a*num
	md2 := b.Mul(m, b.Int(new(big.Int).Lsh(den, 1)))  // 2*m*den
	dt := b.Int(den)
	ex.assume(b.Le(b.Sub(num2, dt), md2))
	ex.assume(b.Le(md2, b.Add(num2, dt)))
	tie := b.Or(b.Eq(md2, b.Add(num2, dt)), b.Eq(md2, b.Sub(num2, dt)))
	ex.assume(b.Implies(tie, b.Eq(b.Mod(m, ex.k(2)), ex.k(0))))
	carry := b.Eq(m, b.Int(smt.Pow2(53)))
	be := b.Ite(carry, ex.k(int64(e+1+1023)), ex.k(int64(e+1023)))
	mant := b.Ite(carry, ex.k(0), b.Sub(m, b.Int(smt.Pow2(52))))
	r := b.Raw(smt.SFP, "fpparts", b.Bool(sgn == 0), be, mant)
	// value = ±m * 2^(e-52)
	sm := m
	if sgn == 0 {
		sm = b.Neg(m)
	}
	if e-52 >= 0 {
		return ex.setShadow(r, fpShadow{b.Mul(sm, b.Int(smt.Pow2(uint(e-52)))), 0})
	}
	return ex.setShadow(r, fpShadow{sm, uint(52 - e)})
}
