package symex

import (
	"strconv"
	"sort"
	"fmt"
	"go/token"
	"go/types"
	"reflect"
	"strings"

	"gosmt/smt"
)

// A minimal model of protoreflect *descriptor* queries on generated message structs.
// The facts come from the generated Go code itself (struct field types and their
// `protobuf:"..."` / `protobuf_oneof:"..."` tags), i.e. from what protoc-gen-go derived from
// the descriptor. Message *content* queries (Get/Has/Set/Range/...) are not modelled,
// except WhichOneof on a nil oneof field.

type protoMsgV struct {
	ptr *value       // the message struct cell (may be nil pointer)
	st  *types.Named // generated struct type
}
type protoDescV struct{ st *types.Named }
type protoFieldsV struct{ st *types.Named }
type protoOneofsV struct{ st *types.Named }
type protoFieldV struct {
	st     *types.Named
	idx    int
	holder *value // set for the member of a populated oneof: the wrapper struct cell
}

// protoListV is a protoreflect.List over a repeated message field.
type protoListV struct {
	items []value
	elem  types.Type
}

// protoValueV is a protoreflect.Value holding a message member.
type protoValueV struct {
	v value
	t types.Type
}
type protoOneofV struct {
	st  *types.Named
	idx int
}

var (
	pmMsgT    = &fakeType{name: "gosmt.protoMessage", methods: map[string]bool{"Descriptor": true, "WhichOneof": true, "Interface": true, "Get": true, "IsValid": true, "Has": true}}
	pmDescT   = &fakeType{name: "gosmt.protoMessageDescriptor", methods: map[string]bool{"Name": true, "FullName": true, "Fields": true, "Oneofs": true, "Parent": true}}
	// the parent of a top-level message: a file descriptor, which is not a message descriptor
	pmFileT = &fakeType{name: "gosmt.protoFileDescriptor", methods: map[string]bool{"Path": true}}
	pmFieldsT = &fakeType{name: "gosmt.protoFieldDescriptors", methods: map[string]bool{"ByName": true, "ByJSONName": true, "Len": true, "Get": true}}
	pmOneofsT = &fakeType{name: "gosmt.protoOneofDescriptors", methods: map[string]bool{"ByName": true, "Len": true, "Get": true}}
	pmFieldT  = &fakeType{name: "gosmt.protoFieldDescriptor", methods: map[string]bool{"Kind": true, "IsList": true, "Name": true, "JSONName": true}}
	pmOneofT  = &fakeType{name: "gosmt.protoOneofDescriptor", methods: map[string]bool{"Name": true}}
	pmValueT  = &fakeType{name: "gosmt.protoValue", methods: map[string]bool{"Message": true}}
	pmListT   = &fakeType{name: "gosmt.protoList", methods: map[string]bool{"Len": true, "Get": true}}
)

// protoreflect.Value is a struct in the real library, so its methods are static calls: the model's Get returns a
// protoValueV and Message unpacks it.
func init() {
	reg("(google.golang.org/protobuf/reflect/protoreflect.Value).Message", func(ex *Exec, fr *frame, pos token.Pos, args []value) value {
		it, ok := args[0].(iface)
		if !ok || it.t != pmValueT {
			panic(ex.unsupported("protoreflect Value.Message on a value the model did not produce"))
		}
		pv := it.v.(protoValueV)
		st := protoStructOf(pv.t)
		p, _ := pv.v.(*value)
		if st == nil {
			panic(ex.unsupported("protoreflect Value.Message on a non-message member"))
		}
		return iface{pmMsgT, protoMsgV{ptr: p, st: st}}
	})
}

func init() {
	reg("(google.golang.org/protobuf/reflect/protoreflect.Value).List", func(ex *Exec, fr *frame, pos token.Pos, args []value) value {
		it, ok := args[0].(iface)
		if !ok || it.t != pmValueT {
			panic(ex.unsupported("protoreflect Value.List on a value the model did not produce"))
		}
		pv := it.v.(protoValueV)
		sl, ok := pv.t.Underlying().(*types.Slice)
		if !ok {
			panic(ex.unsupported("protoreflect Value.List on a non-repeated member"))
		}
		items, _ := pv.v.([]value)
		return iface{pmListT, protoListV{items: items, elem: sl.Elem()}}
	})
}

// fake proto types implement every interface asked of them (the real ones are large interfaces).
func init() {
	for _, ft := range []*fakeType{pmMsgT, pmDescT, pmFieldsT, pmOneofsT, pmFieldT, pmOneofT, pmValueT, pmListT} {
		ft.anyIface = true
	}
}

// isOneofWrapperOf: w is the generated wrapper type <Msg>_<Member> of a oneof member of message type msg.
func isOneofWrapperOf(w, msg *types.Named) bool {
	if w == nil || msg == nil || w.Obj().Pkg() != msg.Obj().Pkg() || !strings.HasPrefix(w.Obj().Name(), msg.Obj().Name()+"_") {
		return false
	}
	ws, ok := w.Underlying().(*types.Struct)
	return ok && ws.NumFields() == 1 && strings.Contains(ws.Tag(0), ",oneof")
}

func protoStructOf(t types.Type) *types.Named {
	if p, ok := t.(*types.Pointer); ok {
		t = p.Elem()
	}
	n, ok := t.(*types.Named)
	if !ok {
		return nil
	}
	if _, ok := n.Underlying().(*types.Struct); !ok {
		return nil
	}
	return n
}

// descriptor name of a generated message: the part after the last '_' of the Go name
// (nested messages are Outer_Inner in Go, Inner in the descriptor).
func protoDescName(n *types.Named) string {
	name := n.Obj().Name()
	if i := strings.LastIndex(name, "_"); i >= 0 {
		return name[i+1:]
	}
	return name
}

type protoFieldInfo struct {
	name, json string
	kind       int64
	list       bool
	oneof      string
	number     int // proto field number (0 for a oneof slot)
}

// jsonName: the json= of the tag, or, when the tag has none, the lowerCamel form of the proto name (protoc's default).
func (fi protoFieldInfo) jsonName() string {
	if fi.json != "" {
		return fi.json
	}
	out := make([]byte, 0, len(fi.name))
	up := false
	for i := 0; i < len(fi.name); i++ {
		ch := fi.name[i]
		if ch == '_' {
			up = true
			continue
		}
		if up && ch >= 'a' && ch <= 'z' {
			ch -= 32
		}
		up = false
		out = append(out, ch)
	}
	return string(out)
}

func protoFieldsOf(n *types.Named) []protoFieldInfo {
	st := n.Underlying().(*types.Struct)
	var out []protoFieldInfo
	for i := 0; i < st.NumFields(); i++ {
		tag := reflect.StructTag(st.Tag(i))
		if on := tag.Get("protobuf_oneof"); on != "" {
			out = append(out, protoFieldInfo{oneof: on, kind: -1})
			continue
		}
		pb := tag.Get("protobuf")
		if pb == "" {
			out = append(out, protoFieldInfo{kind: -2})
			continue
		}
		parts := strings.Split(pb, ",")
		fi := protoFieldInfo{}
		if len(parts) > 1 {
			fi.number, _ = strconv.Atoi(parts[1])
		}
		isEnum := false
		for _, p := range parts {
			switch {
			case strings.HasPrefix(p, "name="):
				fi.name = strings.TrimPrefix(p, "name=")
			case strings.HasPrefix(p, "json="):
				fi.json = strings.TrimPrefix(p, "json=")
			case strings.HasPrefix(p, "enum="):
				isEnum = true
			case p == "rep":
				fi.list = true
			}
		}
		ft := st.Field(i).Type()
		if sl, ok := ft.Underlying().(*types.Slice); ok && fi.list {
			ft = sl.Elem()
		}
		switch parts[0] {
		case "bytes":
			switch u := ft.Underlying().(type) {
			case *types.Basic:
				fi.kind = 9 // string
			case *types.Slice:
				_ = u
				fi.kind = 12 // bytes
			default:
				fi.kind = 11 // message
			}
		case "varint":
			fi.kind = 5
			if isEnum {
				fi.kind = 14
			} else if b, ok := ft.Underlying().(*types.Basic); ok {
				switch b.Kind() {
				case types.Bool:
					fi.kind = 8
				case types.Int64:
					fi.kind = 3
				case types.Uint32:
					fi.kind = 13
				case types.Uint64:
					fi.kind = 4
				}
			}
		case "fixed64":
			fi.kind = 1
		case "fixed32":
			fi.kind = 2
		case "zigzag32":
			fi.kind = 17
		case "zigzag64":
			fi.kind = 18
		default:
			fi.kind = 11
		}
		out = append(out, fi)
	}
	return out
}

func (ex *Exec) protoMethod(recv iface, name string) *modelClosure {
	mk := func(f func(ex *Exec, fr *frame, pos token.Pos, args []value) value) *modelClosure {
		return &modelClosure{name: "protomodel." + name, f: func(ex *Exec, caller *frame, pos token.Pos, args []value) value {
			ex.Models["protoreflect(model)."+name]++
			return f(ex, caller, pos, args)
		}}
	}
	switch recv.t {
	case pmMsgT:
		m := recv.v.(protoMsgV)
		switch name {
		case "Descriptor":
			return mk(func(ex *Exec, fr *frame, pos token.Pos, args []value) value { return iface{pmDescT, protoDescV{m.st}} })
		case "WhichOneof":
			return mk(func(ex *Exec, fr *frame, pos token.Pos, args []value) value {
				od, ok := args[1].(iface)
				if !ok || od.t != pmOneofT {
					panic(ex.unsupported("protoreflect WhichOneof on non-model descriptor"))
				}
				o := od.v.(protoOneofV)
				if m.ptr == nil {
					return iface{}
				}
				fv := (*m.ptr).(structure)[o.idx]
				if it, ok := fv.(iface); ok && it.t == nil {
					return iface{}
				}
				// a populated oneof holds a pointer to a generated wrapper struct with one field, whose tag names the member
				if it, ok := fv.(iface); ok {
					if w := protoStructOf(it.t); w != nil && len(protoFieldsOf(w)) == 1 {
						if wp, ok := it.v.(*value); ok && wp != nil {
							return iface{pmFieldT, protoFieldV{st: w, idx: 0, holder: wp}}
						}
						return iface{} // a typed nil wrapper: not set
					}
				}
				panic(ex.unsupported("protoreflect WhichOneof on a populated oneof of an unexpected shape"))
			})
		case "Get":
			return mk(func(ex *Exec, fr *frame, pos token.Pos, args []value) value {
				fd, ok := args[1].(iface)
				if !ok || fd.t != pmFieldT {
					panic(ex.unsupported("protoreflect Get with a non-model field descriptor"))
				}
				f := fd.v.(protoFieldV)
				if f.holder == nil && f.st != m.st && isOneofWrapperOf(f.st, m.st) {
					// a oneof member named by its descriptor (Fields().ByName/ByJSONName): its value when the oneof holds this
					// member, the default (a nil message) otherwise
					wst := f.st.Underlying().(*types.Struct)
					if m.ptr != nil {
						for _, cell := range (*m.ptr).(structure) {
							if it, ok := cell.(iface); ok && it.t != nil && protoStructOf(it.t) == f.st {
								if wp, ok := it.v.(*value); ok && wp != nil {
									return iface{pmValueT, protoValueV{v: (*wp).(structure)[0], t: wst.Field(0).Type()}}
								}
							}
						}
					}
					return iface{pmValueT, protoValueV{v: ex.zero(wst.Field(0).Type()), t: wst.Field(0).Type()}}
				}
				if f.holder == nil {
					// an ordinary field of this message: the struct cell itself (message pointer or slice of them)
					if f.st != m.st {
						// the real library panics ("mismatching field: got X, want Y") when a message is read with the
						// field descriptor of another message type
						ex.oblige("panic", "protoreflect: Get with the field descriptor of another message type ("+f.st.Obj().Name()+" on "+m.st.Obj().Name()+")", fr, pos, ex.b.False)
						panic(ex.unsupported("protoreflect Get of a field of another message"))
					}
					mst := m.st.Underlying().(*types.Struct)
					if m.ptr == nil {
						// a nil message reads as the empty one: the default of the field (nil message, empty list, zero)
						return iface{pmValueT, protoValueV{v: ex.zero(mst.Field(f.idx).Type()), t: mst.Field(f.idx).Type()}}
					}
					return iface{pmValueT, protoValueV{v: (*m.ptr).(structure)[f.idx], t: mst.Field(f.idx).Type()}}
				}
				// the member of a oneof: the single field of the wrapper struct
				wst := f.st.Underlying().(*types.Struct)
				return iface{pmValueT, protoValueV{v: (*f.holder).(structure)[0], t: wst.Field(0).Type()}}
			})
		case "Interface":
			return mk(func(ex *Exec, fr *frame, pos token.Pos, args []value) value {
				return iface{types.NewPointer(m.st), m.ptr}
			})
		case "IsValid":
			return mk(func(ex *Exec, fr *frame, pos token.Pos, args []value) value { return ex.b.Bool(m.ptr != nil) })
		case "Has":
			// proto3 presence: a message field is set when its pointer is, a repeated field when it has items, a
			// oneof member when the oneof holds its wrapper, a scalar when it is not the zero value
			return mk(func(ex *Exec, fr *frame, pos token.Pos, args []value) value {
				fd, ok := args[1].(iface)
				if !ok || fd.t != pmFieldT {
					panic(ex.unsupported("protoreflect Has with a non-model field descriptor"))
				}
				f := fd.v.(protoFieldV)
				if f.holder != nil {
					return ex.b.True // obtained from WhichOneof on a populated oneof
				}
				if m.ptr == nil {
					return ex.b.False
				}
				if f.st != m.st {
					panic(ex.unsupported("protoreflect Has of a field of another message"))
				}
				switch v := (*m.ptr).(structure)[f.idx].(type) {
				case *value:
					return ex.b.Bool(v != nil)
				case []value:
					return ex.b.Bool(len(v) > 0)
				case *smt.Term:
					if v.Sort == smt.SBool {
						return v
					}
					if v.Sort == smt.SInt {
						return ex.b.Ne(v, ex.k(0))
					}
				case *Str:
					if !v.opaque {
						return ex.b.Bool(len(v.b) > 0)
					}
				}
				panic(ex.unsupported("protoreflect Has on this kind of field"))
			})
		}
	case pmDescT:
		d := recv.v.(protoDescV)
		switch name {
		case "Name":
			return mk(func(ex *Exec, fr *frame, pos token.Pos, args []value) value { return ex.strConst(protoDescName(d.st)) })
		case "FullName":
			// google.fhir.r4.core.<Outer>.<Inner>: the generated Go name with '_' for '.'
			return mk(func(ex *Exec, fr *frame, pos token.Pos, args []value) value {
				return ex.strConst("google.fhir.r4.core." + strings.ReplaceAll(d.st.Obj().Name(), "_", "."))
			})
		case "Parent":
			// a generated Go type Outer_Inner is the message Inner declared inside Outer
			return mk(func(ex *Exec, fr *frame, pos token.Pos, args []value) value {
				name := d.st.Obj().Name()
				if i := strings.LastIndex(name, "_"); i >= 0 {
					if o, ok := d.st.Obj().Pkg().Scope().Lookup(name[:i]).(*types.TypeName); ok {
						if pn, ok := o.Type().(*types.Named); ok {
							return iface{pmDescT, protoDescV{pn}}
						}
					}
					panic(ex.unsupported("protoreflect Parent of " + name))
				}
				return iface{pmFileT, nil}
			})
		case "Fields":
			return mk(func(ex *Exec, fr *frame, pos token.Pos, args []value) value { return iface{pmFieldsT, protoFieldsV{d.st}} })
		case "Oneofs":
			return mk(func(ex *Exec, fr *frame, pos token.Pos, args []value) value { return iface{pmOneofsT, protoOneofsV{d.st}} })
		}
	case pmFieldsT:
		d := recv.v.(protoFieldsV)
		if name == "Len" || name == "Get" {
			// the declared fields in order; a message with a oneof also lists its members, which live on wrapper types
			type entry struct {
				f      protoFieldV
				number int
			}
			var all []entry
			hasOneof := false
			for i, fi := range protoFieldsOf(d.st) {
				if fi.kind == -1 {
					hasOneof = true
					// the members of the oneof: the single field of each wrapper type <Msg>_<Member> of the package
					scope := d.st.Obj().Pkg().Scope()
					prefix := d.st.Obj().Name() + "_"
					for _, n := range scope.Names() {
						if !strings.HasPrefix(n, prefix) {
							continue
						}
						tn, ok := scope.Lookup(n).(*types.TypeName)
						if !ok {
							continue
						}
						w, ok := tn.Type().(*types.Named)
						if !ok || !isOneofWrapperOf(w, d.st) {
							continue
						}
						if ws, ok := w.Underlying().(*types.Struct); !ok || ws.NumFields() != 1 || !strings.Contains(ws.Tag(0), ",oneof") {
							continue
						}
						all = append(all, entry{protoFieldV{st: w, idx: 0}, protoFieldsOf(w)[0].number})
					}
					continue
				}
				if fi.kind >= 0 {
					all = append(all, entry{protoFieldV{st: d.st, idx: i}, fi.number})
				}
			}
			if hasOneof {
				// descriptor order is declaration order; the FHIR protos number their fields in that order
				sort.SliceStable(all, func(i, j int) bool { return all[i].number < all[j].number })
			}
			if name == "Len" {
				return mk(func(ex *Exec, fr *frame, pos token.Pos, args []value) value { return ex.k(int64(len(all))) })
			}
			return mk(func(ex *Exec, fr *frame, pos token.Pos, args []value) value {
				i, ok := args[1].(*smt.Term).ConstInt()
				if !ok || !i.IsInt64() || i.Int64() < 0 || i.Int64() >= int64(len(all)) {
					panic(ex.unsupported("protoreflect Fields().Get with a symbolic or out-of-range index"))
				}
				return iface{pmFieldT, all[i.Int64()].f}
			})
		}
		if name == "ByName" || name == "ByJSONName" {
			byJSON := name == "ByJSONName"
			return mk(func(ex *Exec, fr *frame, pos token.Pos, args []value) value {
				want := ex.wantConcrete(args[1], "protoreflect Fields()."+name)
				for i, fi := range protoFieldsOf(d.st) {
					if fi.kind >= 0 && (!byJSON && fi.name == want || byJSON && fi.jsonName() == want) {
						return iface{pmFieldT, protoFieldV{st: d.st, idx: i}}
					}
				}
				// members of a oneof are fields of the message too, declared on the wrapper types <Msg>_<Member>
				// of the same package: a name that none of them carries is not a field
				for _, fi := range protoFieldsOf(d.st) {
					if fi.kind != -1 {
						continue
					}
					scope := d.st.Obj().Pkg().Scope()
					prefix := d.st.Obj().Name() + "_"
					for _, n := range scope.Names() {
						if !strings.HasPrefix(n, prefix) {
							continue
						}
						tn, ok := scope.Lookup(n).(*types.TypeName)
						if !ok {
							continue
						}
						w, ok := tn.Type().(*types.Named)
						if !ok {
							continue
						}
						if ws, ok := w.Underlying().(*types.Struct); !ok || ws.NumFields() != 1 || !strings.Contains(ws.Tag(0), ",oneof") {
							continue
						}
						if wf := protoFieldsOf(w)[0]; !byJSON && wf.name == want || byJSON && wf.jsonName() == want {
							// the descriptor of a oneof member: the field of its wrapper type, not tied to a message
							return iface{pmFieldT, protoFieldV{st: w, idx: 0}}
						}
					}
				}
				return iface{}
			})
		}
	case pmOneofsT:
		d := recv.v.(protoOneofsV)
		switch name {
		case "ByName":
			return mk(func(ex *Exec, fr *frame, pos token.Pos, args []value) value {
				want := ex.wantConcrete(args[1], "protoreflect Oneofs().ByName")
				for i, fi := range protoFieldsOf(d.st) {
					if fi.kind == -1 && fi.oneof == want {
						return iface{pmOneofT, protoOneofV{d.st, i}}
					}
				}
				return iface{}
			})
		case "Len":
			return mk(func(ex *Exec, fr *frame, pos token.Pos, args []value) value {
				n := int64(0)
				for _, fi := range protoFieldsOf(d.st) {
					if fi.kind == -1 {
						n++
					}
				}
				return ex.k(n)
			})
		case "Get":
			return mk(func(ex *Exec, fr *frame, pos token.Pos, args []value) value {
				want, ok := args[1].(*smt.Term).ConstInt()
				if !ok {
					panic(ex.unsupported("protoreflect Oneofs().Get with a symbolic index"))
				}
				n := int64(0)
				for i, fi := range protoFieldsOf(d.st) {
					if fi.kind == -1 {
						if n == want.Int64() {
							return iface{pmOneofT, protoOneofV{d.st, i}}
						}
						n++
					}
				}
				ex.oblige("panic", "protoreflect Oneofs().Get: index out of range", fr, pos, ex.b.False)
				return iface{}
			})
		}
	case pmFieldT:
		f := recv.v.(protoFieldV)
		fi := protoFieldsOf(f.st)[f.idx]
		switch name {
		case "Kind":
			return mk(func(ex *Exec, fr *frame, pos token.Pos, args []value) value { return ex.k(fi.kind) })
		case "IsList":
			return mk(func(ex *Exec, fr *frame, pos token.Pos, args []value) value { return ex.b.Bool(fi.list) })
		case "Name":
			return mk(func(ex *Exec, fr *frame, pos token.Pos, args []value) value { return ex.strConst(fi.name) })
		case "JSONName":
			return mk(func(ex *Exec, fr *frame, pos token.Pos, args []value) value { return ex.strConst(fi.jsonName()) })
		}
	case pmListT:
		l := recv.v.(protoListV)
		switch name {
		case "Len":
			return mk(func(ex *Exec, fr *frame, pos token.Pos, args []value) value { return ex.k(int64(len(l.items))) })
		case "Get":
			return mk(func(ex *Exec, fr *frame, pos token.Pos, args []value) value {
				i, ok := args[1].(*smt.Term).ConstInt()
				if !ok || !i.IsInt64() || i.Int64() < 0 || i.Int64() >= int64(len(l.items)) {
					panic(ex.unsupported("protoreflect List.Get with a symbolic or out-of-range index"))
				}
				return iface{pmValueT, protoValueV{v: l.items[i.Int64()], t: l.elem}}
			})
		}
	case pmValueT:
		pv := recv.v.(protoValueV)
		if name == "Message" {
			return mk(func(ex *Exec, fr *frame, pos token.Pos, args []value) value {
				st := protoStructOf(pv.t)
				p, _ := pv.v.(*value)
				if st == nil {
					panic(ex.unsupported("protoreflect Value.Message on a non-message member"))
				}
				return iface{pmMsgT, protoMsgV{ptr: p, st: st}}
			})
		}
	case pmOneofT:
		o := recv.v.(protoOneofV)
		if name == "Name" {
			return mk(func(ex *Exec, fr *frame, pos token.Pos, args []value) value {
				return ex.strConst(protoFieldsOf(o.st)[o.idx].oneof)
			})
		}
	}
	return nil
}

// protoReflectCall models (*T).ProtoReflect() for generated message types.
func (ex *Exec) protoReflectCall(recvT types.Type, recv value) value {
	st := protoStructOf(recvT)
	if st == nil {
		panic(ex.unsupported("ProtoReflect on " + typeName(recvT)))
	}
	p, _ := recv.(*value)
	return iface{pmMsgT, protoMsgV{ptr: p, st: st}}
}

// protoEqual models proto.Equal on harness-built messages: deep equality of the exported fields
// (faithful when no unknown fields or reflection-only extensions are present).
func (ex *Exec) protoEqual(a, b value) *smt.Term {
	ai, aok := a.(iface)
	bi, bok := b.(iface)
	if !aok || !bok {
		panic(ex.unsupported("proto.Equal on non-interface values"))
	}
	if ai.t == nil || bi.t == nil {
		return ex.b.Bool(ai.t == nil && bi.t == nil)
	}
	if !typesIdentical(ai.t, bi.t) {
		return ex.b.False
	}
	return ex.protoEqualVal(ai.t, ai.v, bi.v, 0)
}

func (ex *Exec) protoEqualVal(t types.Type, a, b value, depth int) *smt.Term {
	if depth > 12 {
		panic(ex.unsupported("proto.Equal: nesting too deep"))
	}
	bld := ex.b
	switch u := t.Underlying().(type) {
	case *types.Pointer:
		pa, _ := a.(*value)
		pb, _ := b.(*value)
		if pa == nil || pb == nil {
			// proto.Equal treats a nil message as unequal to a non-nil one (even if empty)
			return bld.Bool(pa == nil && pb == nil)
		}
		st, ok := u.Elem().Underlying().(*types.Struct)
		if !ok {
			panic(ex.unsupported("proto.Equal on pointer to non-struct"))
		}
		sa, sb := (*pa).(structure), (*pb).(structure)
		var cs []*smt.Term
		for i := 0; i < st.NumFields(); i++ {
			f := st.Field(i)
			if !f.Exported() {
				continue // state, sizeCache, unknownFields
			}
			cs = append(cs, ex.protoEqualVal(f.Type(), sa[i], sb[i], depth+1))
		}
		return bld.And(cs...)
	case *types.Slice:
		la, _ := a.([]value)
		lb, _ := b.([]value)
		if len(la) != len(lb) {
			return bld.False
		}
		var cs []*smt.Term
		for i := range la {
			cs = append(cs, ex.protoEqualVal(u.Elem(), la[i], lb[i], depth+1))
		}
		return bld.And(cs...)
	case *types.Interface: // oneof wrapper
		ia, ib := a.(iface), b.(iface)
		if ia.t == nil || ib.t == nil {
			return bld.Bool(ia.t == nil && ib.t == nil)
		}
		if !typesIdentical(ia.t, ib.t) {
			return bld.False
		}
		return ex.protoEqualVal(ia.t, ia.v, ib.v, depth+1)
	case *types.Basic:
		return ex.eqVal(t, a, b)
	}
	panic(ex.unsupported(fmt.Sprintf("proto.Equal on field of type %s", t)))
}

func init() {
	reg("google.golang.org/protobuf/proto.Equal", func(ex *Exec, fr *frame, pos token.Pos, args []value) value {
		return ex.protoEqual(args[0], args[1])
	})
}
