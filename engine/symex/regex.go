package symex

import (
	"go/token"
	"regexp"
	"regexp/syntax"
	"unicode"

	"gosmt/smt"
)

// RegexV models *regexp.Regexp: the pattern is compiled with the real regexp/syntax package
// and executed by a backtracking matcher (leftmost-first, like Go's) in which every question
// about a symbolic rune is a fork. On each path the search is therefore deterministic and
// yields concrete capture positions.
type RegexV struct {
	pattern string
	prog    *syntax.Prog
	re      *syntax.Regexp
	names   []string
	ncap    int
}

func compileRegex(pat string) (*RegexV, error) {
	re, err := syntax.Parse(pat, syntax.Perl)
	if err != nil {
		return nil, err
	}
	ncap := re.MaxCap()
	names := re.CapNames()
	re = re.Simplify()
	prog, err := syntax.Compile(re)
	if err != nil {
		return nil, err
	}
	return &RegexV{pattern: pat, prog: prog, re: re, names: names, ncap: ncap}, nil
}

type runeAt struct {
	r   *smt.Term
	pos int // byte offset
}

// decodeAll splits s into runes (forking on UTF-8 widths).
func (ex *Exec) decodeAll(s *Str) []runeAt {
	ex.needBytes(s)
	var out []runeAt
	for i := 0; i < len(s.b); {
		r, sz := ex.decodeRune(s, i)
		out = append(out, runeAt{r, i})
		i += sz
	}
	return out
}

type reMatcher struct {
	ex      *Exec
	rx      *RegexV
	runes   []runeAt
	n       int // total bytes
	visited map[[2]int]bool
	cap     []int
	steps   int
}

func (m *reMatcher) bytePos(i int) int {
	if i < len(m.runes) {
		return m.runes[i].pos
	}
	return m.n
}

func (m *reMatcher) runeCond(inst *syntax.Inst, r *smt.Term) *smt.Term {
	b := m.ex.b
	k := func(v rune) *smt.Term { return b.I64(int64(v)) }
	switch inst.Op {
	case syntax.InstRuneAny:
		return b.True
	case syntax.InstRuneAnyNotNL:
		return b.Ne(r, k('\n'))
	}
	rs := inst.Rune
	fold := syntax.Flags(inst.Arg)&syntax.FoldCase != 0
	if len(rs) == 1 {
		alts := []*smt.Term{b.Eq(r, k(rs[0]))}
		if fold {
			for f := unicode.SimpleFold(rs[0]); f != rs[0]; f = unicode.SimpleFold(f) {
				alts = append(alts, b.Eq(r, k(f)))
			}
		}
		return b.Or(alts...)
	}
	if fold {
		panic(m.ex.unsupported("regexp: case-folded character class"))
	}
	var alts []*smt.Term
	for i := 0; i+1 < len(rs); i += 2 {
		if rs[i] == rs[i+1] {
			alts = append(alts, b.Eq(r, k(rs[i])))
		} else {
			alts = append(alts, b.And(b.Le(k(rs[i]), r), b.Le(r, k(rs[i+1]))))
		}
	}
	return b.Or(alts...)
}

func (m *reMatcher) isWord(r *smt.Term) *smt.Term {
	b := m.ex.b
	in := func(lo, hi rune) *smt.Term { return b.And(b.Le(b.I64(int64(lo)), r), b.Le(r, b.I64(int64(hi)))) }
	return b.Or(in('a', 'z'), in('A', 'Z'), in('0', '9'), b.Eq(r, b.I64('_')))
}

func (m *reMatcher) emptyCond(op syntax.EmptyOp, i int) *smt.Term {
	b := m.ex.b
	c := b.True
	nl := func(j int) *smt.Term { return b.Eq(m.runes[j].r, b.I64('\n')) }
	if op&syntax.EmptyBeginText != 0 && i != 0 {
		return b.False
	}
	if op&syntax.EmptyEndText != 0 && i != len(m.runes) {
		return b.False
	}
	if op&syntax.EmptyBeginLine != 0 && i != 0 {
		c = b.And(c, nl(i-1))
	}
	if op&syntax.EmptyEndLine != 0 && i != len(m.runes) {
		c = b.And(c, nl(i))
	}
	if op&(syntax.EmptyWordBoundary|syntax.EmptyNoWordBoundary) != 0 {
		w1, w2 := b.False, b.False
		if i > 0 {
			w1 = m.isWord(m.runes[i-1].r)
		}
		if i < len(m.runes) {
			w2 = m.isWord(m.runes[i].r)
		}
		bd := b.Ne(w1, w2)
		if op&syntax.EmptyWordBoundary != 0 {
			c = b.And(c, bd)
		}
		if op&syntax.EmptyNoWordBoundary != 0 {
			c = b.And(c, b.Not(bd))
		}
	}
	return c
}

// try runs the backtracker from instruction pc at rune index i. Returns true on match,
// with m.cap holding the capture byte offsets.
func (m *reMatcher) try(pc, i int) bool {
	m.steps++
	if m.steps > 200000 {
		panic(m.ex.unsupported("regexp: backtracking budget"))
	}
	key := [2]int{pc, i}
	if m.visited[key] {
		return false
	}
	m.visited[key] = true
	inst := &m.rx.prog.Inst[pc]
	switch inst.Op {
	case syntax.InstFail:
		return false
	case syntax.InstMatch:
		return true
	case syntax.InstNop:
		return m.try(int(inst.Out), i)
	case syntax.InstAlt:
		if m.try(int(inst.Out), i) {
			return true
		}
		return m.try(int(inst.Arg), i)
	case syntax.InstAltMatch:
		if m.try(int(inst.Out), i) {
			return true
		}
		return m.try(int(inst.Arg), i)
	case syntax.InstCapture:
		k := int(inst.Arg)
		if k < len(m.cap) {
			old := m.cap[k]
			m.cap[k] = m.bytePos(i)
			if m.try(int(inst.Out), i) {
				return true
			}
			m.cap[k] = old
			return false
		}
		return m.try(int(inst.Out), i)
	case syntax.InstEmptyWidth:
		if !m.ex.branchCached("regex-empty", m.emptyCond(syntax.EmptyOp(inst.Arg), i)) {
			return false
		}
		return m.try(int(inst.Out), i)
	case syntax.InstRune, syntax.InstRune1, syntax.InstRuneAny, syntax.InstRuneAnyNotNL:
		if i >= len(m.runes) {
			return false
		}
		if !m.ex.branchCached("regex-rune", m.runeCond(inst, m.runes[i].r)) {
			return false
		}
		return m.try(int(inst.Out), i+1)
	}
	panic(m.ex.unsupported("regexp: instruction " + inst.Op.String()))
}

// branchCached is branch with a per-path memo (the same question is asked repeatedly by the backtracker).
func (ex *Exec) branchCached(kind string, c *smt.Term) bool {
	if cb, ok := c.ConstBool(); ok {
		return cb
	}
	if ex.branchMemo == nil {
		ex.branchMemo = map[int]bool{}
	}
	if v, ok := ex.branchMemo[c.ID]; ok {
		return v
	}
	v := ex.branch(kind, c)
	ex.branchMemo[c.ID] = v
	return v
}

// regexFind returns the capture offsets (2*(ncap+1) ints, -1 = unset) of the leftmost-first
// match of rx in s starting the search at rune index from, or nil.
func (ex *Exec) regexFind(rx *RegexV, runes []runeAt, nbytes int, from int) []int {
	for start := from; start <= len(runes); start++ {
		m := &reMatcher{ex: ex, rx: rx, runes: runes, n: nbytes, visited: map[[2]int]bool{}}
		m.cap = make([]int, 2*(rx.ncap+1))
		for k := range m.cap {
			m.cap[k] = -1
		}
		// prog wraps the whole expression in capture 0 already
		if m.try(rx.prog.Start, start) {
			return m.cap
		}
		// anchored at start of text: no point trying later starts
		if rx.prog.StartCond()&syntax.EmptyBeginText != 0 {
			break
		}
	}
	return nil
}

func (ex *Exec) regexOf(v value) *RegexV {
	p, ok := v.(*value)
	if !ok || p == nil {
		panic(ex.unsupported("regexp method on non-model receiver"))
	}
	rx, ok := (*p).(*RegexV)
	if !ok {
		panic(ex.unsupported("regexp method on opaque regexp"))
	}
	return rx
}

func (ex *Exec) submatchStrings(s *Str, caps []int) value {
	if caps == nil {
		return []value(nil)
	}
	out := make([]value, len(caps)/2)
	for k := range out {
		if caps[2*k] >= 0 && caps[2*k+1] >= 0 {
			out[k] = &Str{b: s.b[caps[2*k]:caps[2*k+1]]}
		} else {
			out[k] = &Str{}
		}
	}
	return out
}

func init() {
	compile := func(must bool) modelFunc {
		return func(ex *Exec, fr *frame, pos token.Pos, args []value) value {
			s := args[0].(*Str)
			pat, ok := s.concrete()
			if !ok {
				panic(ex.unsupported("regexp.Compile of a symbolic pattern"))
			}
			rx, err := compileRegex(pat)
			if err != nil {
				if must {
					ex.oblige("panic", "regexp.MustCompile: "+err.Error(), fr, pos, ex.b.False)
				}
				return tuple{(*value)(nil), ex.newErr("regexp: " + err.Error())}
			}
			cell := new(value)
			*cell = rx
			if must {
				return cell
			}
			return tuple{cell, iface{}}
		}
	}
	// replacement: evaluated by the real library when pattern, source and replacement are concrete on this path
	// (symbolic bytes are made concrete by enumeration first, as for the other string-to-string library functions)
	replace := func(literal bool) modelFunc {
		return func(ex *Exec, fr *frame, pos token.Pos, args []value) value {
			rx := ex.regexOf(args[0])
			src, ok1 := ex.concretizeStr(args[1].(*Str)).concrete()
			repl, ok2 := ex.concretizeStr(args[2].(*Str)).concrete()
			if !ok1 || !ok2 {
				panic(ex.unsupported("regexp ReplaceAll on a string that cannot be made concrete"))
			}
			re, err := regexp.Compile(rx.pattern)
			if err != nil {
				panic(ex.unsupported("regexp ReplaceAll: the pattern does not compile natively"))
			}
			if literal {
				return ex.strConst(re.ReplaceAllLiteralString(src, repl))
			}
			return ex.strConst(re.ReplaceAllString(src, repl))
		}
	}
	reg("(*regexp.Regexp).ReplaceAllString", replace(false))
	reg("(*regexp.Regexp).ReplaceAllLiteralString", replace(true))
	reg("regexp.QuoteMeta", func(ex *Exec, fr *frame, pos token.Pos, args []value) value {
		c, ok := ex.concretizeStr(args[0].(*Str)).concrete()
		if !ok {
			panic(ex.unsupported("regexp.QuoteMeta of a string that cannot be made concrete"))
		}
		return ex.strConst(regexp.QuoteMeta(c))
	})
	reg("regexp.MustCompile", compile(true))
	reg("regexp.Compile", compile(false))
	reg("(*regexp.Regexp).MatchString", func(ex *Exec, fr *frame, pos token.Pos, args []value) value {
		rx := ex.regexOf(args[0])
		s := args[1].(*Str)
		runes := ex.decodeAll(s)
		return ex.b.Bool(ex.regexFind(rx, runes, len(s.b), 0) != nil)
	})
	reg("(*regexp.Regexp).Match", func(ex *Exec, fr *frame, pos token.Pos, args []value) value {
		rx := ex.regexOf(args[0])
		bs, _ := args[1].([]value)
		s := &Str{}
		for _, x := range bs {
			s.b = append(s.b, x.(*smt.Term))
		}
		runes := ex.decodeAll(s)
		return ex.b.Bool(ex.regexFind(rx, runes, len(s.b), 0) != nil)
	})
	reg("(*regexp.Regexp).FindStringSubmatch", func(ex *Exec, fr *frame, pos token.Pos, args []value) value {
		rx := ex.regexOf(args[0])
		s := args[1].(*Str)
		runes := ex.decodeAll(s)
		return ex.submatchStrings(s, ex.regexFind(rx, runes, len(s.b), 0))
	})
	reg("(*regexp.Regexp).FindStringSubmatchIndex", func(ex *Exec, fr *frame, pos token.Pos, args []value) value {
		rx := ex.regexOf(args[0])
		s := args[1].(*Str)
		runes := ex.decodeAll(s)
		caps := ex.regexFind(rx, runes, len(s.b), 0)
		if caps == nil {
			return []value(nil)
		}
		out := make([]value, len(caps))
		for i, c := range caps {
			out[i] = ex.b.I64(int64(c))
		}
		return out
	})
	reg("(*regexp.Regexp).FindAllStringSubmatch", func(ex *Exec, fr *frame, pos token.Pos, args []value) value {
		rx := ex.regexOf(args[0])
		s := args[1].(*Str)
		if n, ok := args[2].(*smt.Term).ConstInt(); !ok || n.Sign() >= 0 {
			panic(ex.unsupported("FindAllStringSubmatch with n >= 0"))
		}
		runes := ex.decodeAll(s)
		var out []value
		from := 0
		prevEnd := -1
		for from <= len(runes) {
			caps := ex.regexFind(rx, runes, len(s.b), from)
			if caps == nil {
				break
			}
			// advance: Go skips an empty match adjacent to the previous match
			endRune := len(runes)
			for i, r := range runes {
				if r.pos >= caps[1] {
					endRune = i
					break
				}
			}
			accept := true
			if caps[0] == caps[1] && caps[0] == prevEnd {
				accept = false
			}
			if accept {
				out = append(out, ex.submatchStrings(s, caps))
				prevEnd = caps[1]
			}
			if caps[0] == caps[1] {
				from = endRune + 1
			} else {
				from = endRune
			}
		}
		return out
	})
	reg("(*regexp.Regexp).SubexpIndex", func(ex *Exec, fr *frame, pos token.Pos, args []value) value {
		rx := ex.regexOf(args[0])
		name := ex.wantConcrete(args[1], "SubexpIndex name")
		if name != "" {
			for i, n := range rx.names {
				if n == name {
					return ex.b.I64(int64(i))
				}
			}
		}
		return ex.b.I64(-1)
	})
	reg("(*regexp.Regexp).SubexpNames", func(ex *Exec, fr *frame, pos token.Pos, args []value) value {
		rx := ex.regexOf(args[0])
		out := make([]value, len(rx.names))
		for i, n := range rx.names {
			out[i] = ex.strConst(n)
		}
		return out
	})
	reg("(*regexp.Regexp).NumSubexp", func(ex *Exec, fr *frame, pos token.Pos, args []value) value {
		return ex.b.I64(int64(ex.regexOf(args[0]).ncap))
	})
	reg("(*regexp.Regexp).String", func(ex *Exec, fr *frame, pos token.Pos, args []value) value {
		return ex.strConst(ex.regexOf(args[0]).pattern)
	})
}
