package symex

import (
	"fmt"
	"go/constant"
	"go/token"
	"go/types"
	"math/big"
	"strings"

	"gosmt/smt"

	"golang.org/x/tools/go/ssa"
)

func constantBool(c *ssa.Const) bool     { return constant.BoolVal(c.Value) }
func constantString(c *ssa.Const) string { return constant.StringVal(c.Value) }
func constantBig(c *ssa.Const) *big.Int {
	v := constant.ToInt(c.Value)
	if v.Kind() != constant.Int {
		return big.NewInt(c.Int64())
	}
	if i, ok := constant.Int64Val(v); ok {
		return big.NewInt(i)
	}
	r, _ := new(big.Int).SetString(v.ExactString(), 10)
	return r
}

// ---- floating point ----

// ---- unary / binary operators ----

func (ex *Exec) unop(fr *frame, instr *ssa.UnOp, x value) value {
	b := ex.b
	switch instr.Op {
	case token.MUL: // load
		p, ok := x.(*value)
		if !ok {
			if _, isOp := x.(opaqueV); isOp {
				panic(ex.unsupported("load through opaque pointer"))
			}
			panic(ex.unsupported(fmt.Sprintf("load through %T", x)))
		}
		if p == nil {
			ex.oblige("nil", "nil pointer dereference", fr, instr.Pos(), b.False)
		}
		if _, isBad := (*p).(bad); isBad {
			panic("load of destroyed local")
		}
		return copyVal(*p)
	case token.NOT:
		return b.Not(x.(*smt.Term))
	case token.SUB:
		t := x.(*smt.Term)
		if t.Sort == smt.SFP {
			return ex.fpNeg(t)
		}
		bt, _ := isInteger(instr.X.Type())
		_, _, bits, signed := intRange(bt)
		return b.Wrap(b.Neg(t), bits, signed)
	case token.XOR:
		t := x.(*smt.Term)
		bt, _ := isInteger(instr.X.Type())
		_, _, bits, signed := intRange(bt)
		if signed {
			return b.Sub(b.Neg(t), b.I64(1)) // ^x = -x-1
		}
		return b.Sub(b.Int(new(big.Int).Sub(smt.Pow2(bits), big1)), t)
	case token.ARROW:
		panic(ex.unsupported("channel receive"))
	}
	panic(ex.unsupported("unop " + instr.Op.String()))
}

func (ex *Exec) binop(fr *frame, pos token.Pos, op token.Token, t types.Type, x, y value) value {
	b := ex.b
	switch xv := x.(type) {
	case *smt.Term:
		yv, ok := y.(*smt.Term)
		if !ok {
			panic(ex.unsupported(fmt.Sprintf("binop %s on term and %T", op, y)))
		}
		if xv.Sort == smt.SBool {
			switch op {
			case token.EQL:
				return b.Eq(xv, yv)
			case token.NEQ:
				return b.Ne(xv, yv)
			case token.AND, token.LAND:
				return b.And(xv, yv)
			case token.OR, token.LOR:
				return b.Or(xv, yv)
			}
			panic(ex.unsupported("bool binop " + op.String()))
		}
		if xv.Sort == smt.SFP {
			return ex.fpBinop(fr, pos, op, xv, yv)
		}
		bt, ok := isInteger(t)
		if !ok {
			panic(ex.unsupported("binop on non-integer scalar " + t.String()))
		}
		_, _, bits, signed := intRange(bt)
		switch op {
		case token.ADD:
			return b.Wrap(b.Add(xv, yv), bits, signed)
		case token.SUB:
			return b.Wrap(b.Sub(xv, yv), bits, signed)
		case token.MUL:
			return b.Wrap(b.Mul(xv, yv), bits, signed)
		case token.QUO:
			ex.oblige("divzero", "integer divide by zero", fr, pos, b.Ne(yv, b.I64(0)))
			return b.Wrap(b.TDiv(xv, yv), bits, signed)
		case token.REM:
			ex.oblige("divzero", "integer divide by zero", fr, pos, b.Ne(yv, b.I64(0)))
			return b.TRem(xv, yv)
		case token.EQL:
			return b.Eq(xv, yv)
		case token.NEQ:
			return b.Ne(xv, yv)
		case token.LSS:
			return b.Lt(xv, yv)
		case token.LEQ:
			return b.Le(xv, yv)
		case token.GTR:
			return b.Gt(xv, yv)
		case token.GEQ:
			return b.Ge(xv, yv)
		case token.SHL:
			if c, ok := yv.ConstInt(); ok && c.IsInt64() && c.Int64() < 128 && c.Sign() >= 0 {
				return b.Wrap(b.Mul(xv, b.Int(smt.Pow2(uint(c.Int64())))), bits, signed)
			}
		case token.SHR:
			if c, ok := yv.ConstInt(); ok && c.IsInt64() && c.Int64() < 128 && c.Sign() >= 0 {
				return b.Div(xv, b.Int(smt.Pow2(uint(c.Int64()))))
			}
		case token.AND:
			if cx, ok := xv.ConstInt(); ok {
				if cy, ok := yv.ConstInt(); ok {
					return b.Int(wrapBig(new(big.Int).And(toUnsigned(cx, bits), toUnsigned(cy, bits)), bits, signed))
				}
			}
			// x & (2^k - 1)
			for _, pr := range [][2]*smt.Term{{xv, yv}, {yv, xv}} {
				if c, ok := pr[1].ConstInt(); ok && c.Sign() >= 0 {
					c1 := new(big.Int).Add(c, big1)
					if c1.BitLen() > 0 && new(big.Int).And(c1, c).Sign() == 0 {
						return b.Mod(pr[0], b.Int(c1))
					}
				}
			}
		case token.OR, token.XOR, token.AND_NOT:
			if cx, ok := xv.ConstInt(); ok {
				if cy, ok := yv.ConstInt(); ok {
					ux, uy := toUnsigned(cx, bits), toUnsigned(cy, bits)
					var r *big.Int
					switch op {
					case token.OR:
						r = new(big.Int).Or(ux, uy)
					case token.XOR:
						r = new(big.Int).Xor(ux, uy)
					default:
						r = new(big.Int).AndNot(ux, uy)
					}
					return b.Int(wrapBig(r, bits, signed))
				}
			}
		}
		// general bit operation through bit-vectors
		return ex.bvBinop(op, xv, yv, bits, signed)

	case *Str:
		ys, ok := y.(*Str)
		if !ok {
			panic(ex.unsupported("string binop with non-string"))
		}
		if xv.opaque || ys.opaque {
			if op == token.ADD {
				return &Str{opaque: true, note: "concat"}
			}
			panic(ex.unsupported("comparison of opaque string"))
		}
		switch op {
		case token.ADD:
			r := &Str{b: make([]*smt.Term, 0, len(xv.b)+len(ys.b))}
			r.b = append(append(r.b, xv.b...), ys.b...)
			return r
		case token.EQL:
			return ex.strEq(xv, ys)
		case token.NEQ:
			return b.Not(ex.strEq(xv, ys))
		case token.LSS:
			return ex.strLess(xv, ys, false)
		case token.LEQ:
			return ex.strLess(xv, ys, true)
		case token.GTR:
			return ex.strLess(ys, xv, false)
		case token.GEQ:
			return ex.strLess(ys, xv, true)
		}
		panic(ex.unsupported("string binop " + op.String()))
	}
	switch op {
	case token.EQL:
		return ex.eqVal(t, x, y)
	case token.NEQ:
		return b.Not(ex.eqVal(t, x, y))
	}
	panic(ex.unsupported(fmt.Sprintf("binop %s on %T", op, x)))
}

func toUnsigned(v *big.Int, bits uint) *big.Int {
	if v.Sign() >= 0 {
		return v
	}
	return new(big.Int).Add(v, smt.Pow2(bits))
}

func wrapBig(v *big.Int, bits uint, signed bool) *big.Int {
	m := smt.Pow2(bits)
	r := new(big.Int).Mod(v, m)
	if signed && r.Cmp(smt.Pow2(bits-1)) >= 0 {
		r.Sub(r, m)
	}
	return r
}

func (ex *Exec) bvBinop(op token.Token, x, y *smt.Term, bits uint, signed bool) *smt.Term {
	b := ex.b
	head := map[token.Token]string{token.AND: "bvand", token.OR: "bvor", token.XOR: "bvxor", token.SHL: "bvshl", token.SHR: "bvlshr", token.AND_NOT: "bvandnot"}[op]
	if head == "" {
		panic(ex.unsupported("bit operation " + op.String()))
	}
	if op == token.SHR && signed {
		head = "bvashr"
	}
	conv := fmt.Sprintf("(_ int2bv %d)", bits)
	bs := smt.BVSort(bits)
	bx := b.Raw(bs, conv, b.Wrap(x, bits, false))
	by := b.Raw(bs, conv, b.Wrap(y, bits, false))
	var r *smt.Term
	if head == "bvandnot" {
		r = b.Raw(bs, "bvand", bx, b.Raw(bs, "bvnot", by))
	} else {
		r = b.Raw(bs, head, bx, by)
	}
	u := b.RawRange("bv2nat", big0, new(big.Int).Sub(smt.Pow2(bits), big1), r)
	return b.Wrap(u, bits, signed)
}

// eqVal is Go's == on arbitrary comparable values.
func (ex *Exec) eqVal(t types.Type, x, y value) *smt.Term {
	b := ex.b
	switch xv := x.(type) {
	case *smt.Term:
		yv, ok := y.(*smt.Term)
		if !ok {
			return b.False
		}
		if xv.Sort == smt.SFP {
			if nx, ny, ok := ex.shadowPair(xv, yv); ok {
				return b.Eq(nx, ny)
			}
			return ex.fpRaw(smt.SBool, "fp.eq", xv, yv)
		}
		return b.Eq(xv, yv)
	case *Str:
		ys, ok := y.(*Str)
		if !ok {
			return b.False
		}
		return ex.strEq(xv, ys)
	case *value:
		yv, _ := y.(*value)
		return b.Bool(xv == yv)
	case iface:
		yi, ok := y.(iface)
		if !ok {
			panic(ex.unsupported(fmt.Sprintf("iface == %T", y)))
		}
		if xv.t == nil || yi.t == nil {
			return b.Bool(xv.t == nil && yi.t == nil)
		}
		if !typesIdentical(xv.t, yi.t) {
			return b.False
		}
		return ex.eqVal(xv.t, xv.v, yi.v)
	case structure:
		ys := y.(structure)
		var cs []*smt.Term
		st, _ := t.Underlying().(*types.Struct)
		for i := range xv {
			var ft types.Type
			if st != nil {
				ft = st.Field(i).Type()
			}
			cs = append(cs, ex.eqVal(ft, xv[i], ys[i]))
		}
		return b.And(cs...)
	case array:
		ya := y.(array)
		var cs []*smt.Term
		for i := range xv {
			cs = append(cs, ex.eqVal(nil, xv[i], ya[i]))
		}
		return b.And(cs...)
	case *MapV:
		yv, _ := y.(*MapV)
		return b.Bool(xv == yv)
	case []value:
		// only comparison with nil is legal
		if y == nil || len(y.([]value)) == 0 && y.([]value) == nil {
			return b.Bool(xv == nil)
		}
		return b.Bool(y.([]value) == nil && xv == nil)
	case *ssa.Function:
		yf, isFn := y.(*ssa.Function)
		if !isFn && y != nil {
			return b.False
		}
		return b.Bool(xv == yf)
	case *closure:
		return b.Bool(y != nil && x == y)
	case nil:
		switch yv := y.(type) {
		case nil:
			return b.True
		case *ssa.Function:
			return b.Bool(yv == nil)
		}
		return b.False
	case *ErrV:
		yv, _ := y.(*ErrV)
		return b.Bool(xv == yv)
	case TimeV:
		panic(ex.unsupported("== on time.Time"))
	case BigV:
		panic(ex.unsupported("== on big.Int struct"))
	case opaqueV:
		panic(ex.unsupported("== on opaque value: " + xv.why))
	}
	if eq, ok := ex.modelEq(x, y); ok {
		return eq
	}
	if lx, ok := x.(*LocV); ok {
		// *time.Location values met directly (a Location held by value in an interface): identity of the model object,
		// with the UTC singleton equal to itself only
		ly, ok2 := y.(*LocV)
		return b.Bool(ok2 && (lx == ly || (lx.kind == "utc" && ly.kind == "utc")))
	}
	panic(ex.unsupported(fmt.Sprintf("== on %T", x) + ex.stackOf(ex.curFrame)))
}

func typesIdentical(a, c types.Type) bool {
	fa, ok1 := a.(*fakeType)
	fc, ok2 := c.(*fakeType)
	if ok1 || ok2 {
		return ok1 && ok2 && fa == fc
	}
	return types.Identical(a, c)
}

// ---- strings ----

func (ex *Exec) strEq(x, y *Str) *smt.Term {
	if x.opaque || y.opaque {
		panic(ex.unsupported("== on opaque string"))
	}
	if len(x.b) != len(y.b) {
		return ex.b.False
	}
	cs := make([]*smt.Term, len(x.b))
	for i := range x.b {
		cs[i] = ex.b.Eq(x.b[i], y.b[i])
	}
	return ex.b.And(cs...)
}

// strLess is lexicographic byte order.
func (ex *Exec) strLess(x, y *Str, orEq bool) *smt.Term {
	b := ex.b
	n := len(x.b)
	if len(y.b) < n {
		n = len(y.b)
	}
	// result if all first n bytes equal:
	var res *smt.Term
	if orEq {
		res = b.Bool(len(x.b) <= len(y.b))
	} else {
		res = b.Bool(len(x.b) < len(y.b))
	}
	for i := n - 1; i >= 0; i-- {
		res = b.Ite(b.Lt(x.b[i], y.b[i]), b.True, b.Ite(b.Lt(y.b[i], x.b[i]), b.False, res))
	}
	return res
}

func (ex *Exec) strIndex(fr *frame, pos token.Pos, s *Str, idx *smt.Term) *smt.Term {
	b := ex.b
	if s.opaque {
		panic(ex.unsupported("index of opaque string"))
	}
	n := int64(len(s.b))
	ex.oblige("bounds", "string index out of range", fr, pos, b.And(b.Le(b.I64(0), idx), b.Lt(idx, b.I64(n))))
	if c, ok := idx.ConstInt(); ok {
		return s.b[c.Int64()]
	}
	r := s.b[n-1]
	for i := n - 2; i >= 0; i-- {
		r = b.Ite(b.Eq(idx, b.I64(i)), s.b[i], r)
	}
	return r
}

func (ex *Exec) sliceOp(fr *frame, instr *ssa.Slice) value {
	b := ex.b
	x := fr.get(instr.X)
	var lo, hi, max *smt.Term
	if instr.Low != nil {
		lo = fr.get(instr.Low).(*smt.Term)
	}
	if instr.High != nil {
		hi = fr.get(instr.High).(*smt.Term)
	}
	if instr.Max != nil {
		max = fr.get(instr.Max).(*smt.Term)
	}
	var ln, cp int
	switch x := x.(type) {
	case *Str:
		if x.opaque {
			panic(ex.unsupported("slice of opaque string"))
		}
		ln, cp = len(x.b), len(x.b)
	case []value:
		ln, cp = len(x), cap(x)
	case *value:
		if x == nil {
			ex.oblige("nil", "slice of nil array pointer", fr, instr.Pos(), b.False)
		}
		ln = len(ex.asArray(fr, *x))
		cp = ln
	default:
		panic(ex.unsupported(fmt.Sprintf("slice of %T", x)))
	}
	if lo == nil {
		lo = b.I64(0)
	}
	if hi == nil {
		hi = b.I64(int64(ln))
	}
	limit := cp
	if _, isStr := x.(*Str); isStr {
		limit = ln
	}
	conds := []*smt.Term{b.Le(b.I64(0), lo), b.Le(lo, hi)}
	if max != nil {
		conds = append(conds, b.Le(hi, max), b.Le(max, b.I64(int64(cp))))
	} else {
		conds = append(conds, b.Le(hi, b.I64(int64(limit))))
	}
	ex.oblige("bounds", "slice bounds out of range", fr, instr.Pos(), b.And(conds...))
	l := int(ex.concretize("slice-lo", lo, 0, int64(limit)))
	h := int(ex.concretize("slice-hi", hi, int64(l), int64(limit)))
	m := -1
	if max != nil {
		m = int(ex.concretize("slice-max", max, int64(h), int64(cp)))
	}
	switch x := x.(type) {
	case *Str:
		return &Str{b: x.b[l:h:h]}
	case []value:
		if x == nil {
			return []value(nil)
		}
		if m >= 0 {
			return x[l:h:m]
		}
		return x[l:h]
	case *value:
		a := ex.asArray(fr, *x)
		if m >= 0 {
			return []value(a)[l:h:m]
		}
		return []value(a)[l:h]
	}
	panic("unreachable")
}

// ---- conversions ----

func (ex *Exec) conv(fr *frame, pos token.Pos, tdst, tsrc types.Type, x value) value {
	b := ex.b
	ud, us := tdst.Underlying(), tsrc.Underlying()
	switch ud := ud.(type) {
	case *types.Basic:
		switch {
		case ud.Info()&types.IsInteger != 0:
			t, ok := x.(*smt.Term)
			if !ok {
				panic(ex.unsupported(fmt.Sprintf("conv %T to integer", x)))
			}
			_, _, bits, signed := intRange(ud)
			if t.Sort == smt.SFP {
				return ex.fpToInt(fr, pos, t, bits, signed)
			}
			return b.Wrap(t, bits, signed)
		case ud.Info()&types.IsFloat != 0:
			t := x.(*smt.Term)
			if t.Sort == smt.SFP {
				if ud.Kind() == types.Float32 {
					panic(ex.unsupported("float32"))
				}
				return t
			}
			sb, _ := isInteger(tsrc)
			_, _, bits, signed := intRange(sb)
			return ex.intToFP(t, bits, signed)
		case ud.Info()&types.IsString != 0:
			switch xv := x.(type) {
			case *Str:
				return xv
			case []value: // []byte or []rune -> string
				el := us.(*types.Slice).Elem().Underlying().(*types.Basic)
				if el.Kind() == types.Uint8 {
					r := &Str{b: make([]*smt.Term, len(xv))}
					for i, e := range xv {
						r.b[i] = e.(*smt.Term)
					}
					return r
				}
				// []rune -> string
				r := &Str{}
				for _, e := range xv {
					r.b = append(r.b, ex.encodeRune(e.(*smt.Term))...)
				}
				return r
			case *smt.Term: // string(rune)
				return &Str{b: ex.encodeRune(xv)}
			}
		case ud.Kind() == types.UnsafePointer:
			panic(ex.unsupported("unsafe.Pointer conversion"))
		}
	case *types.Slice:
		if s, ok := x.(*Str); ok {
			if s.opaque {
				panic(ex.unsupported("[]byte(opaque string)"))
			}
			el := ud.Elem().Underlying().(*types.Basic)
			if el.Kind() == types.Uint8 {
				r := make([]value, len(s.b))
				for i, t := range s.b {
					r[i] = t
				}
				return r
			}
			// []rune(s)
			var r []value
			for i := 0; i < len(s.b); {
				rn, sz := ex.decodeRune(s, i)
				r = append(r, rn)
				i += sz
			}
			if r == nil {
				r = []value{}
			}
			return r
		}
		return x
	case *types.Pointer, *types.Signature, *types.Struct, *types.Map, *types.Array:
		return x
	}
	panic(ex.unsupported(fmt.Sprintf("conversion %v -> %v", tsrc, tdst)))
}

// decodeRune decodes one UTF-8 sequence at concrete position i (forks on its width).
func (ex *Exec) decodeRune(s *Str, i int) (*smt.Term, int) {
	b := ex.b
	n := len(s.b) - i
	k := func(v int64) *smt.Term { return b.I64(v) }
	in := func(t *smt.Term, lo, hi int64) *smt.Term { return b.And(b.Le(k(lo), t), b.Le(t, k(hi))) }
	b0 := s.b[i]
	c1 := b.Lt(b0, k(0x80))
	alts := []*smt.Term{c1}
	c2, c3, c4 := b.False, b.False, b.False
	if n >= 2 {
		b1 := s.b[i+1]
		c2 = b.And(in(b0, 0xC2, 0xDF), in(b1, 0x80, 0xBF))
		if n >= 3 {
			b2 := s.b[i+2]
			lead3 := b.Or(
				b.And(b.Eq(b0, k(0xE0)), in(b1, 0xA0, 0xBF)),
				b.And(b.Or(in(b0, 0xE1, 0xEC), in(b0, 0xEE, 0xEF)), in(b1, 0x80, 0xBF)),
				b.And(b.Eq(b0, k(0xED)), in(b1, 0x80, 0x9F)))
			c3 = b.And(lead3, in(b2, 0x80, 0xBF))
			if n >= 4 {
				b3 := s.b[i+3]
				lead4 := b.Or(
					b.And(b.Eq(b0, k(0xF0)), in(b1, 0x90, 0xBF)),
					b.And(in(b0, 0xF1, 0xF3), in(b1, 0x80, 0xBF)),
					b.And(b.Eq(b0, k(0xF4)), in(b1, 0x80, 0x8F)))
				c4 = b.And(lead4, in(b2, 0x80, 0xBF), in(b3, 0x80, 0xBF))
			}
		}
	}
	bad := b.Not(b.Or(c1, c2, c3, c4))
	alts = append(alts, c2, c3, c4, bad)
	switch ex.decide("utf8", alts) {
	case 0:
		return b0, 1
	case 1:
		return b.Add(b.Mul(b.Sub(b0, k(0xC0)), k(64)), b.Sub(s.b[i+1], k(0x80))), 2
	case 2:
		return b.Add(b.Add(b.Mul(b.Sub(b0, k(0xE0)), k(4096)), b.Mul(b.Sub(s.b[i+1], k(0x80)), k(64))), b.Sub(s.b[i+2], k(0x80))), 3
	case 3:
		return b.Add(b.Add(b.Add(b.Mul(b.Sub(b0, k(0xF0)), k(262144)), b.Mul(b.Sub(s.b[i+1], k(0x80)), k(4096))), b.Mul(b.Sub(s.b[i+2], k(0x80)), k(64))), b.Sub(s.b[i+3], k(0x80))), 4
	}
	return k(0xFFFD), 1
}

// encodeRune encodes a rune term as UTF-8 (forks on the encoded width).
func (ex *Exec) encodeRune(r *smt.Term) []*smt.Term {
	b := ex.b
	k := func(v int64) *smt.Term { return b.I64(v) }
	in := func(lo, hi int64) *smt.Term { return b.And(b.Le(k(lo), r), b.Le(r, k(hi))) }
	a1 := in(0, 0x7F)
	a2 := in(0x80, 0x7FF)
	a3 := b.Or(in(0x800, 0xD7FF), in(0xE000, 0xFFFF))
	a4 := in(0x10000, 0x10FFFF)
	bad := b.Not(b.Or(a1, a2, a3, a4))
	switch ex.decide("utf8enc", []*smt.Term{a1, a2, a3, a4, bad}) {
	case 0:
		return []*smt.Term{r}
	case 1:
		return []*smt.Term{b.Add(k(0xC0), b.Div(r, k(64))), b.Add(k(0x80), b.Mod(r, k(64)))}
	case 2:
		return []*smt.Term{b.Add(k(0xE0), b.Div(r, k(4096))), b.Add(k(0x80), b.Mod(b.Div(r, k(64)), k(64))), b.Add(k(0x80), b.Mod(r, k(64)))}
	case 3:
		return []*smt.Term{b.Add(k(0xF0), b.Div(r, k(262144))), b.Add(k(0x80), b.Mod(b.Div(r, k(4096)), k(64))), b.Add(k(0x80), b.Mod(b.Div(r, k(64)), k(64))), b.Add(k(0x80), b.Mod(r, k(64)))}
	}
	return []*smt.Term{k(0xEF), k(0xBF), k(0xBD)}
}

// ---- range ----

type iterator interface {
	next(ex *Exec, fr *frame, instr *ssa.Next) value
}

type strIter struct {
	s *Str
	i int
}

func (it *strIter) next(ex *Exec, fr *frame, instr *ssa.Next) value {
	if it.i >= len(it.s.b) {
		return tuple{ex.b.False, ex.b.I64(0), ex.b.I64(0)}
	}
	pos := it.i
	r, sz := ex.decodeRune(it.s, it.i)
	it.i += sz
	return tuple{ex.b.True, ex.b.I64(int64(pos)), r}
}

type mapIter struct {
	m    *MapV
	i    int
	keys []*mapEntry
}

func (it *mapIter) next(ex *Exec, fr *frame, instr *ssa.Next) value {
	for it.i < len(it.keys) {
		e := it.keys[it.i]
		it.i++
		if e.deleted {
			continue
		}
		return tuple{ex.b.True, e.k, copyVal(e.v)}
	}
	return tuple{ex.b.False, nil, nil}
}

func (ex *Exec) rangeIter(fr *frame, instr *ssa.Range, x value) value {
	switch x := x.(type) {
	case *Str:
		if x.opaque {
			panic(ex.unsupported("range over opaque string"))
		}
		return &strIter{s: x}
	case *MapV:
		it := &mapIter{m: x}
		if x != nil {
			it.keys = append(it.keys, x.entries...)
			if len(it.keys) > 1 {
				ex.pathFlags["map-iteration-order"] = true
				// Go leaves the iteration order of a map unspecified (and randomises it): when the harness asks for it,
				// every range over a map of the code under test takes one of two orders, insertion order or its reverse
				if ex.nondetMapOrder && fr != nil && fr.fn != nil && !strings.Contains(fr.fn.Name(), "VerifHarness") && !strings.HasPrefix(fr.fn.Name(), "verif") {
					if ex.choose("map-order", 2) == 1 {
						for i, j := 0, len(it.keys)-1; i < j; i, j = i+1, j-1 {
							it.keys[i], it.keys[j] = it.keys[j], it.keys[i]
						}
					}
				}
			}
		}
		return it
	}
	panic(ex.unsupported(fmt.Sprintf("range over %T", x)))
}

// ---- maps ----

// keyEq compares a lookup key with an entry key, forking when symbolic.
func (ex *Exec) keyEq(m *MapV, k1, k2 value) bool {
	c := ex.eqVal(m.keyT, k1, k2)
	return ex.branch("mapkey", c)
}

func (ex *Exec) mapFind(m *MapV, key value) *mapEntry {
	if m == nil {
		return nil
	}
	ex.checkHashable(key)
	for _, e := range m.entries {
		if e.deleted {
			continue
		}
		if ex.keyEq(m, key, e.k) {
			return e
		}
	}
	return nil
}

// checkHashable: map keys of interface type holding unhashable dynamic values panic in Go.
func (ex *Exec) checkHashable(key value) {
	if it, ok := key.(iface); ok && it.t != nil {
		if !types.Comparable(it.t) {
			if _, isFake := it.t.(*fakeType); !isFake {
				ex.oblige("panic", "hash of unhashable type "+typeName(it.t), ex.curFrame, token.NoPos, ex.b.False)
			}
		}
	}
}

func (ex *Exec) mapLookup(fr *frame, instr *ssa.Lookup, m *MapV, key value) value {
	ex.curFrame = fr
	e := ex.mapFind(m, key)
	var v value
	if e != nil {
		v = copyVal(e.v)
	} else {
		v = ex.zero(instr.X.Type().Underlying().(*types.Map).Elem())
	}
	if instr.CommaOk {
		return tuple{v, ex.b.Bool(e != nil)}
	}
	return v
}

func (ex *Exec) mapUpdate(fr *frame, pos token.Pos, m *MapV, key, v value) {
	ex.curFrame = fr
	if why, ok := ex.protectedMaps[m]; ok && ex.inInit == 0 {
		ex.oblige("frame", "write to protected map "+why, fr, pos, ex.b.False)
	}
	if e := ex.mapFind(m, key); e != nil {
		e.v = copyVal(v)
		return
	}
	m.entries = append(m.entries, &mapEntry{k: key, v: copyVal(v)})
}

func (m *MapV) size() int {
	if m == nil {
		return 0
	}
	n := 0
	for _, e := range m.entries {
		if !e.deleted {
			n++
		}
	}
	return n
}

// ---- builtins ----

func (ex *Exec) callBuiltin(fr *frame, pos token.Pos, fn *ssa.Builtin, args []value) value {
	b := ex.b
	switch fn.Name() {
	case "len":
		switch x := args[0].(type) {
		case *Str:
			if x.opaque {
				panic(ex.unsupported("len of opaque string"))
			}
			return b.I64(int64(len(x.b)))
		case []value:
			return b.I64(int64(len(x)))
		case array:
			return b.I64(int64(len(x)))
		case *value:
			return b.I64(int64(len(ex.asArray(fr, *x))))
		case *MapV:
			return b.I64(int64(x.size()))
		}
		panic(ex.unsupported(fmt.Sprintf("len(%T)", args[0])))
	case "cap":
		switch x := args[0].(type) {
		case []value:
			return b.I64(int64(cap(x)))
		case array:
			return b.I64(int64(len(x)))
		case *value:
			return b.I64(int64(len(ex.asArray(fr, *x))))
		}
		panic(ex.unsupported(fmt.Sprintf("cap(%T)", args[0])))
	case "append":
		dst, _ := args[0].([]value)
		var src []value
		switch s := args[1].(type) {
		case []value:
			src = s
		case *Str: // append([]byte, string...)
			for _, t := range s.b {
				src = append(src, t)
			}
		case nil:
		default:
			panic(ex.unsupported(fmt.Sprintf("append(..., %T)", args[1])))
		}
		if len(src) == 0 {
			return dst
		}
		if len(dst)+len(src) <= cap(dst) {
			// in place: writes into the shared backing array
			r := dst[:len(dst)+len(src)]
			for i, v := range src {
				cell := &r[len(dst)+i]
				ex.checkWriteVal(fr, pos, cell, v)
				*cell = copyVal(v)
			}
			return r
		}
		newCap := len(dst) + len(src)
		if c2 := 2 * cap(dst); c2 > newCap {
			newCap = c2
		}
		r := make([]value, len(dst), newCap)
		for i, v := range dst {
			r[i] = copyVal(v)
		}
		for _, v := range src {
			r = append(r, copyVal(v))
		}
		return r
	case "copy":
		dst, _ := args[0].([]value)
		var src []value
		switch s := args[1].(type) {
		case []value:
			src = s
		case *Str:
			for _, t := range s.b {
				src = append(src, t)
			}
		}
		n := len(dst)
		if len(src) < n {
			n = len(src)
		}
		tmp := make([]value, n)
		for i := 0; i < n; i++ {
			tmp[i] = copyVal(src[i])
		}
		for i := 0; i < n; i++ {
			ex.checkWrite(fr, pos, &dst[i])
			dst[i] = tmp[i]
		}
		return b.I64(int64(n))
	case "delete":
		m, _ := args[0].(*MapV)
		if why, ok := ex.protectedMaps[m]; ok && ex.inInit == 0 {
			ex.oblige("frame", "delete from protected map "+why, fr, pos, b.False)
		}
		if e := ex.mapFind(m, args[1]); e != nil {
			e.deleted = true
		}
		return nil
	case "print", "println":
		return nil
	case "panic":
		ex.oblige("panic", "explicit panic: "+ex.describe(args[0]), fr, pos, b.False)
		return nil
	case "min", "max":
		r := args[0].(*smt.Term)
		for _, a := range args[1:] {
			t := a.(*smt.Term)
			if fn.Name() == "min" {
				r = b.Ite(b.Lt(t, r), t, r)
			} else {
				r = b.Ite(b.Lt(r, t), t, r)
			}
		}
		return r
	case "recover":
		return iface{}
	case "ssa:wrapnilchk":
		if p, ok := args[0].(*value); ok && p == nil {
			ex.oblige("nil", "value method called through nil pointer", fr, pos, b.False)
		}
		return args[0]
	case "clear":
		switch x := args[0].(type) {
		case []value:
			// every element of the slice becomes the zero value of its type (a write like any other: frames are checked)
			if len(x) > 0 {
				var elem types.Type
				if sl, ok := fn.Type().(*types.Signature); ok && sl.Params().Len() == 1 {
					if st, ok := sl.Params().At(0).Type().Underlying().(*types.Slice); ok {
						elem = st.Elem()
					}
				}
				if elem == nil {
					panic(ex.unsupported("clear of a slice of unknown element type"))
				}
				for i := range x {
					z := ex.zero(elem)
					ex.checkWriteVal(fr, pos, &x[i], z)
					x[i] = z
				}
			}
			return nil
		case *MapV:
			if x != nil {
				for _, e := range x.entries {
					e.deleted = true
				}
			}
			return nil
		case nil:
			return nil
		}
		panic(ex.unsupported(fmt.Sprintf("clear of %T", args[0])))
	}
	panic(ex.unsupported("builtin " + fn.Name()))
}
