package symex

import (
	"fmt"
	"go/token"
	"math"
	"math/big"

	"gosmt/smt"
)

// float64 values are terms of sort SFP; all operations are SMT-LIB FloatingPoint ops (RNE).

func (ex *Exec) fpConst(f float64) *smt.Term { return ex.b.FPConst(math.Float64bits(f)) }

func fpConstVal(t *smt.Term) (float64, bool) {
	if t.Op == smt.OpConst && t.Sort == smt.SFP {
		return math.Float64frombits(t.Int.Uint64()), true
	}
	return 0, false
}

func (ex *Exec) fpRaw(s smt.Sort, head string, args ...*smt.Term) *smt.Term {
	return ex.b.Raw(s, head, args...)
}

func (ex *Exec) fpBinop(fr *frame, pos token.Pos, op token.Token, x, y *smt.Term) *smt.Term {
	cx, okx := fpConstVal(x)
	cy, oky := fpConstVal(y)
	if okx && oky {
		switch op {
		case token.ADD:
			return ex.fpConst(cx + cy)
		case token.SUB:
			return ex.fpConst(cx - cy)
		case token.MUL:
			return ex.fpConst(cx * cy)
		case token.QUO:
			return ex.fpConst(cx / cy)
		case token.EQL:
			return ex.b.Bool(cx == cy)
		case token.NEQ:
			return ex.b.Bool(cx != cy)
		case token.LSS:
			return ex.b.Bool(cx < cy)
		case token.LEQ:
			return ex.b.Bool(cx <= cy)
		case token.GTR:
			return ex.b.Bool(cx > cy)
		case token.GEQ:
			return ex.b.Bool(cx >= cy)
		}
	}
	switch op {
	case token.ADD:
		return ex.fpRaw(smt.SFP, "fp.add RNE", x, y)
	case token.SUB:
		return ex.fpRaw(smt.SFP, "fp.sub RNE", x, y)
	case token.MUL:
		return ex.fpRaw(smt.SFP, "fp.mul RNE", x, y)
	case token.QUO:
		return ex.fpRaw(smt.SFP, "fp.div RNE", x, y)
	case token.EQL:
		return ex.fpRaw(smt.SBool, "fp.eq", x, y)
	case token.NEQ:
		return ex.b.Not(ex.fpRaw(smt.SBool, "fp.eq", x, y))
	case token.LSS:
		return ex.fpRaw(smt.SBool, "fp.lt", x, y)
	case token.LEQ:
		return ex.fpRaw(smt.SBool, "fp.leq", x, y)
	case token.GTR:
		return ex.fpRaw(smt.SBool, "fp.gt", x, y)
	case token.GEQ:
		return ex.fpRaw(smt.SBool, "fp.geq", x, y)
	}
	panic(ex.unsupported("float binop " + op.String()))
}

// intToFP converts a k-bit integer term to float64 (round to nearest even, as Go does).
func (ex *Exec) intToFP(t *smt.Term, bits uint, signed bool) *smt.Term {
	if c, ok := t.ConstInt(); ok {
		f, _ := new(big.Float).SetInt(c).Float64()
		return ex.fpConst(f)
	}
	bv := ex.b.Raw(smt.BVSort(bits), fmt.Sprintf("(_ int2bv %d)", bits), ex.b.Wrap(t, bits, false))
	if signed {
		return ex.fpRaw(smt.SFP, "(_ to_fp 11 53) RNE", bv)
	}
	return ex.fpRaw(smt.SFP, "(_ to_fp_unsigned 11 53) RNE", bv)
}

// fpToInt converts float64 to a k-bit integer. Go leaves the result implementation-defined
// when the truncated value does not fit; this models GOARCH=amd64 (CVTTSD2SL / CVTTSD2SQ):
// an out-of-range or NaN operand yields the minimum value of the 32/64-bit signed type.
// Other target widths are supported only when the operand is provably in range.
func (ex *Exec) fpToInt(fr *frame, pos token.Pos, t *smt.Term, bits uint, signed bool) *smt.Term {
	b := ex.b
	var lo, hi *big.Int
	if signed {
		lo = new(big.Int).Neg(smt.Pow2(bits - 1))
		hi = new(big.Int).Sub(smt.Pow2(bits-1), big1)
	} else {
		lo, hi = big0, new(big.Int).Sub(smt.Pow2(bits), big1)
	}
	amd64 := signed && (bits == 32 || bits == 64)
	if c, ok := fpConstVal(t); ok {
		in := !(math.IsNaN(c) || math.IsInf(c, 0))
		var bi *big.Int
		if in {
			bi, _ = new(big.Float).SetFloat64(math.Trunc(c)).Int(nil)
			in = bi.Cmp(lo) >= 0 && bi.Cmp(hi) <= 0
		}
		if in {
			return b.Int(bi)
		}
		if amd64 {
			return b.Int(lo)
		}
		panic(ex.unsupported("out-of-range float to integer conversion for this width"))
	}
	// in-range test in FP: lo-1 < x < hi+1 (2^k bounds are exactly representable)
	lof, _ := new(big.Float).SetInt(new(big.Int).Sub(lo, big1)).Float64()
	hif, _ := new(big.Float).SetInt(new(big.Int).Add(hi, big1)).Float64()
	inr := b.And(ex.fpRaw(smt.SBool, "fp.gt", t, ex.fpConst(lof)), ex.fpRaw(smt.SBool, "fp.lt", t, ex.fpConst(hif)))
	var bv *smt.Term
	if signed {
		bv = ex.fpRaw(smt.BVSort(bits), fmt.Sprintf("(_ fp.to_sbv %d) RTZ", bits), t)
	} else {
		bv = ex.fpRaw(smt.BVSort(bits), fmt.Sprintf("(_ fp.to_ubv %d) RTZ", bits), t)
	}
	u := b.RawRange("bv2nat", big0, new(big.Int).Sub(smt.Pow2(bits), big1), bv)
	conv := b.Wrap(u, bits, signed)
	if amd64 {
		return b.Ite(inr, conv, b.Int(lo))
	}
	if ex.checkSat(b.Not(inr)) != smt.Unsat {
		panic(ex.unsupported("possibly out-of-range float to integer conversion for this width"))
	}
	return conv
}

func (ex *Exec) fpIsNaN(t *smt.Term) *smt.Term {
	if c, ok := fpConstVal(t); ok {
		return ex.b.Bool(math.IsNaN(c))
	}
	return ex.fpRaw(smt.SBool, "fp.isNaN", t)
}

func (ex *Exec) fpIsInf(t *smt.Term) *smt.Term {
	if c, ok := fpConstVal(t); ok {
		return ex.b.Bool(math.IsInf(c, 0))
	}
	return ex.fpRaw(smt.SBool, "fp.isInfinite", t)
}

func bigFromU64(u uint64) *big.Int { return new(big.Int).SetUint64(u) }

// freshFP is an unconstrained float64 (used for functions that are not interpreted).
func (ex *Exec) freshFP(why string) *smt.Term {
	ex.fpSeq++
	bits := ex.b.Var(fmt.Sprintf("%s!%d", why, ex.fpSeq), smt.SBV64, nil, nil)
	if ex.solver != nil {
		ex.solver.Declare(bits)
	}
	return ex.fpRaw(smt.SFP, "(_ to_fp 11 53)", bits)
}

func (ex *Exec) freshBool(why string) *smt.Term {
	ex.fpSeq++
	v := ex.b.Var(fmt.Sprintf("%s!%d", why, ex.fpSeq), smt.SBool, nil, nil)
	if ex.solver != nil {
		ex.solver.Declare(v)
	}
	return v
}
