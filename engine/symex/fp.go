package symex

import (
	"fmt"
	"go/token"
	"math"
	"math/big"

	"gosmt/smt"
)

// float64 values are terms of sort SFP; all operations are SMT-LIB FloatingPoint ops (RNE).

func (ex *Exec) fpConst(f float64) *smt.Term { return ex.b.FPConst(math.Float64bits(f)) }

func fpConstVal(t *smt.Term) (float64, bool) {
	if t.Op == smt.OpConst && t.Sort == smt.SFP {
		return math.Float64frombits(t.Int.Uint64()), true
	}
	return 0, false
}

func (ex *Exec) fpRaw(s smt.Sort, head string, args ...*smt.Term) *smt.Term {
	return ex.b.Raw(s, head, args...)
}

// ---- dyadic shadows ----
//
// A float64 term whose value is known to equal num/2^s exactly (num an Int term, s concrete) carries that fact as a
// "shadow": floats converted from 32-bit integers, the correctly rounded float of a decimal (exactDecimalFloat) and
// whatever floor/ceil/trunc/abs/neg make of those. Comparisons, conversions back to integers and the rounding
// functions are then answered in integer arithmetic, which the solvers decide quickly, instead of through
// int2bv/to_fp/bv2nat, which they do not. The shadow is a pure consequence of how the term was built (plus the
// declared range of its variables), so it is keyed by term and survives across paths. The sign of a zero is not
// represented; every use below is insensitive to it, everything else works on the FP term itself.
type fpShadow struct {
	num *smt.Term
	s   uint
}

func (ex *Exec) setShadow(t *smt.Term, sh fpShadow) *smt.Term {
	if ex.fpSh == nil || ex.fpShB != ex.b {
		ex.fpSh, ex.fpShB = map[int]fpShadow{}, ex.b
	}
	ex.fpSh[t.ID] = sh
	return t
}

func (ex *Exec) shadowOf(t *smt.Term) (fpShadow, bool) {
	if c, ok := fpConstVal(t); ok {
		if math.IsNaN(c) || math.IsInf(c, 0) {
			return fpShadow{}, false
		}
		if c == 0 {
			return fpShadow{ex.k(0), 0}, true
		}
		frac, e := math.Frexp(c) // c = frac * 2^e, 0.5 <= |frac| < 1
		m := big.NewInt(int64(frac * (1 << 53)))
		e -= 53
		for e < 0 && m.Bit(0) == 0 {
			m.Rsh(m, 1)
			e++
		}
		if e >= 0 {
			return fpShadow{ex.b.Int(m.Lsh(m, uint(e))), 0}, true
		}
		return fpShadow{ex.b.Int(m), uint(-e)}, true
	}
	if ex.fpSh == nil || ex.fpShB != ex.b {
		return fpShadow{}, false
	}
	sh, ok := ex.fpSh[t.ID]
	return sh, ok
}

// shadowPair aligns two shadows to a common denominator.
func (ex *Exec) shadowPair(x, y *smt.Term) (nx, ny *smt.Term, ok bool) {
	sx, okx := ex.shadowOf(x)
	sy, oky := ex.shadowOf(y)
	if !okx || !oky {
		return nil, nil, false
	}
	if _, cx := fpConstVal(x); cx {
		if _, cy := fpConstVal(y); cy {
			return nil, nil, false
		}
	}
	nx, ny = sx.num, sy.num
	if sx.s < sy.s {
		nx = ex.b.Mul(nx, ex.b.Int(smt.Pow2(sy.s-sx.s)))
	} else if sy.s < sx.s {
		ny = ex.b.Mul(ny, ex.b.Int(smt.Pow2(sx.s-sy.s)))
	}
	return nx, ny, true
}

var pow53 = smt.Pow2(53)

func within53(t *smt.Term) bool {
	return t.Lo != nil && t.Hi != nil && new(big.Int).Abs(t.Lo).Cmp(pow53) <= 0 && new(big.Int).Abs(t.Hi).Cmp(pow53) <= 0
}

// fpRound is floor (mode -1), ceil (+1) or trunc (0) of a float term.
func (ex *Exec) fpRound(x *smt.Term, mode int) *smt.Term {
	head := map[int]string{-1: "fp.roundToIntegral RTN", 1: "fp.roundToIntegral RTP", 0: "fp.roundToIntegral RTZ"}[mode]
	r := ex.fpRaw(smt.SFP, head, x)
	if sh, ok := ex.shadowOf(x); ok {
		if sh.s == 0 {
			return ex.setShadow(r, sh)
		}
		b := ex.b
		den := b.Int(smt.Pow2(sh.s))
		var q *smt.Term
		switch mode {
		case -1:
			q = b.Div(sh.num, den)
		case 1:
			q = b.Neg(b.Div(b.Neg(sh.num), den))
		default:
			q = b.TDiv(sh.num, den)
		}
		return ex.setShadow(r, fpShadow{q, 0})
	}
	return r
}

func (ex *Exec) fpAbs(x *smt.Term) *smt.Term {
	r := ex.fpRaw(smt.SFP, "fp.abs", x)
	if sh, ok := ex.shadowOf(x); ok {
		return ex.setShadow(r, fpShadow{ex.absT(sh.num), sh.s})
	}
	return r
}

func (ex *Exec) fpNeg(x *smt.Term) *smt.Term {
	r := ex.fpRaw(smt.SFP, "fp.neg", x)
	if sh, ok := ex.shadowOf(x); ok {
		return ex.setShadow(r, fpShadow{ex.b.Neg(sh.num), sh.s})
	}
	return r
}

func (ex *Exec) fpBinop(fr *frame, pos token.Pos, op token.Token, x, y *smt.Term) *smt.Term {
	cx, okx := fpConstVal(x)
	cy, oky := fpConstVal(y)
	if nx, ny, ok := ex.shadowPair(x, y); ok {
		b := ex.b
		switch op {
		case token.EQL:
			return b.Eq(nx, ny)
		case token.NEQ:
			return b.Ne(nx, ny)
		case token.LSS:
			return b.Lt(nx, ny)
		case token.LEQ:
			return b.Le(nx, ny)
		case token.GTR:
			return b.Gt(nx, ny)
		case token.GEQ:
			return b.Ge(nx, ny)
		}
	}
	if okx && oky {
		switch op {
		case token.ADD:
			return ex.fpConst(cx + cy)
		case token.SUB:
			return ex.fpConst(cx - cy)
		case token.MUL:
			return ex.fpConst(cx * cy)
		case token.QUO:
			return ex.fpConst(cx / cy)
		case token.EQL:
			return ex.b.Bool(cx == cy)
		case token.NEQ:
			return ex.b.Bool(cx != cy)
		case token.LSS:
			return ex.b.Bool(cx < cy)
		case token.LEQ:
			return ex.b.Bool(cx <= cy)
		case token.GTR:
			return ex.b.Bool(cx > cy)
		case token.GEQ:
			return ex.b.Bool(cx >= cy)
		}
	}
	exact := func(r *smt.Term, f func(a, b *smt.Term) *smt.Term) *smt.Term {
		// an integer result of magnitude <= 2^53 is representable, so the float operation is exact
		sx, okx := ex.shadowOf(x)
		sy, oky := ex.shadowOf(y)
		if okx && oky && sx.s == 0 && sy.s == 0 {
			if n := f(sx.num, sy.num); within53(n) {
				return ex.setShadow(r, fpShadow{n, 0})
			}
		}
		return r
	}
	switch op {
	case token.ADD:
		return exact(ex.fpRaw(smt.SFP, "fp.add RNE", x, y), ex.b.Add)
	case token.SUB:
		return exact(ex.fpRaw(smt.SFP, "fp.sub RNE", x, y), ex.b.Sub)
	case token.MUL:
		return exact(ex.fpRaw(smt.SFP, "fp.mul RNE", x, y), ex.b.Mul)
	case token.QUO:
		if ex.fpOpaque[x.ID] && ex.fpOpaque[y.ID] {
			// the quotient of two uninterpreted floats (results of transcendental functions): bit-blasting a 64-bit
			// divider buys nothing here. The result is an arbitrary float that is NaN exactly when IEEE says so.
			b := ex.b
			zx, zy := ex.fpRaw(smt.SBool, "fp.isZero", x), ex.fpRaw(smt.SBool, "fp.isZero", y)
			nan := b.Or(ex.fpIsNaN(x), ex.fpIsNaN(y), b.And(zx, zy), b.And(ex.fpIsInf(x), ex.fpIsInf(y)))
			r := ex.freshFP("fp.div")
			ex.assume(b.Eq(ex.fpIsNaN(r), nan))
			return r
		}
		return ex.fpRaw(smt.SFP, "fp.div RNE", x, y)
	case token.EQL:
		return ex.fpRaw(smt.SBool, "fp.eq", x, y)
	case token.NEQ:
		return ex.b.Not(ex.fpRaw(smt.SBool, "fp.eq", x, y))
	case token.LSS:
		return ex.fpRaw(smt.SBool, "fp.lt", x, y)
	case token.LEQ:
		return ex.fpRaw(smt.SBool, "fp.leq", x, y)
	case token.GTR:
		return ex.fpRaw(smt.SBool, "fp.gt", x, y)
	case token.GEQ:
		return ex.fpRaw(smt.SBool, "fp.geq", x, y)
	}
	panic(ex.unsupported("float binop " + op.String()))
}

// intToFP converts a k-bit integer term to float64 (round to nearest even, as Go does).
func (ex *Exec) intToFP(t *smt.Term, bits uint, signed bool) *smt.Term {
	if c, ok := t.ConstInt(); ok {
		f, _ := new(big.Float).SetInt(c).Float64()
		return ex.fpConst(f)
	}
	bv := ex.b.Raw(smt.BVSort(bits), fmt.Sprintf("(_ int2bv %d)", bits), ex.b.Wrap(t, bits, false))
	var r *smt.Term
	if signed {
		r = ex.fpRaw(smt.SFP, "(_ to_fp 11 53) RNE", bv)
	} else {
		r = ex.fpRaw(smt.SFP, "(_ to_fp_unsigned 11 53) RNE", bv)
	}
	if bits <= 32 || within53(t) {
		ex.setShadow(r, fpShadow{t, 0}) // exactly representable
	}
	return r
}

// fpToInt converts float64 to a k-bit integer. Go leaves the result implementation-defined
// when the truncated value does not fit; this models GOARCH=amd64 (CVTTSD2SL / CVTTSD2SQ):
// an out-of-range or NaN operand yields the minimum value of the 32/64-bit signed type.
// Other target widths are supported only when the operand is provably in range.
func (ex *Exec) fpToInt(fr *frame, pos token.Pos, t *smt.Term, bits uint, signed bool) *smt.Term {
	b := ex.b
	var lo, hi *big.Int
	if signed {
		lo = new(big.Int).Neg(smt.Pow2(bits - 1))
		hi = new(big.Int).Sub(smt.Pow2(bits-1), big1)
	} else {
		lo, hi = big0, new(big.Int).Sub(smt.Pow2(bits), big1)
	}
	amd64 := signed && (bits == 32 || bits == 64)
	if c, ok := fpConstVal(t); ok {
		in := !(math.IsNaN(c) || math.IsInf(c, 0))
		var bi *big.Int
		if in {
			bi, _ = new(big.Float).SetFloat64(math.Trunc(c)).Int(nil)
			in = bi.Cmp(lo) >= 0 && bi.Cmp(hi) <= 0
		}
		if in {
			return b.Int(bi)
		}
		if amd64 {
			return b.Int(lo)
		}
		panic(ex.unsupported("out-of-range float to integer conversion for this width"))
	}
	if sh, ok := ex.shadowOf(t); ok {
		q := sh.num
		if sh.s > 0 {
			q = b.TDiv(sh.num, b.Int(smt.Pow2(sh.s)))
		}
		inr := b.And(b.Le(b.Int(lo), q), b.Le(q, b.Int(hi)))
		if amd64 {
			return b.Ite(inr, q, b.Int(lo))
		}
		if ex.checkSat(b.Not(inr)) != smt.Unsat {
			panic(ex.unsupported("possibly out-of-range float to integer conversion for this width"))
		}
		return q
	}
	// in-range test in FP: lo-1 < x < hi+1 (2^k bounds are exactly representable)
	lof, _ := new(big.Float).SetInt(new(big.Int).Sub(lo, big1)).Float64()
	hif, _ := new(big.Float).SetInt(new(big.Int).Add(hi, big1)).Float64()
	inr := b.And(ex.fpRaw(smt.SBool, "fp.gt", t, ex.fpConst(lof)), ex.fpRaw(smt.SBool, "fp.lt", t, ex.fpConst(hif)))
	var bv *smt.Term
	if signed {
		bv = ex.fpRaw(smt.BVSort(bits), fmt.Sprintf("(_ fp.to_sbv %d) RTZ", bits), t)
	} else {
		bv = ex.fpRaw(smt.BVSort(bits), fmt.Sprintf("(_ fp.to_ubv %d) RTZ", bits), t)
	}
	u := b.RawRange("bv2nat", big0, new(big.Int).Sub(smt.Pow2(bits), big1), bv)
	conv := b.Wrap(u, bits, signed)
	if amd64 {
		return b.Ite(inr, conv, b.Int(lo))
	}
	if ex.checkSat(b.Not(inr)) != smt.Unsat {
		panic(ex.unsupported("possibly out-of-range float to integer conversion for this width"))
	}
	return conv
}

func (ex *Exec) fpIsNaN(t *smt.Term) *smt.Term {
	if c, ok := fpConstVal(t); ok {
		return ex.b.Bool(math.IsNaN(c))
	}
	if _, ok := ex.shadowOf(t); ok {
		return ex.b.False
	}
	return ex.fpRaw(smt.SBool, "fp.isNaN", t)
}

func (ex *Exec) fpIsInf(t *smt.Term) *smt.Term {
	if c, ok := fpConstVal(t); ok {
		return ex.b.Bool(math.IsInf(c, 0))
	}
	if _, ok := ex.shadowOf(t); ok {
		return ex.b.False
	}
	return ex.fpRaw(smt.SBool, "fp.isInfinite", t)
}

func bigFromU64(u uint64) *big.Int { return new(big.Int).SetUint64(u) }

// freshFP is an unconstrained float64 (used for functions that are not interpreted).
func (ex *Exec) freshFP(why string) *smt.Term {
	ex.fpSeq++
	bits := ex.b.Var(fmt.Sprintf("%s!%d", why, ex.fpSeq), smt.SBV64, nil, nil)
	if ex.solver != nil {
		ex.solver.Declare(bits)
	}
	r := ex.fpRaw(smt.SFP, "(_ to_fp 11 53)", bits)
	if ex.fpOpaque == nil {
		ex.fpOpaque = map[int]bool{}
	}
	ex.fpOpaque[r.ID] = true
	return r
}

func (ex *Exec) freshBool(why string) *smt.Term {
	ex.fpSeq++
	v := ex.b.Var(fmt.Sprintf("%s!%d", why, ex.fpSeq), smt.SBool, nil, nil)
	if ex.solver != nil {
		ex.solver.Declare(v)
	}
	return v
}
