package symex

import (
	"encoding/json"
	"fmt"
	"go/token"
	"os"
	"os/exec"
	"path/filepath"
	"sort"
	"strings"
	"sync"

	"gosmt/smt"
)

// Registry facts: the element / resource type registry of internal/protofields is built by
// reflection over generated messages at init time (not executable here). Its *contents* are
// dumped from the real code of the current tree by a native helper (run through the same
// overlay) and used as data: the models of IsValidElementType / IsValidResourceType answer
// from the dump; a symbolic name forks over the dumped names of its length plus "none of them".
type RegistryFacts struct {
	Elements  []string
	Resources []string
}

var registryOnce sync.Once
var registryFacts *RegistryFacts
var registryErr error

func (p *Program) Registry() (*RegistryFacts, error) {
	registryOnce.Do(func() {
		base := "/verif/.work"
		if d := os.Getenv("GOSMT_VERIF_DIR"); d != "" {
			base = filepath.Join(d, ".work")
		}
		work, err := os.MkdirTemp(base, "registry-")
		if err != nil {
			os.MkdirAll(base, 0755)
			work, err = os.MkdirTemp(base, "registry-")
			if err != nil {
				registryErr = err
				return
			}
		}
		defer os.RemoveAll(work)
		test := filepath.Join(work, "dump_test.go")
		os.WriteFile(test, []byte(`package protofields

import (
	"fmt"
	"testing"
)

func TestVerifDumpRegistry(t *testing.T) {
	for k := range Elements {
		fmt.Println("VERIF-FACT element", k)
	}
	for k := range Resources {
		fmt.Println("VERIF-FACT resource", k)
	}
}
`), 0644)
		ov, _ := json.Marshal(map[string]interface{}{"Replace": map[string]string{filepath.Join(p.RepoDir, "internal/protofields/zz_verif_dump_test.go"): test}})
		ovFile := filepath.Join(work, "ov.json")
		os.WriteFile(ovFile, ov, 0644)
		cmd := exec.Command("go", "test", "-vet=off", "-count=1", "-overlay", ovFile, "-run", "^TestVerifDumpRegistry$", "-v", "./internal/protofields")
		cmd.Dir = p.RepoDir
		cmd.Env = append(os.Environ(), "GOFLAGS=-mod=mod", "GOPROXY=off", "GOSUMDB=off", "GOTOOLCHAIN=local")
		out, err := cmd.CombinedOutput()
		if err != nil {
			registryErr = fmt.Errorf("registry dump failed: %v\n%s", err, out)
			return
		}
		f := &RegistryFacts{}
		for _, l := range strings.Split(string(out), "\n") {
			parts := strings.Fields(l)
			if len(parts) == 3 && parts[0] == "VERIF-FACT" {
				if parts[1] == "element" {
					f.Elements = append(f.Elements, parts[2])
				} else {
					f.Resources = append(f.Resources, parts[2])
				}
			}
		}
		sort.Strings(f.Elements)
		sort.Strings(f.Resources)
		if len(f.Elements) == 0 || len(f.Resources) == 0 {
			registryErr = fmt.Errorf("registry dump produced no facts:\n%s", out)
			return
		}
		registryFacts = f
	})
	return registryFacts, registryErr
}

// nameIn decides membership of a (possibly symbolic) string in a concrete name list (forks per candidate).
func (ex *Exec) nameIn(s *Str, names []string) bool {
	ex.needBytes(s)
	if c, ok := s.concrete(); ok {
		i := sort.SearchStrings(names, c)
		return i < len(names) && names[i] == c
	}
	var alts []*smt.Term
	none := ex.b.True
	for _, n := range names {
		if len(n) != len(s.b) {
			continue
		}
		eq := ex.strEq(s, ex.strConst(n))
		if cb, ok := eq.ConstBool(); ok && !cb {
			continue
		}
		alts = append(alts, eq)
		none = ex.b.And(none, ex.b.Not(eq))
	}
	alts = append(alts, none)
	return ex.decide("registry-name", alts) != len(alts)-1
}

func init() {
	const pf = RepoModule + "/internal/protofields."
	reg(pf+"IsValidElementType", func(ex *Exec, fr *frame, pos token.Pos, args []value) value {
		f, err := ex.P.Registry()
		if err != nil {
			panic(ex.unsupported("type registry facts unavailable: " + err.Error()))
		}
		return ex.b.Bool(ex.nameIn(args[0].(*Str), f.Elements))
	})
	reg(RepoModule+"/internal/resource.IsType", func(ex *Exec, fr *frame, pos token.Pos, args []value) value {
		f, err := ex.P.Registry()
		if err != nil {
			panic(ex.unsupported("type registry facts unavailable: " + err.Error()))
		}
		return ex.b.Bool(ex.nameIn(args[0].(*Str), f.Resources))
	})
	reg(pf+"IsValidResourceType", func(ex *Exec, fr *frame, pos token.Pos, args []value) value {
		f, err := ex.P.Registry()
		if err != nil {
			panic(ex.unsupported("type registry facts unavailable: " + err.Error()))
		}
		return ex.b.Bool(ex.nameIn(args[0].(*Str), f.Resources))
	})
}

func init() {
	// github.com/iancoleman/strcase.ToLowerCamel on a plain identifier (letters and digits only):
	// the first letter is lower-cased, the rest is unchanged. Other inputs are not modelled.
	reg("github.com/iancoleman/strcase.ToLowerCamel", func(ex *Exec, fr *frame, pos token.Pos, args []value) value {
		s := ex.concretizeStr(args[0].(*Str))
		c, ok := s.concrete()
		if !ok {
			panic(ex.unsupported("strcase.ToLowerCamel of a symbolic string"))
		}
		out := make([]byte, 0, len(c))
		up := false
		for i := 0; i < len(c); i++ {
			ch := c[i]
			switch {
			case ch == '_': // snake_case input: the underscore goes, the next letter is capitalised
				if i == 0 || i == len(c)-1 {
					panic(ex.unsupported("strcase.ToLowerCamel of an identifier with a leading or trailing underscore"))
				}
				up = true
			case ch >= 'a' && ch <= 'z':
				if up {
					ch -= 32
				}
				up = false
				out = append(out, ch)
			case ch >= 'A' && ch <= 'Z', ch >= '0' && ch <= '9':
				if i > 0 && ch >= 'A' && ch <= 'Z' && c[i-1] >= 'A' && c[i-1] <= 'Z' {
					panic(ex.unsupported("strcase.ToLowerCamel of an identifier with a run of capitals")) // the library lower-cases such runs
				}
				up = false
				out = append(out, ch)
			default:
				panic(ex.unsupported("strcase.ToLowerCamel of a non-identifier"))
			}
		}
		c = string(out)
		if len(c) > 0 && c[0] >= 'A' && c[0] <= 'Z' {
			c = string(c[0]+32) + c[1:]
		}
		return ex.strConst(c)
	})
}

func init() {
	// strcase.ToCamel on a snake_case identifier (lower-case letters, digits, underscores): every word capitalised and
	// joined, as the library does for such input. Other inputs are not modelled.
	reg("github.com/iancoleman/strcase.ToCamel", func(ex *Exec, fr *frame, pos token.Pos, args []value) value {
		s := ex.concretizeStr(args[0].(*Str))
		c, ok := s.concrete()
		if !ok {
			panic(ex.unsupported("strcase.ToCamel of a symbolic string"))
		}
		out := make([]byte, 0, len(c))
		up := true
		for i := 0; i < len(c); i++ {
			ch := c[i]
			switch {
			case ch == '_':
				up = true
			case ch >= 'a' && ch <= 'z':
				if up {
					ch -= 32
				}
				up = false
				out = append(out, ch)
			case ch >= '0' && ch <= '9':
				up = true // the library capitalises the letter after a digit
				out = append(out, ch)
			default:
				panic(ex.unsupported("strcase.ToCamel of something that is not a snake_case identifier"))
			}
		}
		return ex.strConst(string(out))
	})
}

func init() {
	// strcase.ToSnake on a lowerCamel identifier of letters only: an underscore before every capital, all lower case.
	reg("github.com/iancoleman/strcase.ToSnake", func(ex *Exec, fr *frame, pos token.Pos, args []value) value {
		s := ex.concretizeStr(args[0].(*Str))
		c, ok := s.concrete()
		if !ok {
			panic(ex.unsupported("strcase.ToSnake of a symbolic string"))
		}
		// a transcription of strcase v0.3.0 ToScreamingDelimited(s, '_', "", false) for a concrete string
		c = strings.TrimSpace(c)
		out := make([]byte, 0, len(c)+4)
		isCap := func(b byte) bool { return b >= 'A' && b <= 'Z' }
		isLow := func(b byte) bool { return b >= 'a' && b <= 'z' }
		isNum := func(b byte) bool { return b >= '0' && b <= '9' }
		for i := 0; i < len(c); i++ {
			v := c[i]
			vIsCap, vIsLow := isCap(v), isLow(v)
			if vIsCap {
				v += 'a' - 'A'
			}
			if i+1 < len(c) {
				next := c[i+1]
				vIsNum := isNum(v)
				if (vIsCap && (isLow(next) || isNum(next))) || (vIsLow && (isCap(next) || isNum(next))) || (vIsNum && (isCap(next) || isLow(next))) {
					if vIsCap && isLow(next) && i > 0 && isCap(c[i-1]) {
						out = append(out, '_')
					}
					out = append(out, v)
					if vIsLow || vIsNum || isNum(next) {
						out = append(out, '_')
					}
					continue
				}
			}
			if v == ' ' || v == '_' || v == '-' || v == '.' {
				out = append(out, '_')
			} else {
				out = append(out, v)
			}
		}
		return ex.strConst(string(out))
	})
}

// concretizeStr makes every byte of s concrete on this path (forking when several values are feasible).
func (ex *Exec) concretizeStr(s *Str) *Str {
	ex.needBytes(s)
	out := &Str{b: make([]*smt.Term, len(s.b))}
	for i, t := range s.b {
		if t.IsConst() {
			out.b[i] = t
			continue
		}
		out.b[i] = ex.k(ex.concretize("string-byte", t, 0, 255))
	}
	return out
}
