package symex

// Heap cloning: package initialisers are executed once per harness; every path starts from a
// deep copy of the post-init heap (aliasing preserved), so paths cannot influence each other.

type cloner struct {
	cells map[*value]*value
	maps  map[*MapV]*MapV
	backs map[*value][]value // first cell of a backing array -> cloned full array
}

func newCloner() *cloner {
	return &cloner{cells: map[*value]*value{}, maps: map[*MapV]*MapV{}, backs: map[*value][]value{}}
}

func (c *cloner) cell(p *value) *value {
	if p == nil {
		return nil
	}
	if q, ok := c.cells[p]; ok {
		return q
	}
	q := new(value)
	c.cells[p] = q
	*q = c.val(*p)
	return q
}

func (c *cloner) val(v value) value {
	switch v := v.(type) {
	case structure:
		out := make(structure, len(v))
		for i := range v {
			// interior pointers (&s[i]) may exist: register the mapping cell by cell
			c.cells[&v[i]] = &out[i]
		}
		for i := range v {
			out[i] = c.val(v[i])
		}
		return out
	case array:
		out := make(array, len(v))
		for i := range v {
			c.cells[&v[i]] = &out[i]
		}
		for i := range v {
			out[i] = c.val(v[i])
		}
		return out
	case tuple:
		out := make(tuple, len(v))
		for i := range v {
			out[i] = c.val(v[i])
		}
		return out
	case []value:
		if v == nil {
			return []value(nil)
		}
		full := v[:cap(v)]
		if len(full) == 0 {
			return make([]value, 0)
		}
		// slices into the same backing array starting at different offsets are not re-joined
		// (initialisers in the repo do not create such aliases); same start => shared clone.
		if back, ok := c.backs[&full[0]]; ok && len(back) >= len(full) {
			return back[:len(v):len(full)]
		}
		out := make([]value, len(full))
		c.backs[&full[0]] = out
		for i := range full {
			c.cells[&full[i]] = &out[i]
		}
		for i := range full {
			out[i] = c.val(full[i])
		}
		return out[:len(v)]
	case *value:
		return c.cell(v)
	case iface:
		return iface{t: v.t, v: c.val(v.v)}
	case *MapV:
		if v == nil {
			return (*MapV)(nil)
		}
		if m, ok := c.maps[v]; ok {
			return m
		}
		m := &MapV{keyT: v.keyT}
		c.maps[v] = m
		for _, e := range v.entries {
			m.entries = append(m.entries, &mapEntry{k: c.val(e.k), v: c.val(e.v), deleted: e.deleted})
		}
		return m
	case *closure:
		if v == nil {
			return v
		}
		out := &closure{Fn: v.Fn, Env: make([]value, len(v.Env))}
		for i := range v.Env {
			out.Env[i] = c.val(v.Env[i])
		}
		return out
	}
	// terms, strings, errors, regex objects, time values, big values: immutable
	return v
}
