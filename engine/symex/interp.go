package symex

import (
	"fmt"
	"go/token"
	"go/types"
	"runtime"
	"strings"

	"gosmt/smt"

	"golang.org/x/tools/go/ssa"
)

type frame struct {
	ex        *Exec
	caller    *frame
	fn        *ssa.Function
	block     *ssa.BasicBlock
	prevBlock *ssa.BasicBlock
	env       map[ssa.Value]value
	locals    []value
	result    value
	visits    map[*ssa.BasicBlock]int
	lastFork  map[*ssa.BasicBlock]int
	callPos   token.Pos
	phiOverride map[*ssa.Phi]value
	defers    []deferredCall // calls registered by defer statements, run in reverse order at RunDefers
}

// deferredCall is a call registered by a defer statement: function value and arguments are fixed at the statement.
type deferredCall struct {
	fn   value
	args []value
	pos  token.Pos
}

func (fr *frame) get(key ssa.Value) value {
	switch key := key.(type) {
	case nil:
		return nil
	case *ssa.Function:
		return key
	case *ssa.Builtin:
		return key
	case *ssa.Const:
		return fr.ex.constValue(key)
	case *ssa.Global:
		return fr.ex.globalAddr(key)
	}
	if r, ok := fr.env[key]; ok {
		return r
	}
	panic(fmt.Sprintf("get: no value for %T: %v in %s", key, key.Name(), fr.fn))
}

func (ex *Exec) constValue(c *ssa.Const) value {
	if c.Value == nil {
		return ex.zero(c.Type())
	}
	t := c.Type()
	if tp, ok := t.(*types.TypeParam); ok {
		_ = tp
		panic(ex.unsupported("const of type parameter type"))
	}
	if bt, ok := t.Underlying().(*types.Basic); ok {
		switch {
		case bt.Info()&types.IsBoolean != 0:
			return ex.b.Bool(constantBool(c))
		case bt.Info()&types.IsInteger != 0:
			return ex.b.Int(constantBig(c))
		case bt.Info()&types.IsString != 0:
			return ex.strConst(constantString(c))
		case bt.Info()&types.IsFloat != 0:
			return ex.fpConst(c.Float64())
		}
	}
	panic(ex.unsupported("const of type " + t.String()))
}

// globalAddr returns the cell of a package-level variable, running the package's
// initialiser on first touch.
func (ex *Exec) globalAddr(g *ssa.Global) *value {
	if cell, ok := ex.globals[g]; ok {
		return cell
	}
	if g.Pkg != nil {
		ex.ensureInit(g.Pkg)
		if cell, ok := ex.globals[g]; ok {
			return cell
		}
	}
	if mv, ok := ex.modelGlobal(g); ok {
		cell := new(value)
		*cell = mv
		ex.globals[g] = cell
		return cell
	}
	cell := new(value)
	if g.Pkg != nil && !ex.P.isExecuted(g.Pkg.Pkg.Path()) {
		*cell = opaqueV{"global " + g.String()}
	} else {
		*cell = ex.zero(deref(g.Type()))
	}
	ex.globals[g] = cell
	return cell
}

func deref(t types.Type) types.Type {
	if p, ok := t.Underlying().(*types.Pointer); ok {
		return p.Elem()
	}
	return t
}

// ensureInit runs pkg's init function once per path (repo packages only).
func (ex *Exec) ensureInit(pkg *ssa.Package) {
	if pkg == nil || ex.inited[pkg] {
		return
	}
	ex.inited[pkg] = true
	if !ex.P.isExecuted(pkg.Pkg.Path()) {
		return
	}
	if ex.P.skipInit(pkg.Pkg.Path()) {
		return
	}
	for _, m := range pkg.Members {
		if g, ok := m.(*ssa.Global); ok {
			if _, has := ex.globals[g]; !has {
				cell := new(value)
				*cell = ex.zero(deref(g.Type()))
				ex.globals[g] = cell
			}
		}
	}
	init := pkg.Func("init")
	if init == nil {
		return
	}
	savedNo := ex.lim.NoPanicCheck
	ex.lim.NoPanicCheck = true
	ex.inInit++
	ex.callSSA(nil, token.NoPos, init, nil, nil)
	ex.inInit--
	// modelled globals keep their model value whatever the initialiser computed
	for _, m := range pkg.Members {
		if g, ok := m.(*ssa.Global); ok {
			if mv, has := ex.modelGlobal(g); has {
				cell := new(value)
				*cell = mv
				ex.globals[g] = cell
			}
		}
	}
	ex.lim.NoPanicCheck = savedNo
}

// ---- calls ----

func (ex *Exec) callValue(caller *frame, pos token.Pos, fn value, args []value) value {
	switch fn := fn.(type) {
	case *ssa.Function:
		if fn == nil {
			ex.oblige("nil", "call of nil func", caller, pos, ex.b.False)
		}
		return ex.callFn(caller, pos, fn, args)
	case *closure:
		return ex.callSSA(caller, pos, fn.Fn, args, fn.Env)
	case *ssa.Builtin:
		return ex.callBuiltin(caller, pos, fn, args)
	case *modelClosure:
		return fn.f(ex, caller, pos, args)
	case nil:
		ex.oblige("nil", "call of nil func", caller, pos, ex.b.False)
	case opaqueV:
		panic(ex.unsupported("call of opaque function value: " + fn.why))
	}
	panic(fmt.Sprintf("cannot call %T", fn))
}

type modelClosure struct {
	name string
	f    func(ex *Exec, caller *frame, pos token.Pos, args []value) value
}

func (ex *Exec) callFn(caller *frame, pos token.Pos, fn *ssa.Function, args []value) value {
	if fn.Pkg != nil && fn.Name() == "init" && fn == fn.Pkg.Func("init") {
		ex.ensureInit(fn.Pkg)
		return nil
	}
	name := fn.String()
	if o := fn.Origin(); o != nil {
		name = o.String()
	}
	if fn.Name() == "ProtoReflect" && fn.Signature.Recv() != nil && len(args) == 1 {
		ex.Models["protoreflect(model).ProtoReflect"]++
		return ex.protoReflectCall(fn.Signature.Recv().Type(), args[0])
	}
	if m, ok := models[name]; ok {
		ex.Models[name]++
		ex.curFrame = caller
		return m(ex, caller, pos, args)
	}
	if fn.Pkg != nil && fn.Pkg.Pkg.Path() == ex.P.RTPath {
		return ex.callIntrinsic(caller, pos, fn, args)
	}
	pkgPath := ""
	if p := fnPackage(fn); p != nil {
		pkgPath = p.Path()
	}
	if fn.Blocks == nil || !(ex.P.isExecuted(pkgPath) || execAllow[name] || ex.P.execPrefix(name)) {
		if name == "init" || strings.HasSuffix(name, ".init") {
			return nil // external package initialiser: not run
		}
		if ex.inInit > 0 {
			// package initialisers may call anything; the result is opaque and only fails if used
			n := fn.Signature.Results().Len()
			if n <= 1 {
				return opaqueV{"init-time result of " + name}
			}
			t := make(tuple, n)
			for i := range t {
				t[i] = opaqueV{"init-time result of " + name}
			}
			return t
		}
		if v, ok := ex.generatedGetter(fn, pkgPath, args); ok {
			ex.Models["protoc-gen-go getter (model)"]++
			return v
		}
		panic(ex.unsupported("call to unmodelled " + name + ex.stackOf(caller)))
	}
	return ex.callSSA(caller, pos, fn, args, nil)
}

func fnPackage(fn *ssa.Function) *types.Package {
	if fn.Pkg != nil {
		return fn.Pkg.Pkg
	}
	if o := fn.Origin(); o != nil && o.Pkg != nil {
		return o.Pkg.Pkg
	}
	if fn.Object() != nil {
		return fn.Object().Pkg()
	}
	if p := fn.Parent(); p != nil {
		return fnPackage(p)
	}
	// synthetic wrapper/bound/thunk: use the receiver's package
	if fn.Signature.Recv() != nil {
		t := fn.Signature.Recv().Type()
		if pt, ok := t.(*types.Pointer); ok {
			t = pt.Elem()
		}
		if n, ok := t.(*types.Named); ok && n.Obj() != nil {
			return n.Obj().Pkg()
		}
	}
	return nil
}

func (ex *Exec) callSSA(caller *frame, pos token.Pos, fn *ssa.Function, args []value, env []value) value {
	if fn.Blocks == nil {
		panic(ex.unsupported("no body for " + fn.String()))
	}
	if fn.TypeParams().Len() > 0 && len(fn.TypeArgs()) == 0 {
		panic(ex.unsupported("uninstantiated generic " + fn.String()))
	}
	ex.depth++
	if ex.depth > ex.lim.MaxDepth {
		panic(pathEnd{kind: "depth", msg: fn.String()})
	}
	if ex.inInit == 0 {
		ex.Funcs[fn.String()]++
	}
	fr := &frame{ex: ex, caller: caller, fn: fn, env: make(map[ssa.Value]value), visits: map[*ssa.BasicBlock]int{}, callPos: pos}
	ex.curFrame = fr
	defer func() { ex.curFrame = caller }()
	fr.block = fn.Blocks[0]
	fr.locals = make([]value, len(fn.Locals))
	for i, l := range fn.Locals {
		fr.locals[i] = ex.zero(deref(l.Type()))
		fr.env[l] = &fr.locals[i]
	}
	for i, p := range fn.Params {
		fr.env[p] = args[i]
	}
	for i, fv := range fn.FreeVars {
		fr.env[fv] = env[i]
	}
	for fr.block != nil {
		ex.runBlock(fr)
	}
	ex.depth--
	return fr.result
}

func (ex *Exec) runBlock(fr *frame) {
	blk := fr.block
	// only iterations that involved a symbolic decision count against the unwinding bound:
	// loops under concrete control run as in the real program (bounded by the step budget)
	if len(blk.Preds) > 1 {
		if fr.lastFork == nil {
			fr.lastFork = map[*ssa.BasicBlock]int{}
		}
		if last, seen := fr.lastFork[blk]; !seen || last != ex.forkSeq {
			fr.visits[blk]++
		}
		fr.lastFork[blk] = ex.forkSeq
	}
	if fr.visits[blk] > ex.lim.Unwind+1 && len(blk.Preds) > 1 && ex.inInit == 0 {
		panic(pathEnd{kind: "unwind", msg: fmt.Sprintf("%s block %d (%s)", fr.fn, blk.Index, ex.posOf(firstPos(blk)))})
	}
	// phis
	i := 0
	if len(blk.Instrs) > 0 {
		if _, ok := blk.Instrs[0].(*ssa.Phi); ok {
			predIndex := -1
			for k, p := range blk.Preds {
				if p == fr.prevBlock {
					predIndex = k
					break
				}
			}
			var tmp []value
			over := fr.phiOverride
			fr.phiOverride = nil
			for ; i < len(blk.Instrs); i++ {
				phi, ok := blk.Instrs[i].(*ssa.Phi)
				if !ok {
					break
				}
				if ov, has := over[phi]; has {
					tmp = append(tmp, ov)
					continue
				}
				tmp = append(tmp, fr.get(phi.Edges[predIndex]))
			}
			for k := 0; k < i; k++ {
				fr.env[blk.Instrs[k].(*ssa.Phi)] = tmp[k]
			}
		}
	}
	for ; i < len(blk.Instrs); i++ {
		ex.steps++
		if ex.steps > ex.lim.MaxSteps {
			panic(pathEnd{kind: "budget", msg: "step budget in " + fr.fn.String()})
		}
		if ex.TraceInstr && ex.inInit == 0 {
			in := blk.Instrs[i]
			if v, ok := in.(ssa.Value); ok {
				fmt.Printf("      %s: %s = %s\n", fr.fn.Name(), v.Name(), in)
			} else {
				fmt.Printf("      %s: %s\n", fr.fn.Name(), in)
			}
		}
		if ex.inInit > 0 {
			if ex.visitInstrTolerant(fr, blk.Instrs[i]) {
				return
			}
			continue
		}
		if ex.visitInstr(fr, blk.Instrs[i]) {
			return
		}
	}
}

func firstPos(b *ssa.BasicBlock) token.Pos {
	for _, in := range b.Instrs {
		if in.Pos() != token.NoPos {
			return in.Pos()
		}
	}
	return token.NoPos
}

// visitInstr executes one instruction; returns true when control left the block.
func (ex *Exec) visitInstr(fr *frame, instr ssa.Instruction) bool {
	b := ex.b
	switch instr := instr.(type) {
	case *ssa.DebugRef:

	case *ssa.UnOp:
		fr.env[instr] = ex.unop(fr, instr, fr.get(instr.X))

	case *ssa.BinOp:
		fr.env[instr] = ex.binop(fr, instr.Pos(), instr.Op, instr.X.Type(), fr.get(instr.X), fr.get(instr.Y))

	case *ssa.Call:
		fn, args := ex.prepareCall(fr, instr.Pos(), &instr.Call)
		fr.env[instr] = ex.callValue(fr, instr.Pos(), fn, args)

	case *ssa.ChangeInterface:
		fr.env[instr] = fr.get(instr.X)

	case *ssa.ChangeType:
		fr.env[instr] = fr.get(instr.X)

	case *ssa.Convert:
		fr.env[instr] = ex.conv(fr, instr.Pos(), instr.Type(), instr.X.Type(), fr.get(instr.X))

	case *ssa.MultiConvert:
		fr.env[instr] = ex.conv(fr, instr.Pos(), instr.Type(), instr.X.Type(), fr.get(instr.X))

	case *ssa.SliceToArrayPointer:
		panic(ex.unsupported("SliceToArrayPointer"))

	case *ssa.MakeInterface:
		fr.env[instr] = iface{t: instr.X.Type(), v: fr.get(instr.X)}

	case *ssa.Extract:
		fr.env[instr] = fr.get(instr.Tuple).(tuple)[instr.Index]

	case *ssa.Slice:
		fr.env[instr] = ex.sliceOp(fr, instr)

	case *ssa.Return:
		switch len(instr.Results) {
		case 0:
		case 1:
			fr.result = fr.get(instr.Results[0])
		default:
			res := make(tuple, len(instr.Results))
			for i, r := range instr.Results {
				res[i] = fr.get(r)
			}
			fr.result = res
		}
		fr.block = nil
		return true

	case *ssa.RunDefers:
		// normal return: the deferred calls run last-in first-out (a path that ends in a panic obligation ends
		// there; recover() is not modelled)
		for i := len(fr.defers) - 1; i >= 0; i-- {
			d := fr.defers[i]
			ex.callValue(fr, d.pos, d.fn, d.args)
		}
		fr.defers = nil

	case *ssa.Panic:
		x := fr.get(instr.X)
		ex.oblige("panic", "explicit panic: "+ex.describe(x), fr, instr.Pos(), b.False)

	case *ssa.Store:
		addr := fr.get(instr.Addr)
		p, ok := addr.(*value)
		if !ok {
			panic(ex.unsupported(fmt.Sprintf("store through %T", addr)))
		}
		if p == nil {
			ex.oblige("nil", "store through nil pointer", fr, instr.Pos(), b.False)
		}
		ex.checkWriteVal(fr, instr.Pos(), p, fr.get(instr.Val))
		*p = copyVal(fr.get(instr.Val))

	case *ssa.If:
		c := fr.get(instr.Cond).(*smt.Term)
		if !c.IsConst() && !ex.NoIfConv && ex.tryIfConvert(fr, c) {
			return true
		}
		succ := 1
		if ex.branch("if", c) {
			succ = 0
		}
		fr.prevBlock, fr.block = fr.block, fr.block.Succs[succ]
		return true

	case *ssa.Jump:
		fr.prevBlock, fr.block = fr.block, fr.block.Succs[0]
		return true

	case *ssa.Defer:
		fn, args := ex.prepareCall(fr, instr.Pos(), &instr.Call)
		fr.defers = append(fr.defers, deferredCall{fn: fn, args: args, pos: instr.Pos()})

	case *ssa.Go:
		panic(ex.unsupported("go statement"))

	case *ssa.MakeChan, *ssa.Send, *ssa.Select:
		panic(ex.unsupported("channel operation"))

	case *ssa.Alloc:
		var addr *value
		if instr.Heap {
			addr = new(value)
			fr.env[instr] = addr
		} else {
			addr = fr.env[instr].(*value)
		}
		*addr = ex.zero(deref(instr.Type()))

	case *ssa.MakeSlice:
		ln := fr.get(instr.Len).(*smt.Term)
		cp := fr.get(instr.Cap).(*smt.Term)
		ex.oblige("makeslice", "len out of range", fr, instr.Pos(), b.And(b.Le(b.I64(0), ln), b.Le(ln, cp)))
		c := ex.concretize("makeslice-cap", cp, 0, 1<<16)
		l := ex.concretize("makeslice-len", ln, 0, c)
		s := make([]value, c)
		tElt := instr.Type().Underlying().(*types.Slice).Elem()
		for i := range s {
			s[i] = ex.zero(tElt)
		}
		fr.env[instr] = s[:l]

	case *ssa.MakeMap:
		fr.env[instr] = &MapV{keyT: instr.Type().Underlying().(*types.Map).Key()}

	case *ssa.Range:
		fr.env[instr] = ex.rangeIter(fr, instr, fr.get(instr.X))

	case *ssa.Next:
		fr.env[instr] = fr.get(instr.Iter).(iterator).next(ex, fr, instr)

	case *ssa.FieldAddr:
		x := fr.get(instr.X)
		p, ok := x.(*value)
		if !ok {
			panic(ex.unsupported(fmt.Sprintf("FieldAddr on %T", x)))
		}
		if p == nil {
			ex.oblige("nil", "field access through nil pointer", fr, instr.Pos(), b.False)
		}
		st, ok := (*p).(structure)
		if !ok {
			panic(ex.unsupported(fmt.Sprintf("FieldAddr: pointee is %T (%s)", *p, instr.X.Type())))
		}
		fr.env[instr] = &st[instr.Field]

	case *ssa.Field:
		x := fr.get(instr.X)
		st, ok := x.(structure)
		if !ok {
			panic(ex.unsupported(fmt.Sprintf("Field on %T (%s)", x, instr.X.Type())))
		}
		fr.env[instr] = st[instr.Field]

	case *ssa.IndexAddr:
		x := fr.get(instr.X)
		idx := fr.get(instr.Index).(*smt.Term)
		switch x := x.(type) {
		case []value:
			i := ex.boundedIndex(fr, instr.Pos(), idx, len(x))
			fr.env[instr] = &x[i]
		case *value:
			if x == nil {
				ex.oblige("nil", "index through nil array pointer", fr, instr.Pos(), b.False)
			}
			a := ex.asArray(fr, *x)
			if c := ex.tableLookup(fr, instr, idx, a); c != nil {
				fr.env[instr] = c
				break
			}
			i := ex.boundedIndex(fr, instr.Pos(), idx, len(a))
			fr.env[instr] = &a[i]
		default:
			panic(ex.unsupported(fmt.Sprintf("IndexAddr on %T", x)))
		}

	case *ssa.Index:
		x := fr.get(instr.X)
		idx := fr.get(instr.Index).(*smt.Term)
		switch x := x.(type) {
		case array:
			i := ex.boundedIndex(fr, instr.Pos(), idx, len(x))
			fr.env[instr] = x[i]
		case *Str:
			fr.env[instr] = ex.strIndex(fr, instr.Pos(), x, idx)
		default:
			panic(ex.unsupported(fmt.Sprintf("Index on %T", x)))
		}

	case *ssa.Lookup:
		x := fr.get(instr.X)
		switch x := x.(type) {
		case *Str:
			fr.env[instr] = ex.strIndex(fr, instr.Pos(), x, fr.get(instr.Index).(*smt.Term))
		case *MapV:
			fr.env[instr] = ex.mapLookup(fr, instr, x, fr.get(instr.Index))
		default:
			panic(ex.unsupported(fmt.Sprintf("Lookup on %T", x)))
		}

	case *ssa.MapUpdate:
		m, ok := fr.get(instr.Map).(*MapV)
		if !ok {
			panic(ex.unsupported(fmt.Sprintf("MapUpdate on %T", fr.get(instr.Map))))
		}
		if m == nil {
			ex.oblige("nil", "assignment to entry in nil map", fr, instr.Pos(), b.False)
		}
		ex.mapUpdate(fr, instr.Pos(), m, fr.get(instr.Key), fr.get(instr.Value))

	case *ssa.TypeAssert:
		fr.env[instr] = ex.typeAssert(fr, instr, fr.get(instr.X))

	case *ssa.MakeClosure:
		var bindings []value
		for _, binding := range instr.Bindings {
			bindings = append(bindings, fr.get(binding))
		}
		fr.env[instr] = &closure{instr.Fn.(*ssa.Function), bindings}

	case *ssa.Phi:
		panic("unreachable phi")

	default:
		panic(ex.unsupported(fmt.Sprintf("instruction %T", instr)))
	}
	return false
}

// boundedIndex emits the bounds obligation and case-splits a symbolic index.
// tableLookup reads a table of constants (asciiSpace[c], a lookup table of a library) at a symbolic index without
// forking on the index: when the address is only ever loaded from, it may point at a fresh cell that holds the
// selected element as one term. nil = not applicable.
func (ex *Exec) tableLookup(fr *frame, instr *ssa.IndexAddr, idx *smt.Term, a []value) *value {
	if _, isConst := idx.ConstInt(); isConst || len(a) <= 16 || len(a) > 1024 {
		return nil
	}
	refs := instr.Referrers()
	if refs == nil || len(*refs) == 0 {
		return nil
	}
	for _, r := range *refs {
		if u, ok := r.(*ssa.UnOp); !ok || u.Op != token.MUL {
			return nil
		}
	}
	groups := map[string][]int{}
	rep := map[string]*smt.Term{}
	var order []string
	for i, e := range a {
		t, ok := e.(*smt.Term)
		if !ok {
			return nil
		}
		var key string
		if c, ok := t.ConstInt(); ok {
			key = "i" + c.String()
		} else if cb, ok := t.ConstBool(); ok {
			key = fmt.Sprint("b", cb)
		} else {
			return nil
		}
		if _, seen := groups[key]; !seen {
			order = append(order, key)
			rep[key] = t
		}
		groups[key] = append(groups[key], i)
	}
	if len(order) > 64 {
		return nil
	}
	b := ex.b
	ex.oblige("bounds", "index out of range", fr, instr.Pos(), b.And(b.Le(b.I64(0), idx), b.Lt(idx, b.I64(int64(len(a))))))
	// the most frequent value is the default of the chain
	def := order[0]
	for _, k := range order {
		if len(groups[k]) > len(groups[def]) {
			def = k
		}
	}
	acc := rep[def]
	for _, k := range order {
		if k == def {
			continue
		}
		var any []*smt.Term
		for _, i := range groups[k] {
			any = append(any, b.Eq(idx, b.I64(int64(i))))
		}
		acc = b.Ite(b.Or(any...), rep[k], acc)
	}
	cell := new(value)
	*cell = acc
	return cell
}

func (ex *Exec) boundedIndex(fr *frame, pos token.Pos, idx *smt.Term, n int) int {
	b := ex.b
	ex.oblige("bounds", "index out of range", fr, pos, b.And(b.Le(b.I64(0), idx), b.Lt(idx, b.I64(int64(n)))))
	return int(ex.concretize("index", idx, 0, int64(n)-1))
}

func (ex *Exec) prepareCall(fr *frame, pos token.Pos, call *ssa.CallCommon) (fn value, args []value) {
	v := fr.get(call.Value)
	if call.Method == nil {
		fn = v
	} else {
		recv, ok := v.(iface)
		if !ok {
			panic(ex.unsupported(fmt.Sprintf("invoke on %T", v)))
		}
		if recv.t == nil {
			ex.oblige("nil", "method "+call.Method.Name()+" invoked on nil interface", fr, pos, ex.b.False)
		}
		if mm := ex.modelMethod(recv, call.Method); mm != nil {
			fn = mm
		} else {
			f := ex.P.Prog.LookupMethod(recv.t, call.Method.Pkg(), call.Method.Name())
			if f == nil {
				panic(ex.unsupported(fmt.Sprintf("no method %s on %s", call.Method.Name(), recv.t)))
			}
			fn = f
		}
		args = append(args, recv.v)
	}
	for _, arg := range call.Args {
		args = append(args, fr.get(arg))
	}
	return
}

func (ex *Exec) typeAssert(fr *frame, instr *ssa.TypeAssert, x value) value {
	itf, ok := x.(iface)
	if !ok {
		panic(ex.unsupported(fmt.Sprintf("typeassert on %T", x)))
	}
	var v value
	okb := false
	if itf.t != nil {
		if it, isI := instr.AssertedType.Underlying().(*types.Interface); isI {
			if ex.implements(itf.t, it) {
				v, okb = itf, true
			}
		} else if typesIdentical(itf.t, instr.AssertedType) {
			v, okb = itf.v, true
		}
	}
	if instr.CommaOk {
		if !okb {
			v = ex.zero(instr.AssertedType)
		}
		return tuple{v, ex.b.Bool(okb)}
	}
	if !okb {
		ex.oblige("typeassert", fmt.Sprintf("interface conversion: %v is not %v", itf.t, instr.AssertedType), fr, instr.Pos(), ex.b.False)
	}
	return v
}

func (ex *Exec) implements(t types.Type, it *types.Interface) bool {
	if ft, ok := t.(*fakeType); ok {
		return ft.implements(it)
	}
	return types.Implements(t, it)
}

// checkWriteVal: as checkWrite, but a store of the value the cell already holds is not a mutation
// (it is unobservable, and an in-place filter that keeps everything does exactly that).
func (ex *Exec) checkWriteVal(fr *frame, pos token.Pos, p *value, nv value) {
	why, ok := ex.protected[p]
	if !ok || ex.inInit > 0 {
		return
	}
	same := ex.b.False
	func() {
		defer func() {
			if r := recover(); r != nil {
				if _, isPE := r.(pathEnd); !isPE {
					panic(r)
				}
			}
		}()
		same = ex.sameStored(*p, nv)
	}()
	ex.oblige("frame", "write to protected "+why, fr, pos, same)
}

// sameStored: is storing nv over old unobservable?
func (ex *Exec) sameStored(old, nv value) *smt.Term {
	switch o := old.(type) {
	case *smt.Term:
		if n, ok := nv.(*smt.Term); ok && n.Sort == o.Sort && o.Sort != smt.SFP {
			return ex.b.Eq(o, n)
		}
	case *Str:
		if n, ok := nv.(*Str); ok && !o.opaque && !n.opaque {
			return ex.strEq(o, n)
		}
	case *value:
		n, ok := nv.(*value)
		return ex.b.Bool(ok && n == o)
	case iface:
		n, ok := nv.(iface)
		if !ok {
			return ex.b.False
		}
		if o.t == nil || n.t == nil {
			return ex.b.Bool(o.t == nil && n.t == nil)
		}
		if !typesIdentical(o.t, n.t) {
			return ex.b.False
		}
		return ex.sameStored(o.v, n.v)
	}
	return ex.b.False
}

// checkWrite poses the frame obligation for a store into a protected cell.
func (ex *Exec) checkWrite(fr *frame, pos token.Pos, p *value) {
	if why, ok := ex.protected[p]; ok && ex.inInit == 0 {
		ex.oblige("frame", "write to protected "+why, fr, pos, ex.b.False)
	}
}

func (ex *Exec) protectDeep(p *value, why string, seen map[*value]bool) {
	if p == nil || seen[p] {
		return
	}
	seen[p] = true
	ex.protected[p] = why
	ex.protectVal(*p, why, seen)
}

func (ex *Exec) protectVal(v value, why string, seen map[*value]bool) {
	switch v := v.(type) {
	case structure:
		for i := range v {
			ex.protectDeep(&v[i], why, seen)
		}
	case array:
		for i := range v {
			ex.protectDeep(&v[i], why, seen)
		}
	case []value:
		full := v[:cap(v)]
		for i := range full {
			ex.protectDeep(&full[i], why, seen)
		}
	case *value:
		ex.protectDeep(v, why, seen)
	case iface:
		ex.protectVal(v.v, why, seen)
	case *MapV:
		if v != nil {
			ex.protectedMaps[v] = why
			for _, e := range v.entries {
				ex.protectVal(e.v, why, seen)
			}
		}
	case *closure:
		for _, e := range v.Env {
			ex.protectVal(e, why, seen)
		}
	}
}

func (ex *Exec) stackOf(fr *frame) string {
	s := ""
	for i := 0; fr != nil && i < 4; i, fr = i+1, fr.caller {
		s += " < " + fr.fn.String()
	}
	return s
}

func (ex *Exec) asArray(fr *frame, v value) array {
	a, ok := v.(array)
	if !ok {
		panic(ex.unsupported(fmt.Sprintf("array operation on %T%s", v, ex.stackOf(fr))))
	}
	return a
}

// visitInstrTolerant runs one instruction of a package initialiser: an operation on a value
// that could not be computed (result of an unmodelled call) yields another opaque value instead
// of stopping the initialiser; it only matters if a harness path later uses that value.
func (ex *Exec) visitInstrTolerant(fr *frame, in ssa.Instruction) (left bool) {
	defer func() {
		if r := recover(); r != nil {
			pe, ok := r.(pathEnd)
			if !ok || pe.kind != "unsupported" {
				if re, isRE := r.(runtime.Error); !isRE || !strings.Contains(re.Error(), "symex.opaqueV") {
					panic(r)
				}
			}
			if v, isVal := in.(ssa.Value); isVal {
				if _, isIf := in.(*ssa.If); !isIf {
					fr.env[v] = opaqueV{"init-time: " + pe.msg}
					left = false
					return
				}
			}
			switch in.(type) {
			case *ssa.Store, *ssa.MapUpdate, *ssa.DebugRef:
				left = false
				return
			}
			panic(r)
		}
	}()
	return ex.visitInstr(fr, in)
}

// generatedGetter models the protoc-gen-go getter (*M).GetF() of a google/fhir message whose package is loaded
// without bodies (the 146 resource packages): nil-safe read of the struct field F. Getters of oneof members, which
// look through the wrapper type, are not modelled.
func (ex *Exec) generatedGetter(fn *ssa.Function, pkgPath string, args []value) (value, bool) {
	if !strings.HasPrefix(pkgPath, "github.com/google/fhir/go/proto/") || !strings.HasPrefix(fn.Name(), "Get") || len(args) != 1 || fn.Signature.Recv() == nil || fn.Signature.Results().Len() != 1 {
		return nil, false
	}
	named := protoStructOf(fn.Signature.Recv().Type())
	if named == nil {
		return nil, false
	}
	st, ok := named.Underlying().(*types.Struct)
	if !ok {
		return nil, false
	}
	want := fn.Name()[3:]
	for i := 0; i < st.NumFields(); i++ {
		f := st.Field(i)
		if f.Name() != want || !types.Identical(f.Type(), fn.Signature.Results().At(0).Type()) {
			continue
		}
		p, _ := args[0].(*value)
		if p == nil {
			return ex.zero(f.Type()), true
		}
		return (*p).(structure)[i], true
	}
	return nil, false
}
