package symex

import (
	"fmt"
	"math/big"
	"strings"
	"unicode"

	"gosmt/smt"
)

// Known-finding predicates are written over the harness's draw labels:
//
//	expr := or ;  or := and { "||" and } ;  and := cmp { "&&" cmp }
//	cmp  := sum [ ("=="|"!="|"<"|"<="|">"|">=") sum ]
//	sum  := atom { ("+"|"-") atom }
//	atom := int | label | label "[" int "]" | "len(" label ")" | "(" expr ")" | "!" atom | "true" | "false"
//
// A label names the first draw with that label on the current path; a label that does not occur
// on the path makes the whole predicate false (the finding does not apply there).
type predParser struct {
	ex      *Exec
	toks    []string
	i       int
	missing bool
}

func tokenizePred(s string) []string {
	var out []string
	for i := 0; i < len(s); {
		c := s[i]
		switch {
		case c == ' ' || c == '\t':
			i++
		case strings.HasPrefix(s[i:], "&&") || strings.HasPrefix(s[i:], "||") || strings.HasPrefix(s[i:], "==") ||
			strings.HasPrefix(s[i:], "!=") || strings.HasPrefix(s[i:], "<=") || strings.HasPrefix(s[i:], ">="):
			out = append(out, s[i:i+2])
			i += 2
		case c == '"':
			j := i + 1
			for j < len(s) && s[j] != '"' {
				j++
			}
			out = append(out, s[i:j+1])
			i = j + 1
		case strings.ContainsRune("()[]<>!+-@", rune(c)):
			out = append(out, string(c))
			i++
		case unicode.IsDigit(rune(c)):
			j := i
			for j < len(s) && unicode.IsDigit(rune(s[j])) {
				j++
			}
			out = append(out, s[i:j])
			i = j
		default:
			j := i
			for j < len(s) && (unicode.IsLetter(rune(s[j])) || unicode.IsDigit(rune(s[j])) || s[j] == '_' || s[j] == '.') {
				j++
			}
			if j == i {
				j = i + 1
			}
			out = append(out, s[i:j])
			i = j
		}
	}
	return out
}

func (ex *Exec) parsePred(src string) (*smt.Term, error) {
	p := &predParser{ex: ex, toks: tokenizePred(src)}
	var t *smt.Term
	var err error
	func() {
		defer func() {
			if r := recover(); r != nil {
				if e, ok := r.(error); ok {
					err = e
					return
				}
				panic(r)
			}
		}()
		t = p.or()
		if p.i != len(p.toks) {
			panic(fmt.Errorf("predicate: trailing tokens in %q", src))
		}
	}()
	if err != nil {
		return nil, err
	}
	if p.missing {
		return ex.b.False, nil
	}
	if t.Sort != smt.SBool {
		return nil, fmt.Errorf("predicate %q is not Boolean", src)
	}
	return t, nil
}

func (p *predParser) peek() string {
	if p.i < len(p.toks) {
		return p.toks[p.i]
	}
	return ""
}
func (p *predParser) next() string { t := p.peek(); p.i++; return t }
func (p *predParser) expect(t string) {
	if p.next() != t {
		panic(fmt.Errorf("predicate: expected %q", t))
	}
}

func (p *predParser) or() *smt.Term {
	t := p.and()
	for p.peek() == "||" {
		p.next()
		t = p.ex.b.Or(t, p.and())
	}
	return t
}
func (p *predParser) and() *smt.Term {
	t := p.cmp()
	for p.peek() == "&&" {
		p.next()
		t = p.ex.b.And(t, p.cmp())
	}
	return t
}
func (p *predParser) cmp() *smt.Term {
	b := p.ex.b
	// tag comparison: label == "text" / label != "text"
	if p.i+2 < len(p.toks)+0 && p.i+2 <= len(p.toks)-1 && strings.HasPrefix(p.toks[p.i+2], "\"") && (p.toks[p.i+1] == "==" || p.toks[p.i+1] == "!=") {
		label, op, lit := p.toks[p.i], p.toks[p.i+1], strings.Trim(p.toks[p.i+2], "\"")
		p.i += 3
		d := p.findDraw(label)
		if d == nil || d.Op != "tag" {
			p.missing = true
			return b.False
		}
		same := fmt.Sprint(d.V) == lit
		if op == "!=" {
			same = !same
		}
		return b.Bool(same)
	}
	x := p.sum()
	switch p.peek() {
	case "==", "!=", "<", "<=", ">", ">=":
		op := p.next()
		y := p.sum()
		if x.Sort != y.Sort {
			panic(fmt.Errorf("predicate: sort mismatch around %s", op))
		}
		switch op {
		case "==":
			return b.Eq(x, y)
		case "!=":
			return b.Ne(x, y)
		case "<":
			return b.Lt(x, y)
		case "<=":
			return b.Le(x, y)
		case ">":
			return b.Gt(x, y)
		default:
			return b.Ge(x, y)
		}
	}
	return x
}
func (p *predParser) sum() *smt.Term {
	x := p.atom()
	for p.peek() == "+" || p.peek() == "-" {
		if p.next() == "+" {
			x = p.ex.b.Add(x, p.atom())
		} else {
			x = p.ex.b.Sub(x, p.atom())
		}
	}
	return x
}

func (p *predParser) findDraw(label string) *Draw {
	// label@k names the (k+1)-th draw with that label
	k := 0
	if p.peek() == "@" {
		p.next()
		fmt.Sscanf(p.next(), "%d", &k)
	}
	for i := range p.ex.draws {
		if p.ex.draws[i].Label == label {
			if k == 0 {
				return &p.ex.draws[i]
			}
			k--
		}
	}
	p.missing = true
	return nil
}

func (p *predParser) atom() *smt.Term {
	b := p.ex.b
	t := p.next()
	switch {
	case t == "(":
		x := p.or()
		p.expect(")")
		return x
	case t == "!":
		return b.Not(p.atom())
	case t == "-":
		return b.Neg(p.atom())
	case t == "true":
		return b.True
	case t == "false":
		return b.False
	case t == "len":
		p.expect("(")
		d := p.findDraw(p.next())
		p.expect(")")
		if d == nil {
			return b.I64(0)
		}
		return b.I64(int64(len(d.vars)))
	case t != "" && unicode.IsDigit(rune(t[0])):
		v, _ := new(big.Int).SetString(t, 10)
		return b.Int(v)
	case t == "":
		panic(fmt.Errorf("predicate: unexpected end"))
	}
	d := p.findDraw(t)
	if p.peek() == "[" {
		p.next()
		idx := p.next()
		p.expect("]")
		k := 0
		fmt.Sscanf(idx, "%d", &k)
		if d == nil || k >= len(d.vars) {
			p.missing = true
			return b.I64(0)
		}
		return d.vars[k]
	}
	if d == nil {
		return b.I64(0)
	}
	switch d.Op {
	case "choose":
		return b.I64(int64(d.pick))
	case "string":
		panic(fmt.Errorf("predicate: string draw %s needs an index or len()", t))
	}
	if len(d.vars) == 0 {
		p.missing = true
		return b.I64(0)
	}
	return d.vars[0]
}
