package symex

import (
	"fmt"
	"go/token"
	"go/types"
	"math"
	"math/big"
	"sort"
	"strconv"
	"strings"

	"gosmt/smt"

	"golang.org/x/tools/go/ssa"
)

func (ex *Exec) newDrawVar(op, label string, s smt.Sort, lo, hi *big.Int) *smt.Term {
	name := fmt.Sprintf("%s#%d:%s", label, len(ex.draws), op)
	if lo != nil && hi != nil && (op == "decimal" || op == "int") {
		// the range is part of the variable's identity: the same label may be drawn with another range on another path
		name += fmt.Sprintf("[%s..%s]", lo, hi)
	}
	v := ex.b.Var(name, s, lo, hi)
	if ex.solver != nil {
		ex.solver.AssertRange(v)
	}
	return v
}

// fixedDraw returns the pinned draw for the next position in concolic mode.
func (ex *Exec) fixedDraw(op string) *Draw {
	if ex.Fixed == nil {
		return nil
	}
	i := len(ex.draws)
	if i >= len(ex.Fixed) {
		panic(pathEnd{kind: "desync", msg: "draw beyond pinned list"})
	}
	d := &ex.Fixed[i]
	if d.Op != op {
		panic(pathEnd{kind: "desync", msg: fmt.Sprintf("draw %d: %s vs pinned %s", i, op, d.Op)})
	}
	return d
}

func bigOf(v interface{}) *big.Int {
	switch x := v.(type) {
	case string:
		r, ok := new(big.Int).SetString(x, 10)
		if ok {
			return r
		}
	case float64:
		return big.NewInt(int64(x))
	case int:
		return big.NewInt(int64(x))
	case int64:
		return big.NewInt(x)
	}
	return big.NewInt(0)
}

func (ex *Exec) drawInt(op, label string, bt *types.Basic) *smt.Term {
	lo, hi, _, _ := intRange(bt)
	if fd := ex.fixedDraw(op); fd != nil {
		t := ex.b.Int(bigOf(fd.V))
		ex.draws = append(ex.draws, Draw{Op: op, Label: label})
		return t
	}
	v := ex.newDrawVar(op, label, smt.SInt, lo, hi)
	ex.draws = append(ex.draws, Draw{Op: op, Label: label, vars: []*smt.Term{v}})
	return v
}

func (ex *Exec) drawString(label string, n int) *Str {
	if fd := ex.fixedDraw("string"); fd != nil {
		r := &Str{}
		for _, x := range fd.Bytes {
			r.b = append(r.b, ex.b.I64(int64(x)))
		}
		ex.draws = append(ex.draws, Draw{Op: "string", Label: label})
		return r
	}
	d := Draw{Op: "string", Label: label, N: n}
	r := &Str{}
	for i := 0; i < n; i++ {
		name := fmt.Sprintf("%s#%d[%d]", label, len(ex.draws), i)
		v := ex.b.Var(name, smt.SInt, big0, big.NewInt(255))
		if ex.solver != nil {
			ex.solver.AssertRange(v)
		}
		d.vars = append(d.vars, v)
		r.b = append(r.b, v)
	}
	ex.draws = append(ex.draws, d)
	return r
}

func (ex *Exec) concreteInt(v value, what string) int {
	t, ok := v.(*smt.Term)
	if !ok {
		panic(ex.unsupported(what + ": not an integer"))
	}
	c, ok := t.ConstInt()
	if !ok {
		panic(ex.unsupported(what + ": must be a constant"))
	}
	return int(c.Int64())
}

func (ex *Exec) labelOf(v value) string {
	if s, ok := v.(*Str); ok {
		if c, ok := s.concrete(); ok {
			return c
		}
	}
	return "?"
}

var intrinsicKinds = map[string]types.BasicKind{
	"NondetInt8": types.Int8, "NondetInt16": types.Int16, "NondetInt32": types.Int32, "NondetInt64": types.Int64, "NondetInt": types.Int,
	"NondetUint8": types.Uint8, "NondetUint16": types.Uint16, "NondetUint32": types.Uint32, "NondetUint64": types.Uint64, "NondetUint": types.Uint,
}

func (ex *Exec) callIntrinsic(fr *frame, pos token.Pos, fn *ssa.Function, args []value) value {
	b := ex.b
	name := fn.Name()
	if k, ok := intrinsicKinds[name]; ok {
		return ex.drawInt(strings.ToLower(strings.TrimPrefix(name, "Nondet")), ex.labelOf(args[0]), types.Typ[k])
	}
	switch name {
	case "NondetBool":
		label := ex.labelOf(args[0])
		if fd := ex.fixedDraw("bool"); fd != nil {
			bv, _ := fd.V.(bool)
			ex.draws = append(ex.draws, Draw{Op: "bool", Label: label})
			return b.Bool(bv)
		}
		v := ex.newDrawVar("bool", label, smt.SBool, nil, nil)
		ex.draws = append(ex.draws, Draw{Op: "bool", Label: label, vars: []*smt.Term{v}})
		return v
	case "NondetIntRange":
		label := ex.labelOf(args[0])
		lo, hi := ex.concreteInt(args[1], "NondetIntRange lo"), ex.concreteInt(args[2], "NondetIntRange hi")
		if fd := ex.fixedDraw("int"); fd != nil {
			ex.draws = append(ex.draws, Draw{Op: "int", Label: label})
			return b.Int(bigOf(fd.V))
		}
		v := ex.newDrawVar("int", label, smt.SInt, big.NewInt(int64(lo)), big.NewInt(int64(hi)))
		ex.draws = append(ex.draws, Draw{Op: "int", Label: label, vars: []*smt.Term{v}})
		return v
	case "NondetFloat64":
		label := ex.labelOf(args[0])
		if fd := ex.fixedDraw("float64bits"); fd != nil {
			s, _ := fd.V.(string)
			u, _ := strconv.ParseUint(strings.TrimPrefix(s, "0x"), 16, 64)
			ex.draws = append(ex.draws, Draw{Op: "float64bits", Label: label})
			return ex.fpConst(math.Float64frombits(u))
		}
		bits := ex.newDrawVar("float64bits", label, smt.SBV64, nil, nil)
		ex.draws = append(ex.draws, Draw{Op: "float64bits", Label: label, vars: []*smt.Term{bits}})
		return ex.fpRaw(smt.SFP, "(_ to_fp 11 53)", bits)
	case "NondetString":
		label := ex.labelOf(args[0])
		max := ex.concreteInt(args[1], "NondetString maxLen")
		n := 0
		if fd := ex.fixedDraw("string"); fd != nil {
			_ = fd
		} else {
			n = ex.choose("strlen:"+label, max+1)
		}
		return ex.drawString(label, n)
	case "NondetStringN":
		return ex.drawString(ex.labelOf(args[0]), ex.concreteInt(args[1], "NondetStringN n"))
	case "NondetDecimal", "NondetDecimalDigits":
		label := ex.labelOf(args[0])
		scale := ex.concreteInt(args[1], "NondetDecimal scale")
		var dlo, dhi *big.Int
		if name == "NondetDecimalDigits" {
			dhi = new(big.Int).Exp(big.NewInt(10), big.NewInt(int64(ex.concreteInt(args[2], "NondetDecimalDigits digits"))), nil)
			dhi.Sub(dhi, big.NewInt(1))
			dlo = new(big.Int).Neg(dhi)
		}
		if fd := ex.fixedDraw("decimal"); fd != nil {
			ex.draws = append(ex.draws, Draw{Op: "decimal", Label: label, N: scale})
			return ex.mkDecimal(b.Int(bigOf(fd.V)), -scale)
		}
		v := ex.newDrawVar("decimal", label, smt.SInt, dlo, dhi)
		ex.draws = append(ex.draws, Draw{Op: "decimal", Label: label, N: scale, vars: []*smt.Term{v}})
		return ex.mkDecimal(v, -scale)
	case "Choose":
		label := ex.labelOf(args[0])
		n := ex.concreteInt(args[1], "Choose n")
		var c int
		if fd := ex.fixedDraw("choose"); fd != nil {
			c = int(bigOf(fd.V).Int64())
		} else {
			c = ex.choose("choose:"+label, n)
		}
		ex.draws = append(ex.draws, Draw{Op: "choose", Label: label, N: n, pick: c})
		return b.I64(int64(c))
	case "Tag":
		label := ex.labelOf(args[0])
		if ex.Fixed != nil {
			ex.fixedDraw("tag")
		}
		ex.draws = append(ex.draws, Draw{Op: "tag", Label: label, V: ex.labelOf(args[1])})
		return nil
	case "Assume":
		c := args[0].(*smt.Term)
		ex.Assumes[ex.site(fr, pos)]++
		if cb, ok := c.ConstBool(); ok {
			if !cb {
				panic(pathEnd{kind: "assume"})
			}
			return nil
		}
		if ex.checkSat(c) == smt.Unsat {
			panic(pathEnd{kind: "assume"})
		}
		ex.assume(c)
		return nil
	case "Assert":
		ex.oblige("assert", ex.labelOf(args[1]), fr, pos, args[0].(*smt.Term))
		return nil
	case "Reach":
		ex.Reached[ex.labelOf(args[0])]++
		return nil
	case "Unwind":
		ex.lim.Unwind = ex.concreteInt(args[0], "Unwind")
		return nil
	case "Observe":
		label := ex.labelOf(args[0])
		ex.pathObs = append(ex.pathObs, obsEntry{label, args[1]})
		return nil
	case "Bound":
		if ex.Tier == "thorough" {
			return args[1]
		}
		return args[0]
	case "Thorough":
		return b.Bool(ex.Tier == "thorough")
	case "Protect":
		what := ex.labelOf(args[0])
		it := args[1].(iface)
		ex.protectVal(it.v, what, map[*value]bool{})
		return nil
	case "ProtectSlice":
		ex.protectVal(args[1], ex.labelOf(args[0]), map[*value]bool{})
		return nil
	case "CheckFrames":
		return nil
	case "ProtectGlobals":
		for g, cell := range ex.globals {
			// the repository's own variables, and the settings of the decimal library it computes with (DivisionPrecision ...)
			if g.Pkg != nil && (strings.HasPrefix(g.Pkg.Pkg.Path(), RepoModule) || g.Pkg.Pkg.Path() == "github.com/shopspring/decimal") && g.Name() != "init$guard" && !strings.Contains(g.Pkg.Pkg.Path(), "/verifrt") {
				ex.protectDeep(cell, "global "+g.String(), map[*value]bool{})
			}
		}
		return nil
	case "ClockReads":
		return b.I64(int64(ex.nowCalls))
	case "SplitCalendar":
		ex.splitCalendar = true
		return nil
	case "NondetMapOrder":
		ex.nondetMapOrder = true
		return nil
	case "LongRun":
		// the harness runs concrete code of known, large cost (the ANTLR recogniser: about a million instructions for the
		// first parse of a process): the instruction budget of a path is raised for this harness (once)
		if !ex.longRun {
			ex.longRun = true
			ex.lim.MaxSteps *= 12
		}
		return nil
	case "ExactFloat":
		ex.exactFloat = true
		return nil
	case "IgnorePanics":
		ex.lim.NoPanicCheck = true
		return nil
	case "SortStrings":
		xs, _ := args[0].([]value)
		type kv struct {
			k string
			v value
		}
		var items []kv
		for _, x := range xs {
			c, ok := x.(*Str).concrete()
			if !ok {
				panic(ex.unsupported("SortStrings on symbolic strings"))
			}
			items = append(items, kv{c, x})
		}
		sort.Slice(items, func(i, j int) bool { return items[i].k < items[j].k })
		for i := range xs {
			xs[i] = items[i].v
		}
		return nil
	}
	panic(ex.unsupported("verifrt." + name))
}

// renderUnder renders v with the model substituted for the draw variables.
func (ex *Exec) renderUnder(v value, m map[string]interface{}) string {
	ex.renderModel = m
	defer func() { ex.renderModel = nil }()
	var out string
	func() {
		defer func() {
			if r := recover(); r != nil {
				if _, ok := r.(pathEnd); ok {
					out = "?unsupported"
					return
				}
				panic(r)
			}
		}()
		out = ex.render(v)
	}()
	return out
}

// render mirrors verifrt.Render for concrete values.
func (ex *Exec) render(v value) string {
	switch x := v.(type) {
	case iface:
		if x.t == nil {
			return "nil"
		}
		if ex.isErrorValue(x) {
			return "err"
		}
		if _, isFake := x.t.(*fakeType); !isFake && hasStringer(ex, x.t) {
			if f := ex.P.Prog.LookupMethod(x.t, nil, "String"); f != nil {
				return ex.render(ex.callFn(nil, token.NoPos, f, []value{x.v}))
			}
		}
		return ex.renderTyped(x.t, x.v)
	}
	return ex.renderTyped(nil, v)
}

func (ex *Exec) renderTyped(t types.Type, v value) string {
	switch x := v.(type) {
	case *smt.Term:
		if c, ok := x.ConstInt(); ok {
			return c.String()
		}
		if c, ok := x.ConstBool(); ok {
			return strconv.FormatBool(c)
		}
		if f, ok := fpConstVal(x); ok {
			return fmt.Sprintf("f:%016x", math.Float64bits(f))
		}
		if ex.renderModel != nil {
			if r, ok := smt.Eval(x, ex.renderModel); ok {
				switch rv := r.(type) {
				case *big.Int:
					return rv.String()
				case bool:
					return strconv.FormatBool(rv)
				}
			}
		}
		return "?sym"
	case *Str:
		if x.opaque {
			return "?opaque"
		}
		var sb []byte
		for _, t := range x.b {
			if c, ok := t.ConstInt(); ok {
				sb = append(sb, byte(c.Int64()))
				continue
			}
			if ex.renderModel != nil {
				if r, ok := smt.Eval(t, ex.renderModel); ok {
					sb = append(sb, byte(r.(*big.Int).Int64()))
					continue
				}
			}
			return "?symstr"
		}
		return fmt.Sprintf("s:%x", string(sb))
	case []value:
		parts := make([]string, len(x))
		for i := range x {
			parts[i] = ex.render(x[i])
		}
		return "[" + strings.Join(parts, " ") + "]"
	}
	return fmt.Sprintf("?%T", v)
}
