package symex

import (
	"fmt"
	"go/token"
	"go/types"
	"math/big"
	"strings"

	"gosmt/smt"

	"golang.org/x/tools/go/ssa"
)

type modelFunc func(ex *Exec, fr *frame, pos token.Pos, args []value) value

// models are keyed by ssa.Function.String() of the (origin) function.
var models = map[string]modelFunc{}

// execAllow: individual functions outside executed packages whose SSA bodies are interpreted.
var execAllow = map[string]bool{}

// execFuncPrefixes: name prefixes (fn.String()) whose SSA bodies are interpreted.
var execFuncPrefixes = []string{}

// fakeType is the dynamic type of model objects that stand for stdlib implementation types.
type fakeType struct {
	name     string
	methods  map[string]bool
	anyIface bool
}

func (f *fakeType) Underlying() types.Type { return f }
func (f *fakeType) String() string         { return f.name }
func (f *fakeType) implements(it *types.Interface) bool {
	if f.anyIface {
		return true
	}
	for i := 0; i < it.NumMethods(); i++ {
		if !f.methods[it.Method(i).Name()] {
			return false
		}
	}
	return true
}

var errFake = &fakeType{name: "*gosmt.modelError", methods: map[string]bool{"Error": true}}

// extra Exec state used by models (kept here to keep exec.go focused)
type modelState struct {
	inInit         int
	ProtectGlobals bool
	protectedMaps  map[*MapV]string
	pendingKnown   string
	curObligation  string
	nowCalls       int
	lastNow        *TimeV
	branchMemo     map[int]bool
	renderModel    map[string]interface{}
	fpSeq          int
	forkSeq        int
	fnIDs          map[*ssa.Function]int64
	extraVars      []*smt.Term
	civilSeq       int
	splitCalendar  bool
	onceDone       map[*value]bool // sync.Once objects whose function has run on this path
	longRun        bool            // verifrt.LongRun() was called: the step budget is already raised
	nondetMapOrder bool // verifrt.NondetMapOrder: ranges over maps take an arbitrary one of two orders
	exactFloat     bool
	fpSh           map[int]fpShadow
	fpShB          *smt.Builder
	fpOpaque       map[int]bool
	hmsOf          map[[3]int]*smt.Term
	hmsB           *smt.Builder
	ymdMemo        map[int]ymdEntry
	usMemo         map[int]TimeV
	syncMaps       map[*value]*[]syncMapEntry
	civilMemo      map[int][3]*smt.Term
	pureMemo       map[*ssa.BasicBlock]bool
	IfConverted    int
	NoIfConv       bool
}

func (ex *Exec) modelReset() {
	ex.nowCalls = 0
	ex.lastNow = nil
	ex.branchMemo = nil
	ex.fpSeq = 0
	ex.extraVars = nil
	ex.civilSeq = 0
	ex.splitCalendar = false
	ex.exactFloat = false
	ex.nondetMapOrder = false
	ex.onceDone = nil
	ex.ymdMemo = nil
	ex.usMemo = nil
	ex.syncMaps = nil
	ex.civilMemo = nil
}

func (ex *Exec) modelZero(t types.Type) value {
	if n, ok := t.(*types.Named); ok && n.Obj().Pkg() != nil {
		switch n.Obj().Pkg().Path() + "." + n.Obj().Name() {
		case "time.Time":
			return ex.timeZero()
		case "math/big.Int":
			return BigV{ex.b.I64(0)}
		case "reflect.Value":
			return RValV{}
		case "strings.Builder":
			return &BuilderV{}
		}
	}
	return nil
}

func (ex *Exec) modelGlobal(g *ssa.Global) (value, bool) {
	if g.Pkg != nil && g.Pkg.Pkg.Path() == "time" && strings.HasPrefix(g.Name(), "err") {
		return ex.newErr("time." + g.Name()), true
	}
	if g.Pkg != nil && g.Pkg.Pkg.Path() == "strconv" && strings.HasPrefix(g.Name(), "Err") {
		return ex.newErr("strconv." + g.Name()), true
	}
	switch g.String() {
	case "time.UTC":
		return locUTC, true
	case "time.Local":
		return locLocal, true
	}
	return nil, false
}

func (ex *Exec) modelMethod(recv iface, m *types.Func) value {
	if recv.t == rtypeFake {
		if mc := ex.reflectTypeMethod(recv, m.Name()); mc != nil {
			return mc
		}
	}
	if ft, ok := recv.t.(*fakeType); ok && ft != errFake {
		if mc := ex.protoMethod(recv, m.Name()); mc != nil {
			return mc
		}
		panic(ex.unsupported("method " + m.Name() + " on " + ft.name + " (not modelled)"))
	}
	if m.Name() == "ProtoReflect" {
		t, v := recv.t, recv.v
		return &modelClosure{name: "ProtoReflect", f: func(ex *Exec, caller *frame, pos token.Pos, args []value) value {
			ex.Models["protoreflect(model).ProtoReflect"]++
			return ex.protoReflectCall(t, v)
		}}
	}
	if recv.t == errFake {
		switch m.Name() {
		case "Error":
			return &modelClosure{name: "modelError.Error", f: func(ex *Exec, caller *frame, pos token.Pos, args []value) value {
				e := args[0].(*ErrV)
				return &Str{opaque: true, note: "error text: " + e.msg}
			}}
		}
	}
	return nil
}

func (ex *Exec) modelEq(x, y value) (*smt.Term, bool) {
	if a, ok := x.(RTypeV); ok {
		b, ok := y.(RTypeV)
		if !ok {
			return ex.b.False, true
		}
		same := types.Identical(a.t, b.t) && ((a.recv == nil && b.recv == nil) || (a.recv != nil && b.recv != nil && types.Identical(a.recv, b.recv)))
		return ex.b.Bool(same), true
	}
	return nil, false
}

// ---- helper constructors ----

func (ex *Exec) newErr(msg string, wraps ...value) iface {
	ex.errSeq++
	return iface{t: errFake, v: &ErrV{id: ex.errSeq, msg: msg, wraps: wraps}}
}

func (ex *Exec) opaqueStr(note string) *Str { return &Str{opaque: true, note: note} }

func reg(name string, f modelFunc) { models[name] = f }

func (ex *Exec) wantConcrete(s value, what string) string {
	str, ok := s.(*Str)
	if !ok {
		panic(ex.unsupported(what + ": not a string"))
	}
	c, ok := str.concrete()
	if !ok {
		panic(ex.unsupported(what + ": symbolic string where a constant is needed"))
	}
	return c
}

// sync.Map: a list of (key, value) pairs per map object, keys compared with Go's ==. Concurrency is not modelled (the
// engine runs one goroutine); what matters here is that state kept in a sync.Map between calls is visible to the next call.
type syncMapEntry struct{ k, v value }

func (ex *Exec) syncMapOf(recv value) *[]syncMapEntry {
	p, ok := recv.(*value)
	if !ok || p == nil {
		panic(ex.unsupported("sync.Map method on a nil or non-pointer receiver"))
	}
	if ex.syncMaps == nil {
		ex.syncMaps = map[*value]*[]syncMapEntry{}
	}
	m := ex.syncMaps[p]
	if m == nil {
		m = &[]syncMapEntry{}
		ex.syncMaps[p] = m
	}
	return m
}

func (ex *Exec) syncMapFind(m *[]syncMapEntry, k value) int {
	for i, e := range *m {
		eq := ex.eqVal(nil, e.k, k)
		c, isC := eq.ConstBool()
		if !isC {
			panic(ex.unsupported("sync.Map with symbolic keys"))
		}
		if c {
			return i
		}
	}
	return -1
}

func init() {
	// Mutexes: the engine runs one goroutine, so taking and releasing a lock changes nothing (data races are not what
	// these models decide; state kept under a lock between calls is, and it stays visible).
	for _, m := range []string{"(*sync.Mutex).Lock", "(*sync.Mutex).Unlock", "(*sync.RWMutex).Lock", "(*sync.RWMutex).Unlock", "(*sync.RWMutex).RLock", "(*sync.RWMutex).RUnlock"} {
		reg(m, func(ex *Exec, fr *frame, pos token.Pos, args []value) value { return nil })
	}
	// sync.Once: the function runs at the first Do of this Once object on the path, never again
	reg("(*sync.Once).Do", func(ex *Exec, fr *frame, pos token.Pos, args []value) value {
		cell, _ := args[0].(*value)
		if cell == nil {
			panic(ex.unsupported("sync.Once.Do on a nil or non-pointer receiver"))
		}
		if ex.onceDone == nil {
			ex.onceDone = map[*value]bool{}
		}
		if ex.onceDone[cell] {
			return nil
		}
		ex.onceDone[cell] = true
		ex.callValue(fr, pos, args[1], nil)
		return nil
	})
	reg("(*sync.Map).Load", func(ex *Exec, fr *frame, pos token.Pos, args []value) value {
		m := ex.syncMapOf(args[0])
		if i := ex.syncMapFind(m, args[1]); i >= 0 {
			return tuple{(*m)[i].v, ex.b.True}
		}
		return tuple{iface{}, ex.b.False}
	})
	reg("(*sync.Map).Store", func(ex *Exec, fr *frame, pos token.Pos, args []value) value {
		m := ex.syncMapOf(args[0])
		if i := ex.syncMapFind(m, args[1]); i >= 0 {
			(*m)[i].v = args[2]
		} else {
			*m = append(*m, syncMapEntry{args[1], args[2]})
		}
		return nil
	})
	reg("(*sync.Map).LoadOrStore", func(ex *Exec, fr *frame, pos token.Pos, args []value) value {
		m := ex.syncMapOf(args[0])
		if i := ex.syncMapFind(m, args[1]); i >= 0 {
			return tuple{(*m)[i].v, ex.b.True}
		}
		*m = append(*m, syncMapEntry{args[1], args[2]})
		return tuple{args[2], ex.b.False}
	})
	reg("(*sync.Map).Delete", func(ex *Exec, fr *frame, pos token.Pos, args []value) value {
		m := ex.syncMapOf(args[0])
		if i := ex.syncMapFind(m, args[1]); i >= 0 {
			*m = append((*m)[:i], (*m)[i+1:]...)
		}
		return nil
	})
}

func init() {
	// maps.Clone: a shallow copy (entries share their values, as in Go)
	reg("maps.Clone", func(ex *Exec, fr *frame, pos token.Pos, args []value) value {
		m, ok := args[0].(*MapV)
		if !ok || m == nil {
			return args[0]
		}
		c := &MapV{keyT: m.keyT}
		for _, e := range m.entries {
			if !e.deleted {
				c.entries = append(c.entries, &mapEntry{k: e.k, v: copyVal(e.v)})
			}
		}
		return c
	})
	// ---- errors ----
	reg("errors.New", func(ex *Exec, fr *frame, pos token.Pos, args []value) value {
		s := args[0].(*Str)
		msg := s.note
		if c, ok := s.concrete(); ok {
			msg = c
		}
		return ex.newErr(msg)
	})
	reg("errors.Is", func(ex *Exec, fr *frame, pos token.Pos, args []value) value {
		return ex.b.Bool(ex.errorsIs(args[0].(iface), args[1].(iface), 0))
	})
	reg("errors.Join", func(ex *Exec, fr *frame, pos token.Pos, args []value) value {
		var ws []value
		if s, ok := args[0].([]value); ok {
			for _, e := range s {
				if it := e.(iface); it.t != nil {
					ws = append(ws, it)
				}
			}
		}
		if len(ws) == 0 {
			return iface{}
		}
		return ex.newErr("join", ws...)
	})
	reg("errors.Unwrap", func(ex *Exec, fr *frame, pos token.Pos, args []value) value {
		it := args[0].(iface)
		if e, ok := it.v.(*ErrV); ok && len(e.wraps) == 1 && e.msg != "join" {
			return e.wraps[0]
		}
		if _, ok := it.v.(*ErrV); ok || it.t == nil {
			return iface{}
		}
		panic(ex.unsupported("errors.Unwrap on " + typeName(it.t)))
	})

	// ---- fmt ----
	reg("fmt.Errorf", func(ex *Exec, fr *frame, pos token.Pos, args []value) value {
		format := ex.wantConcrete(args[0], "fmt.Errorf format")
		var as []value
		if s, ok := args[1].([]value); ok {
			as = s
		}
		var wraps []value
		ai := 0
		for i := 0; i < len(format); i++ {
			if format[i] != '%' {
				continue
			}
			i++
			for i < len(format) && strings.ContainsRune("+-# 0123456789.", rune(format[i])) {
				i++
			}
			if i >= len(format) {
				break
			}
			if format[i] == '%' {
				continue
			}
			if format[i] == 'w' && ai < len(as) {
				if it, ok := as[ai].(iface); ok && it.t != nil && ex.isErrorValue(it) {
					wraps = append(wraps, it)
				}
			}
			ai++
		}
		return ex.newErr(format, wraps...)
	})
	reg("fmt.Sprintf", func(ex *Exec, fr *frame, pos token.Pos, args []value) value {
		format := ex.wantConcrete(args[0], "fmt.Sprintf format")
		var as []value
		if s, ok := args[1].([]value); ok {
			as = s
		}
		return ex.sprintf(format, as)
	})
	reg("fmt.Sprint", func(ex *Exec, fr *frame, pos token.Pos, args []value) value {
		var as []value
		if s, ok := args[0].([]value); ok {
			as = s
		}
		if len(as) == 1 {
			return ex.sprintf("%v", as)
		}
		return ex.opaqueStr("fmt.Sprint")
	})

	// ---- strings leaves ----
	reg("strings.Index", func(ex *Exec, fr *frame, pos token.Pos, args []value) value {
		return ex.strIndexOf(args[0].(*Str), args[1].(*Str))
	})
	reg("strings.Contains", func(ex *Exec, fr *frame, pos token.Pos, args []value) value {
		return ex.b.Ge(ex.strIndexOf(args[0].(*Str), args[1].(*Str)), ex.b.I64(0))
	})
	reg("strings.IndexAny", func(ex *Exec, fr *frame, pos token.Pos, args []value) value {
		s, chars := args[0].(*Str), args[1].(*Str)
		ex.needBytes(s, chars)
		cs, ok := chars.concrete()
		if !ok {
			panic(ex.unsupported("strings.IndexAny with symbolic chars"))
		}
		for i := 0; i < len(cs); i++ {
			if cs[i] >= 0x80 {
				panic(ex.unsupported("strings.IndexAny with non-ASCII chars"))
			}
		}
		r := ex.b.I64(-1)
		for i := len(s.b) - 1; i >= 0; i-- {
			var any []*smt.Term
			for k := 0; k < len(cs); k++ {
				any = append(any, ex.b.Eq(s.b[i], ex.b.I64(int64(cs[k]))))
			}
			r = ex.b.Ite(ex.b.Or(any...), ex.b.I64(int64(i)), r)
		}
		return r
	})
	reg("strings.LastIndex", func(ex *Exec, fr *frame, pos token.Pos, args []value) value {
		s, t := args[0].(*Str), args[1].(*Str)
		ex.needBytes(s, t)
		r := ex.b.I64(-1)
		for i := 0; i+len(t.b) <= len(s.b); i++ {
			r = ex.b.Ite(ex.strMatchAt(s, t, i), ex.b.I64(int64(i)), r)
		}
		return r
	})
	reg("strings.LastIndexByte", func(ex *Exec, fr *frame, pos token.Pos, args []value) value {
		s := args[0].(*Str)
		ex.needBytes(s)
		r := ex.b.I64(-1)
		for i := 0; i < len(s.b); i++ {
			r = ex.b.Ite(ex.b.Eq(s.b[i], args[1].(*smt.Term)), ex.b.I64(int64(i)), r)
		}
		return r
	})
	reg("strings.IndexByte", func(ex *Exec, fr *frame, pos token.Pos, args []value) value {
		return ex.strIndexOf(args[0].(*Str), &Str{b: []*smt.Term{args[1].(*smt.Term)}})
	})
	reg("strings.HasPrefix", func(ex *Exec, fr *frame, pos token.Pos, args []value) value {
		return ex.strMatchAt(args[0].(*Str), args[1].(*Str), 0)
	})
	reg("strings.HasSuffix", func(ex *Exec, fr *frame, pos token.Pos, args []value) value {
		s, t := args[0].(*Str), args[1].(*Str)
		ex.needBytes(s, t)
		return ex.strMatchAt(s, t, len(s.b)-len(t.b))
	})
	reg("strings.Count", func(ex *Exec, fr *frame, pos token.Pos, args []value) value {
		s, sep := args[0].(*Str), args[1].(*Str)
		ex.needBytes(s, sep)
		if len(sep.b) == 0 {
			return ex.b.Add(ex.runeCount(s), ex.b.I64(1))
		}
		// non-overlapping count, scanning left to right (forks per match position)
		n := int64(0)
		for i := 0; i+len(sep.b) <= len(s.b); {
			if ex.branch("strings.Count", ex.strMatchAt(s, sep, i)) {
				n++
				i += len(sep.b)
			} else {
				i++
			}
		}
		return ex.b.I64(n)
	})
	for _, n := range []string{"Index", "IndexByte", "HasPrefix", "HasSuffix"} {
		models["internal/stringslite."+n] = models["strings."+n]
	}
	reg("internal/stringslite.Cut", func(ex *Exec, fr *frame, pos token.Pos, args []value) value {
		s, sep := args[0].(*Str), args[1].(*Str)
		ex.needBytes(s, sep)
		i := ex.strIndexOf(s, sep)
		k := int(ex.concretize("cut", i, -1, int64(len(s.b))))
		if k < 0 {
			return tuple{s, &Str{}, ex.b.False}
		}
		return tuple{&Str{b: s.b[:k]}, &Str{b: s.b[k+len(sep.b):]}, ex.b.True}
	})
	models["strings.Cut"] = models["internal/stringslite.Cut"]
	reg("internal/stringslite.TrimPrefix", func(ex *Exec, fr *frame, pos token.Pos, args []value) value {
		s, p := args[0].(*Str), args[1].(*Str)
		if ex.branch("trimprefix", ex.strMatchAt(s, p, 0)) {
			return &Str{b: s.b[len(p.b):]}
		}
		return s
	})
	models["strings.TrimPrefix"] = models["internal/stringslite.TrimPrefix"]
	reg("internal/stringslite.CutPrefix", func(ex *Exec, fr *frame, pos token.Pos, args []value) value {
		s, p := args[0].(*Str), args[1].(*Str)
		if ex.branch("cutprefix", ex.strMatchAt(s, p, 0)) {
			return tuple{&Str{b: s.b[len(p.b):]}, ex.b.True}
		}
		return tuple{s, ex.b.False}
	})
	models["strings.CutPrefix"] = models["internal/stringslite.CutPrefix"]
	suffix := func(ex *Exec, s, p *Str) bool {
		ex.needBytes(s, p)
		return ex.branch("suffix", ex.strMatchAt(s, p, len(s.b)-len(p.b)))
	}
	reg("internal/stringslite.TrimSuffix", func(ex *Exec, fr *frame, pos token.Pos, args []value) value {
		s, p := args[0].(*Str), args[1].(*Str)
		if suffix(ex, s, p) {
			return &Str{b: s.b[:len(s.b)-len(p.b)]}
		}
		return s
	})
	models["strings.TrimSuffix"] = models["internal/stringslite.TrimSuffix"]
	reg("internal/stringslite.CutSuffix", func(ex *Exec, fr *frame, pos token.Pos, args []value) value {
		s, p := args[0].(*Str), args[1].(*Str)
		if suffix(ex, s, p) {
			return tuple{&Str{b: s.b[:len(s.b)-len(p.b)]}, ex.b.True}
		}
		return tuple{s, ex.b.False}
	})
	models["strings.CutSuffix"] = models["internal/stringslite.CutSuffix"]
	reg("strings.Clone", func(ex *Exec, fr *frame, pos token.Pos, args []value) value { return args[0] })
	reg("strconv.cloneString", func(ex *Exec, fr *frame, pos token.Pos, args []value) value { return args[0] })
	reg("strings.ToLower", func(ex *Exec, fr *frame, pos token.Pos, args []value) value {
		return ex.asciiCase(args[0].(*Str), false)
	})
	reg("strings.ToUpper", func(ex *Exec, fr *frame, pos token.Pos, args []value) value {
		return ex.asciiCase(args[0].(*Str), true)
	})
	reg("strings.Join", func(ex *Exec, fr *frame, pos token.Pos, args []value) value {
		elems, _ := args[0].([]value)
		sep := args[1].(*Str)
		r := &Str{}
		for i, e := range elems {
			s := e.(*Str)
			ex.needBytes(s, sep)
			if i > 0 {
				r.b = append(r.b, sep.b...)
			}
			r.b = append(r.b, s.b...)
		}
		return r
	})
	reg("strings.ReplaceAll", func(ex *Exec, fr *frame, pos token.Pos, args []value) value {
		return ex.replaceAll(args[0].(*Str), args[1].(*Str), args[2].(*Str))
	})
	reg("strings.NewReplacer", func(ex *Exec, fr *frame, pos token.Pos, args []value) value {
		pairs, _ := args[0].([]value)
		if len(pairs)%2 == 1 {
			ex.oblige("panic", "strings.NewReplacer: odd argument count", fr, pos, ex.b.False)
		}
		r := &ReplacerV{}
		for _, p := range pairs {
			r.pairs = append(r.pairs, p.(*Str))
		}
		cell := new(value)
		*cell = r
		return cell
	})
	reg("(*strings.Replacer).Replace", func(ex *Exec, fr *frame, pos token.Pos, args []value) value {
		r := (*args[0].(*value)).(*ReplacerV)
		return ex.replacerReplace(r, args[1].(*Str))
	})

	reg("strconv.Itoa", func(ex *Exec, fr *frame, pos token.Pos, args []value) value { return ex.itoa(args[0].(*smt.Term)) })
	reg("strconv.FormatInt", func(ex *Exec, fr *frame, pos token.Pos, args []value) value {
		if c, ok := args[1].(*smt.Term).ConstInt(); !ok || c.Int64() != 10 {
			panic(ex.unsupported("strconv.FormatInt with base != 10"))
		}
		return ex.itoa(args[0].(*smt.Term))
	})
	reg("strings.Repeat", func(ex *Exec, fr *frame, pos token.Pos, args []value) value {
		s := args[0].(*Str)
		ex.needBytes(s)
		n := args[1].(*smt.Term)
		ex.oblige("panic", "strings: negative Repeat count", fr, pos, ex.b.Le(ex.b.I64(0), n))
		k := int(ex.concretize("repeat", n, 0, 64))
		r := &Str{}
		for i := 0; i < k; i++ {
			r.b = append(r.b, s.b...)
		}
		return r
	})
	reg("strings.TrimRight", func(ex *Exec, fr *frame, pos token.Pos, args []value) value {
		s := args[0].(*Str)
		cut := ex.wantConcrete(args[1], "strings.TrimRight cutset")
		ex.needBytes(s)
		end := len(s.b)
		for end > 0 {
			var any []*smt.Term
			for i := 0; i < len(cut); i++ {
				if cut[i] >= 0x80 {
					panic(ex.unsupported("strings.TrimRight with non-ASCII cutset"))
				}
				any = append(any, ex.b.Eq(s.b[end-1], ex.b.I64(int64(cut[i]))))
			}
			if !ex.branch("trimright", ex.b.Or(any...)) {
				break
			}
			end--
		}
		return &Str{b: s.b[:end]}
	})
	reg("strings.Trim", func(ex *Exec, fr *frame, pos token.Pos, args []value) value {
		s := args[0].(*Str)
		cut := ex.wantConcrete(args[1], "strings.Trim cutset")
		ex.needBytes(s)
		isCut := func(t *smt.Term) *smt.Term {
			var any []*smt.Term
			for i := 0; i < len(cut); i++ {
				if cut[i] >= 0x80 {
					panic(ex.unsupported("strings.Trim with non-ASCII cutset"))
				}
				any = append(any, ex.b.Eq(t, ex.b.I64(int64(cut[i]))))
			}
			return ex.b.Or(any...)
		}
		lo, hi := 0, len(s.b)
		for lo < hi && ex.branch("trim", isCut(s.b[lo])) {
			lo++
		}
		for hi > lo && ex.branch("trim", isCut(s.b[hi-1])) {
			hi--
		}
		return &Str{b: s.b[lo:hi]}
	})

	// ---- unicode/utf8 ----
	reg("unicode/utf8.RuneCountInString", func(ex *Exec, fr *frame, pos token.Pos, args []value) value {
		return ex.runeCount(args[0].(*Str))
	})
	reg("unicode/utf8.DecodeRuneInString", func(ex *Exec, fr *frame, pos token.Pos, args []value) value {
		s := args[0].(*Str)
		ex.needBytes(s)
		if len(s.b) == 0 {
			return tuple{ex.b.I64(0xFFFD), ex.b.I64(0)}
		}
		r, sz := ex.decodeRune(s, 0)
		return tuple{r, ex.b.I64(int64(sz))}
	})
	reg("unicode/utf8.ValidString", func(ex *Exec, fr *frame, pos token.Pos, args []value) value {
		s := args[0].(*Str)
		ex.needBytes(s)
		return ex.validUTF8(s)
	})
	reg("unicode/utf8.AppendRune", func(ex *Exec, fr *frame, pos token.Pos, args []value) value {
		dst, _ := args[0].([]value)
		enc := ex.encodeRune(args[1].(*smt.Term))
		out := make([]value, len(dst), len(dst)+len(enc))
		copy(out, dst)
		for _, t := range enc {
			out = append(out, t)
		}
		return out
	})
	reg("unicode/utf8.RuneLen", func(ex *Exec, fr *frame, pos token.Pos, args []value) value {
		return ex.b.I64(int64(len(ex.encodeRune(args[0].(*smt.Term)))))
	})
}

func (ex *Exec) needBytes(ss ...*Str) {
	for _, s := range ss {
		if s.opaque {
			panic(ex.unsupported("string operation on opaque text (" + s.note + ")"))
		}
	}
}

func (ex *Exec) isErrorValue(it iface) bool {
	if it.t == errFake {
		return true
	}
	if _, ok := it.t.(*fakeType); ok {
		return false
	}
	errT := types.Universe.Lookup("error").Type().Underlying().(*types.Interface)
	return types.Implements(it.t, errT)
}

func (ex *Exec) errorsIs(err, target iface, depth int) bool {
	if err.t == nil || depth > 16 {
		return err.t == nil && target.t == nil
	}
	if target.t == nil {
		return false
	}
	if typesIdentical(err.t, target.t) && types.Comparable(safeType(err.t)) {
		if ex.branch("errors.Is", ex.eqVal(err.t, err.v, target.v)) {
			return true
		}
	}
	switch e := err.v.(type) {
	case *ErrV:
		for _, w := range e.wraps {
			if ex.errorsIs(w.(iface), target, depth+1) {
				return true
			}
		}
		return false
	}
	// a real (interpreted) error type: follow Unwrap() error if it has one
	if _, isFake := err.t.(*fakeType); !isFake {
		if f := ex.P.Prog.LookupMethod(err.t, nil, "Unwrap"); f != nil && f.Signature.Results().Len() == 1 {
			if _, isIface := f.Signature.Results().At(0).Type().Underlying().(*types.Interface); isIface {
				r := ex.callFn(nil, token.NoPos, f, []value{err.v})
				return ex.errorsIs(r.(iface), target, depth+1)
			}
			panic(ex.unsupported("errors.Is over Unwrap() []error"))
		}
	}
	return false
}

func safeType(t types.Type) types.Type {
	if _, ok := t.(*fakeType); ok {
		return types.Typ[types.Int]
	}
	return t
}

// ---- string circuits ----

// strMatchAt: does t occur in s at concrete offset i?
func (ex *Exec) strMatchAt(s, t *Str, i int) *smt.Term {
	ex.needBytes(s, t)
	if i < 0 || i+len(t.b) > len(s.b) {
		return ex.b.False
	}
	cs := make([]*smt.Term, len(t.b))
	for k := range t.b {
		cs[k] = ex.b.Eq(s.b[i+k], t.b[k])
	}
	return ex.b.And(cs...)
}

// strIndexOf is strings.Index as an ite chain (byte offset of the first match, or -1).
func (ex *Exec) strIndexOf(s, t *Str) *smt.Term {
	ex.needBytes(s, t)
	r := ex.b.I64(-1)
	for i := len(s.b) - len(t.b); i >= 0; i-- {
		r = ex.b.Ite(ex.strMatchAt(s, t, i), ex.b.I64(int64(i)), r)
	}
	return r
}

// runeCount follows utf8.RuneCountInString (invalid bytes count 1 each); forks on widths.
func (ex *Exec) runeCount(s *Str) *smt.Term {
	ex.needBytes(s)
	n := int64(0)
	for i := 0; i < len(s.b); {
		_, sz := ex.decodeRune(s, i)
		i += sz
		n++
	}
	return ex.b.I64(n)
}

func (ex *Exec) validUTF8(s *Str) *smt.Term {
	for i := 0; i < len(s.b); {
		r, sz := ex.decodeRune(s, i)
		if sz == 1 {
			if c, ok := r.ConstInt(); ok && c.Int64() == 0xFFFD {
				// either a real invalid byte or a literal... a single byte never decodes to U+FFFD validly
				return ex.b.False
			}
		}
		i += sz
	}
	return ex.b.True
}

// asciiCase maps ASCII letters; a string that may contain non-ASCII bytes forks on that,
// and the non-ASCII case yields opaque text (Unicode case tables are not modelled).
func (ex *Exec) asciiCase(s *Str, upper bool) *Str {
	ex.needBytes(s)
	b := ex.b
	// concrete text: the library's own mapping (non-ASCII letters included)
	if c, ok := s.concrete(); ok {
		if upper {
			return ex.strConst(strings.ToUpper(c))
		}
		return ex.strConst(strings.ToLower(c))
	}
	var ascii []*smt.Term
	for _, c := range s.b {
		ascii = append(ascii, b.Lt(c, b.I64(0x80)))
	}
	if !ex.branch("ascii", b.And(ascii...)) {
		return ex.opaqueStr("non-ASCII case mapping")
	}
	r := &Str{b: make([]*smt.Term, len(s.b))}
	for i, c := range s.b {
		if upper {
			r.b[i] = b.Ite(b.And(b.Le(b.I64('a'), c), b.Le(c, b.I64('z'))), b.Sub(c, b.I64(32)), c)
		} else {
			r.b[i] = b.Ite(b.And(b.Le(b.I64('A'), c), b.Le(c, b.I64('Z'))), b.Add(c, b.I64(32)), c)
		}
	}
	return r
}

func (ex *Exec) replaceAll(s, old, nw *Str) *Str {
	ex.needBytes(s, old, nw)
	r := &Str{}
	if len(old.b) == 0 {
		// new inserted before every rune and at the end
		for i := 0; i < len(s.b); {
			_, sz := ex.decodeRune(s, i)
			r.b = append(r.b, nw.b...)
			r.b = append(r.b, s.b[i:i+sz]...)
			i += sz
		}
		r.b = append(r.b, nw.b...)
		return r
	}
	for i := 0; i < len(s.b); {
		if i+len(old.b) <= len(s.b) && ex.branch("replace", ex.strMatchAt(s, old, i)) {
			r.b = append(r.b, nw.b...)
			i += len(old.b)
		} else {
			r.b = append(r.b, s.b[i])
			i++
		}
	}
	return r
}

// ReplacerV models strings.NewReplacer(pairs...): scan left to right; at each position the
// first pair in argument order whose old string matches wins; no overlap.
type ReplacerV struct{ pairs []*Str }

func (ex *Exec) replacerReplace(rp *ReplacerV, s *Str) *Str {
	ex.needBytes(s)
	for _, p := range rp.pairs {
		ex.needBytes(p)
	}
	b := ex.b
	r := &Str{}
	emptyOld := -1
	for k := 0; k+1 < len(rp.pairs); k += 2 {
		if len(rp.pairs[k].b) == 0 && emptyOld < 0 {
			emptyOld = k
		}
	}
	if emptyOld >= 0 {
		panic(ex.unsupported("strings.Replacer with an empty old string"))
	}
	for i := 0; i < len(s.b); {
		var alts []*smt.Term
		var idx []int
		none := b.True
		for k := 0; k+1 < len(rp.pairs); k += 2 {
			m := ex.strMatchAt(s, rp.pairs[k], i)
			if cb, ok := m.ConstBool(); ok && !cb {
				continue
			}
			alts = append(alts, b.And(none, m))
			idx = append(idx, k)
			none = b.And(none, b.Not(m))
		}
		alts = append(alts, none)
		c := ex.decide("replacer", alts)
		if c == len(alts)-1 {
			r.b = append(r.b, s.b[i])
			i++
			continue
		}
		k := idx[c]
		r.b = append(r.b, rp.pairs[k+1].b...)
		i += len(rp.pairs[k].b)
	}
	return r
}

// ---- fmt rendering ----

// itoa renders a symbolic integer in decimal (forks on sign and digit count).
func (ex *Exec) itoa(t *smt.Term) *Str {
	b := ex.b
	if c, ok := t.ConstInt(); ok {
		return ex.strConst(c.String())
	}
	neg := ex.branch("itoa-sign", b.Lt(t, b.I64(0)))
	m := t
	if neg {
		m = b.Neg(t)
	}
	maxDigits := 20
	if m.Hi != nil {
		maxDigits = len(m.Hi.String())
		if m.Lo != nil && len(new(big.Int).Abs(m.Lo).String()) > maxDigits {
			maxDigits = len(new(big.Int).Abs(m.Lo).String())
		}
	}
	var alts []*smt.Term
	p := big.NewInt(1)
	for d := 1; d <= maxDigits; d++ {
		lo := new(big.Int).Set(p)
		if d == 1 {
			lo = big.NewInt(0)
		}
		p = new(big.Int).Mul(p, big.NewInt(10))
		c := b.And(b.Le(b.Int(lo), m), b.Lt(m, b.Int(p)))
		if d == maxDigits {
			c = b.Le(b.Int(lo), m)
		}
		alts = append(alts, c)
	}
	d := ex.decide("itoa-digits", alts) + 1
	r := &Str{}
	if neg {
		r.b = append(r.b, b.I64('-'))
	}
	for i := d - 1; i >= 0; i-- {
		pw := new(big.Int).Exp(big.NewInt(10), big.NewInt(int64(i)), nil)
		r.b = append(r.b, b.Add(b.I64('0'), b.Mod(b.Div(m, b.Int(pw)), b.I64(10))))
	}
	return r
}

// padInt renders a non-negative symbolic integer with exactly w digits (used by time formats).
func (ex *Exec) padInt(t *smt.Term, w int) []*smt.Term {
	b := ex.b
	var out []*smt.Term
	for i := w - 1; i >= 0; i-- {
		pw := new(big.Int).Exp(big.NewInt(10), big.NewInt(int64(i)), nil)
		out = append(out, b.Add(b.I64('0'), b.Mod(b.Div(t, b.Int(pw)), b.I64(10))))
	}
	return out
}

func (ex *Exec) sprintf(format string, as []value) *Str {
	r := &Str{}
	ai := 0
	for i := 0; i < len(format); i++ {
		c := format[i]
		if c != '%' {
			r.b = append(r.b, ex.b.I64(int64(c)))
			continue
		}
		i++
		if i >= len(format) {
			return ex.opaqueStr("fmt: bad format")
		}
		if format[i] == '%' {
			r.b = append(r.b, ex.b.I64('%'))
			continue
		}
		zero := false
		width := 0
		for i < len(format) && format[i] == '0' {
			zero = true
			i++
		}
		for i < len(format) && format[i] >= '0' && format[i] <= '9' {
			width = width*10 + int(format[i]-'0')
			i++
		}
		if i >= len(format) {
			return ex.opaqueStr("fmt: bad format")
		}
		verb := format[i]
		if ai >= len(as) {
			return ex.opaqueStr("fmt: missing arg")
		}
		a := as[ai]
		ai++
		// %0Nd of a value provably in [0, 10^N): fixed-width digits, no fork on the digit count
		if zero && width > 0 && verb == 'd' {
			if it, ok := a.(iface); ok && it.t != nil {
				if t, ok := it.v.(*smt.Term); ok && t.Sort == smt.SInt && t.Lo != nil && t.Hi != nil && t.Lo.Sign() >= 0 &&
					t.Hi.Cmp(new(big.Int).Exp(big.NewInt(10), big.NewInt(int64(width)), nil)) < 0 {
					r.b = append(r.b, ex.padInt(t, width)...)
					continue
				}
			}
		}
		piece := ex.fmtValue(verb, a)
		if piece == nil || piece.opaque {
			return ex.opaqueStr("fmt.Sprintf(" + format + ")")
		}
		if width > len(piece.b) {
			if !zero || verb != 'd' {
				if zero {
					return ex.opaqueStr("fmt.Sprintf(" + format + ")")
				}
				for k := len(piece.b); k < width; k++ {
					r.b = append(r.b, ex.b.I64(' '))
				}
			} else {
				// zero padding goes after the sign
				body := piece.b
				if len(body) > 0 {
					if cb, ok := body[0].ConstInt(); ok && cb.Int64() == '-' {
						r.b = append(r.b, body[0])
						body = body[1:]
					}
				}
				for k := len(piece.b); k < width; k++ {
					r.b = append(r.b, ex.b.I64('0'))
				}
				r.b = append(r.b, body...)
				continue
			}
		}
		r.b = append(r.b, piece.b...)
	}
	return r
}

// fmtValue renders one operand for %v %d %s %T; nil = not renderable (opaque).
func (ex *Exec) fmtValue(verb byte, a value) *Str {
	it, ok := a.(iface)
	if !ok {
		return nil
	}
	if verb == 'T' {
		if it.t == nil {
			return ex.strConst("<nil>")
		}
		return ex.strConst(goTypeString(it.t))
	}
	if it.t == nil {
		return nil
	}
	switch v := it.v.(type) {
	case *Str:
		if (verb == 'v' || verb == 's') && !hasStringer(ex, it.t) {
			return v
		}
		if verb == 'q' && !hasStringer(ex, it.t) && !v.opaque {
			if sp := ex.P.SSAPkgs["strconv"]; sp != nil && sp.Func("Quote") != nil {
				if r, ok := ex.callFn(nil, token.NoPos, sp.Func("Quote"), []value{v}).(*Str); ok {
					return r
				}
			}
			return nil
		}
		// named string types with a String/Error method are formatted through it (below)
	case *smt.Term:
		if _, isInt := isInteger(it.t); isInt && (verb == 'v' || verb == 'd') {
			if verb == 'v' && hasStringer(ex, it.t) {
				return nil
			}
			return ex.itoa(v)
		}
		if bt, isInt := isInteger(it.t); isInt && (verb == 'x' || verb == 'o' || verb == 'b') && !hasStringer(ex, it.t) {
			// the digits in another base: strconv's own conversion, run from source (fmt prints a sign and the magnitude too)
			base := map[byte]int64{'x': 16, 'o': 8, 'b': 2}[verb]
			name := "FormatInt"
			if bt.Info()&types.IsUnsigned != 0 {
				name = "FormatUint"
			}
			if sp := ex.P.SSAPkgs["strconv"]; sp != nil && sp.Func(name) != nil {
				if r, ok := ex.callFn(nil, token.NoPos, sp.Func(name), []value{v, ex.b.I64(base)}).(*Str); ok {
					return r
				}
			}
			return nil
		}
		if isBool(it.t) && verb == 'v' {
			if cb, ok := v.ConstBool(); ok {
				if cb {
					return ex.strConst("true")
				}
				return ex.strConst("false")
			}
			if ex.branch("fmt-bool", v) {
				return ex.strConst("true")
			}
			return ex.strConst("false")
		}
	}
	if (verb == 'v' || verb == 's') && hasStringer(ex, it.t) {
		if f := ex.P.Prog.LookupMethod(it.t, nil, "String"); f != nil {
			if s, ok := ex.callFn(nil, token.NoPos, f, []value{it.v}).(*Str); ok {
				return s
			}
		}
	}
	return nil
}

func hasStringer(ex *Exec, t types.Type) bool {
	if _, ok := t.(*fakeType); ok {
		return true
	}
	ms := ex.P.Prog.MethodSets.MethodSet(t)
	return ms.Lookup(nil, "String") != nil || ms.Lookup(nil, "Error") != nil
}

func goTypeString(t types.Type) string {
	if ft, ok := t.(*fakeType); ok {
		return ft.name
	}
	return types.TypeString(t, func(p *types.Package) string { return p.Name() })
}

var _ = fmt.Sprint

// ---- strings.Builder ----

func (ex *Exec) builderOf(v value) *BuilderV {
	c, ok := v.(*value)
	if !ok || c == nil {
		panic(ex.unsupported("strings.Builder method on a non-addressable receiver"))
	}
	b, ok := (*c).(*BuilderV)
	if !ok {
		panic(ex.unsupported(fmt.Sprintf("strings.Builder receiver holds %T", *c)))
	}
	return b
}

func init() {
	reg("(*strings.Builder).WriteString", func(ex *Exec, fr *frame, pos token.Pos, args []value) value {
		b, s := ex.builderOf(args[0]), args[1].(*Str)
		ex.needBytes(s)
		b.b = append(b.b, s.b...)
		return tuple{ex.b.I64(int64(len(s.b))), iface{}}
	})
	reg("(*strings.Builder).WriteByte", func(ex *Exec, fr *frame, pos token.Pos, args []value) value {
		b := ex.builderOf(args[0])
		b.b = append(b.b, args[1].(*smt.Term))
		return iface{}
	})
	reg("(*strings.Builder).WriteRune", func(ex *Exec, fr *frame, pos token.Pos, args []value) value {
		b := ex.builderOf(args[0])
		enc := ex.encodeRune(args[1].(*smt.Term))
		b.b = append(b.b, enc...)
		return tuple{ex.b.I64(int64(len(enc))), iface{}}
	})
	reg("(*strings.Builder).Write", func(ex *Exec, fr *frame, pos token.Pos, args []value) value {
		b := ex.builderOf(args[0])
		bs, _ := args[1].([]value)
		for _, x := range bs {
			b.b = append(b.b, x.(*smt.Term))
		}
		return tuple{ex.b.I64(int64(len(bs))), iface{}}
	})
	reg("(*strings.Builder).String", func(ex *Exec, fr *frame, pos token.Pos, args []value) value {
		b := ex.builderOf(args[0])
		return &Str{b: append([]*smt.Term{}, b.b...)}
	})
	reg("(*strings.Builder).Len", func(ex *Exec, fr *frame, pos token.Pos, args []value) value {
		return ex.b.I64(int64(len(ex.builderOf(args[0]).b)))
	})
	reg("(*strings.Builder).Grow", func(ex *Exec, fr *frame, pos token.Pos, args []value) value {
		ex.builderOf(args[0]).grown = true
		return nil
	})
	// Cap: zero exactly for a builder that was never grown or written (what strings.Map asks); otherwise at least Len
	reg("(*strings.Builder).Cap", func(ex *Exec, fr *frame, pos token.Pos, args []value) value {
		bl := ex.builderOf(args[0])
		n := len(bl.b)
		if n == 0 && bl.grown {
			n = 8
		}
		return ex.b.I64(int64(n))
	})
	reg("strings.Compare", func(ex *Exec, fr *frame, pos token.Pos, args []value) value {
		x, y := args[0].(*Str), args[1].(*Str)
		ex.needBytes(x, y)
		return ex.b.Ite(ex.strLess(x, y, false), ex.b.I64(-1), ex.b.Ite(ex.strLess(y, x, false), ex.b.I64(1), ex.b.I64(0)))
	})
	reg("(*strings.Builder).Reset", func(ex *Exec, fr *frame, pos token.Pos, args []value) value {
		ex.builderOf(args[0]).b = nil
		return nil
	})
}
