package symex

import (
	"fmt"
	"go/token"
	"go/types"
	"math/big"

	"gosmt/smt"
)

// Models added after the sixth round of seeded changes: the standard-library helpers a refactoring reaches for
// (sorting with a comparison closure, errors.As, atomics), so that code routed through them is decided rather than
// INCONCLUSIVE. Each is the documented behaviour for one goroutine.

func init() {
	// sort.Slice / sort.SliceStable: up to 12 elements the library runs this very insertion sort (pdqsort's small-slice
	// case; the stable sort's block of 20), so the order among equal elements is the library's too.
	sortSlice := func(ex *Exec, fr *frame, pos token.Pos, args []value) value {
		it, ok := args[0].(iface)
		if !ok || it.t == nil {
			panic(ex.unsupported("sort.Slice of a nil interface"))
		}
		sl, ok := it.v.([]value)
		if !ok {
			if it.v == nil {
				return nil
			}
			panic(ex.unsupported(fmt.Sprintf("sort.Slice of %T", it.v)))
		}
		if len(sl) > 12 {
			panic(ex.unsupported("sort.Slice of more than 12 elements"))
		}
		for i := 1; i < len(sl); i++ {
			for j := i; j > 0; j-- {
				r := ex.callValue(fr, pos, args[1], []value{ex.b.I64(int64(j)), ex.b.I64(int64(j - 1))})
				c, ok := r.(*smt.Term)
				if !ok {
					panic(ex.unsupported("sort.Slice: less did not return a bool term"))
				}
				if !ex.branch("sort.less", c) {
					break
				}
				a, b := sl[j], sl[j-1]
				ex.checkWriteVal(fr, pos, &sl[j], b)
				ex.checkWriteVal(fr, pos, &sl[j-1], a)
				sl[j], sl[j-1] = b, a
			}
		}
		return nil
	}
	reg("sort.Slice", sortSlice)
	reg("sort.SliceStable", sortSlice)

	// errors.As: the first error in the chain assignable to the target's element type is stored there.
	reg("errors.As", func(ex *Exec, fr *frame, pos token.Pos, args []value) value {
		err, _ := args[0].(iface)
		tg, ok := args[1].(iface)
		if !ok || tg.t == nil {
			panic(ex.unsupported("errors.As with a nil target"))
		}
		pt, ok := tg.t.Underlying().(*types.Pointer)
		cell, ok2 := tg.v.(*value)
		if !ok || !ok2 || cell == nil {
			panic(ex.unsupported("errors.As target is not a non-nil pointer"))
		}
		return ex.b.Bool(ex.errorsAs(fr, pos, err, pt.Elem(), cell, 0))
	})

	// sync/atomic on one goroutine: plain loads and stores. The typed wrappers (atomic.Int64 ...) run from source on
	// top of these; atomic.Value and atomic.Pointer[T], which go through unsafe, are modelled as one cell.
	for _, w := range []struct {
		suffix string
		bits   uint
		signed bool
	}{{"Int32", 32, true}, {"Int64", 64, true}, {"Uint32", 32, false}, {"Uint64", 64, false}, {"Uintptr", 64, false}} {
		w := w
		reg("sync/atomic.Load"+w.suffix, func(ex *Exec, fr *frame, pos token.Pos, args []value) value {
			return *ex.atomicCell(args[0])
		})
		reg("sync/atomic.Store"+w.suffix, func(ex *Exec, fr *frame, pos token.Pos, args []value) value {
			p := ex.atomicCell(args[0])
			ex.checkWriteVal(fr, pos, p, args[1])
			*p = args[1]
			return nil
		})
		reg("sync/atomic.Swap"+w.suffix, func(ex *Exec, fr *frame, pos token.Pos, args []value) value {
			p := ex.atomicCell(args[0])
			old := *p
			ex.checkWriteVal(fr, pos, p, args[1])
			*p = args[1]
			return old
		})
		reg("sync/atomic.Add"+w.suffix, func(ex *Exec, fr *frame, pos token.Pos, args []value) value {
			p := ex.atomicCell(args[0])
			nv := ex.b.Wrap(ex.b.Add((*p).(*smt.Term), args[1].(*smt.Term)), w.bits, w.signed)
			ex.checkWriteVal(fr, pos, p, nv)
			*p = nv
			return nv
		})
		reg("sync/atomic.CompareAndSwap"+w.suffix, func(ex *Exec, fr *frame, pos token.Pos, args []value) value {
			p := ex.atomicCell(args[0])
			if ex.branch("atomic.cas", ex.b.Eq((*p).(*smt.Term), args[1].(*smt.Term))) {
				ex.checkWriteVal(fr, pos, p, args[2])
				*p = args[2]
				return ex.b.True
			}
			return ex.b.False
		})
	}
	lastField := func(ex *Exec, recv value) *value {
		p := ex.atomicCell(recv)
		st, ok := (*p).(structure)
		if !ok || len(st) == 0 {
			panic(ex.unsupported(fmt.Sprintf("atomic receiver is %T", *p)))
		}
		return &st[len(st)-1]
	}
	for _, recv := range []string{"(*sync/atomic.Value)", "(*sync/atomic.Pointer[T])"} {
		isValue := recv == "(*sync/atomic.Value)"
		reg(recv+".Load", func(ex *Exec, fr *frame, pos token.Pos, args []value) value {
			return *lastField(ex, args[0])
		})
		reg(recv+".Store", func(ex *Exec, fr *frame, pos token.Pos, args []value) value {
			c := lastField(ex, args[0])
			if isValue {
				if it, ok := args[1].(iface); !ok || it.t == nil {
					panic(ex.unsupported("atomic.Value.Store(nil) panics")) // the library panics; no harness relies on it
				}
			}
			ex.checkWriteVal(fr, pos, c, args[1])
			*c = args[1]
			return nil
		})
		reg(recv+".Swap", func(ex *Exec, fr *frame, pos token.Pos, args []value) value {
			c := lastField(ex, args[0])
			old := *c
			ex.checkWriteVal(fr, pos, c, args[1])
			*c = args[1]
			return old
		})
	}
	reg("(*sync/atomic.Pointer[T]).CompareAndSwap", func(ex *Exec, fr *frame, pos token.Pos, args []value) value {
		c := lastField(ex, args[0])
		cur, _ := (*c).(*value)
		old, _ := args[1].(*value)
		if cur == old {
			ex.checkWriteVal(fr, pos, c, args[2])
			*c = args[2]
			return ex.b.True
		}
		return ex.b.False
	})
}

func (ex *Exec) atomicCell(v value) *value {
	p, ok := v.(*value)
	if !ok || p == nil {
		panic(ex.unsupported("atomic operation on a nil or non-pointer address"))
	}
	return p
}

// errorsAs walks err's chain as errors.As does (the error itself, then Unwrap() error / the joined errors in order).
func (ex *Exec) errorsAs(fr *frame, pos token.Pos, err iface, want types.Type, cell *value, depth int) bool {
	if err.t == nil || depth > 16 {
		return false
	}
	if _, isFake := err.t.(*fakeType); !isFake {
		if types.AssignableTo(err.t, want) {
			var nv value = err.v
			if _, isIface := want.Underlying().(*types.Interface); isIface {
				nv = err
			}
			ex.checkWriteVal(fr, pos, cell, nv)
			*cell = nv
			return true
		}
		if f := ex.P.Prog.LookupMethod(err.t, nil, "As"); f != nil {
			panic(ex.unsupported("errors.As over an error with its own As method"))
		}
	}
	switch e := err.v.(type) {
	case *ErrV:
		for _, w := range e.wraps {
			if ex.errorsAs(fr, pos, w.(iface), want, cell, depth+1) {
				return true
			}
		}
		return false
	}
	if _, isFake := err.t.(*fakeType); !isFake {
		if f := ex.P.Prog.LookupMethod(err.t, nil, "Unwrap"); f != nil && f.Signature.Results().Len() == 1 {
			if _, isIface := f.Signature.Results().At(0).Type().Underlying().(*types.Interface); isIface {
				r := ex.callFn(nil, token.NoPos, f, []value{err.v})
				return ex.errorsAs(fr, pos, r.(iface), want, cell, depth+1)
			}
			panic(ex.unsupported("errors.As over Unwrap() []error"))
		}
	}
	return false
}

func init() {
	// decimal.Decimal.NumDigits: the number of decimal digits of the coefficient (1 for zero), as a chain of
	// comparisons with powers of ten up to the coefficient's known bound (60 digits where none is known: a larger
	// coefficient on such a path is reported as unsupported, not guessed).
	reg("(github.com/shopspring/decimal.Decimal).NumDigits", func(ex *Exec, fr *frame, pos token.Pos, args []value) value {
		st, ok := args[0].(structure)
		if !ok || len(st) < 2 {
			panic(ex.unsupported(fmt.Sprintf("decimal.NumDigits receiver is %T", args[0])))
		}
		if p, isPtr := st[0].(*value); isPtr && p == nil {
			return ex.b.I64(1)
		}
		t := ex.bigOf(st[0], fr, pos)
		if c, ok := t.ConstInt(); ok {
			n := len(new(big.Int).Abs(c).String())
			return ex.b.I64(int64(n))
		}
		b := ex.b
		abs := b.Ite(b.Lt(t, b.I64(0)), b.Neg(t), t)
		maxDigits := 60
		if t.Lo != nil && t.Hi != nil {
			m := new(big.Int).Abs(t.Lo)
			if h := new(big.Int).Abs(t.Hi); h.Cmp(m) > 0 {
				m = h
			}
			maxDigits = len(m.String())
		} else {
			lim := b.Int(new(big.Int).Exp(big.NewInt(10), big.NewInt(60), nil))
			if ex.branch("numdigits-beyond-60", b.Ge(abs, lim)) {
				panic(ex.unsupported("decimal.NumDigits of an unbounded coefficient beyond 60 digits"))
			}
		}
		r := b.I64(int64(maxDigits))
		for k := maxDigits - 1; k >= 1; k-- {
			r = b.Ite(b.Lt(abs, b.Int(new(big.Int).Exp(big.NewInt(10), big.NewInt(int64(k)), nil))), b.I64(int64(k)), r)
		}
		return r
	})
}

func init() {
	// maps.Clone goes through a runtime primitive: a fresh map with the same entries (shallow, as documented)
	reg("maps.Clone", func(ex *Exec, fr *frame, pos token.Pos, args []value) value {
		m, ok := args[0].(*MapV)
		if !ok || m == nil {
			return args[0]
		}
		c := &MapV{keyT: m.keyT}
		for _, e := range m.entries {
			if !e.deleted {
				c.entries = append(c.entries, &mapEntry{k: e.k, v: e.v})
			}
		}
		return c
	})
}
