package symex

import (
	"fmt"
	"go/token"
	"math/big"
	"strings"
	"time"

	"gosmt/smt"
)

// TimeV models time.Time as an instant (Unix seconds + nanoseconds) plus a location with a
// (possibly symbolic) fixed offset. The civil date of the local time is cached when it is
// known (constructed from fields that the solver proves normalised).
type TimeV struct {
	sec  *smt.Term
	nsec *smt.Term
	loc  *LocV
	ymd  *[3]*smt.Term
	// ymdIf: the civil date is ymd whenever this condition holds (nil = unconditionally)
	ymdIf *smt.Term
}

type LocV struct {
	kind string    // "utc", "local", "fixed"
	off  *smt.Term // seconds east of UTC (fixed)
	name string
}

var locUTC = &LocV{kind: "utc", name: "UTC"}
var locLocal = &LocV{kind: "local", name: "Local"}

// BuilderV models strings.Builder.
type BuilderV struct {
	b     []*smt.Term
	grown bool
}

func (ex *Exec) timeZero() value {
	// January 1, year 1, 00:00:00 UTC
	return TimeV{sec: ex.b.I64(-62135596800), nsec: ex.b.I64(0), loc: locUTC,
		ymd: &[3]*smt.Term{ex.b.I64(1), ex.b.I64(1), ex.b.I64(1)}}
}

func (ex *Exec) locOffset(l *LocV) *smt.Term {
	switch l.kind {
	case "utc":
		return ex.b.I64(0)
	case "fixed":
		return l.off
	}
	panic(ex.unsupported("time: wall-clock fields in the process-local time zone"))
}

func (ex *Exec) asTime(v value) TimeV {
	switch t := v.(type) {
	case TimeV:
		return t
	case *value:
		if t != nil {
			if tv, ok := (*t).(TimeV); ok {
				return tv
			}
		}
	}
	panic(ex.unsupported(fmt.Sprintf("time method on %T", v)))
}

func (ex *Exec) asLoc(v value) *LocV {
	switch l := v.(type) {
	case *LocV:
		return l
	case *value:
		if l == nil {
			return nil
		}
		if lv, ok := (*l).(*LocV); ok {
			return lv
		}
	}
	panic(ex.unsupported(fmt.Sprintf("time: location is %T", v)))
}

func (ex *Exec) k(v int64) *smt.Term { return ex.b.I64(v) }

// ---- calendar as terms ----

func (ex *Exec) daysFromCivil(y, m, d *smt.Term) *smt.Term {
	b := ex.b
	le2 := b.Le(m, ex.k(2))
	y2 := b.Ite(le2, b.Sub(y, ex.k(1)), y)
	era := b.Div(y2, ex.k(400))
	yoe := b.Sub(y2, b.Mul(era, ex.k(400)))
	mp := b.Ite(le2, b.Add(m, ex.k(9)), b.Sub(m, ex.k(3)))
	doy := b.Add(b.Div(b.Add(b.Mul(ex.k(153), mp), ex.k(2)), ex.k(5)), b.Sub(d, ex.k(1)))
	doe := b.Add(b.Sub(b.Add(b.Mul(yoe, ex.k(365)), b.Div(yoe, ex.k(4))), b.Div(yoe, ex.k(100))), doy)
	return b.Sub(b.Add(b.Mul(era, ex.k(146097)), doe), ex.k(719468))
}

// civilFromDays is the inverse of daysFromCivil. It is encoded *by constraint*: fresh (y, m, d)
// with daysFromCivil(y, m, d) = days and (y, m, d) a valid civil date. Every day number has exactly
// one valid civil date, so the constraint is definitional (always satisfiable, unique solution);
// solvers handle it far better than the forward division chain.
func (ex *Exec) civilFromDays(days *smt.Term) (y, m, d *smt.Term) {
	return ex.civilFromDaysUnless(days, nil)
}

// civilFromDaysUnless: as civilFromDays, but the defining constraint is only imposed when skip is false
// (the caller uses another value when skip holds).
func (ex *Exec) civilFromDaysUnless(days *smt.Term, skip *smt.Term) (y, m, d *smt.Term) {
	if c, ok := days.ConstInt(); ok {
		cy, cm, cd := civilFromDaysConcrete(c.Int64())
		return ex.k(cy), ex.k(cm), ex.k(cd)
	}
	if got, ok := ex.civilMemo[days.ID]; ok && skip == nil {
		return got[0], got[1], got[2]
	}
	if ex.splitCalendar && days.Lo != nil && days.Hi != nil && days.Lo.IsInt64() && days.Hi.IsInt64() && days.Hi.Int64()-days.Lo.Int64() <= 1200 {
		// small range: decide the (year, month) the day falls in; the day of month is then linear
		lo, hi := days.Lo.Int64(), days.Hi.Int64()
		type seg struct{ y, m, start, end int64 }
		var segs []seg
		cy, cm, _ := civilFromDaysConcrete(lo)
		for {
			start := daysFromCivilConcrete(cy, cm, 1)
			ny, nm := cy, cm+1
			if nm > 12 {
				ny, nm = cy+1, 1
			}
			end := daysFromCivilConcrete(ny, nm, 1) - 1
			segs = append(segs, seg{cy, cm, start, end})
			if end >= hi {
				break
			}
			cy, cm = ny, nm
		}
		b := ex.b
		alts := make([]*smt.Term, len(segs))
		for i, sg := range segs {
			alts[i] = b.And(b.Le(ex.k(sg.start), days), b.Le(days, ex.k(sg.end)))
		}
		var pick int
		if skip != nil {
			// under skip the value is unused: do not fork on it
			if cb, ok := skip.ConstBool(); ok && cb {
				return ex.k(1), ex.k(1), ex.k(1)
			}
			pick = ex.decide("civil-month", alts)
		} else {
			pick = ex.decide("civil-month", alts)
		}
		sg := segs[pick]
		return ex.k(sg.y), ex.k(sg.m), b.Add(b.Sub(days, ex.k(sg.start)), ex.k(1))
	}
	ex.civilSeq++
	mk := func(n string, lo, hi int64) *smt.Term {
		v := ex.b.Var(fmt.Sprintf("civil.%s!%d", n, ex.civilSeq), smt.SInt, big.NewInt(lo), big.NewInt(hi))
		if ex.solver != nil {
			ex.solver.AssertRange(v)
		}
		ex.extraVars = append(ex.extraVars, v)
		return v
	}
	y, m, d = mk("y", -1000000, 1000000), mk("m", 1, 12), mk("d", 1, 31)
	b := ex.b
	def := b.And(b.Eq(ex.daysFromCivil(y, m, d), days), b.Le(d, ex.daysIn(y, m)))
	if skip != nil {
		def = b.Or(skip, def)
	}
	ex.assume(def)
	if skip != nil {
		return // conditional definitions are not shared
	}
	if ex.civilMemo == nil {
		ex.civilMemo = map[int][3]*smt.Term{}
	}
	ex.civilMemo[days.ID] = [3]*smt.Term{y, m, d}
	return
}

func daysFromCivilConcrete(y, m, d int64) int64 {
	fd := func(a, b int64) int64 {
		q := a / b
		if a%b != 0 && (a < 0) != (b < 0) {
			q--
		}
		return q
	}
	if m <= 2 {
		y--
	}
	era := fd(y, 400)
	yoe := y - era*400
	mp := m - 3
	if m <= 2 {
		mp = m + 9
	}
	doy := (153*mp+2)/5 + d - 1
	doe := yoe*365 + yoe/4 - yoe/100 + doy
	return era*146097 + doe - 719468
}

func civilFromDaysConcrete(z int64) (int64, int64, int64) {
	fd := func(a, b int64) int64 {
		q := a / b
		if a%b != 0 && (a < 0) != (b < 0) {
			q--
		}
		return q
	}
	z += 719468
	era := fd(z, 146097)
	doe := z - era*146097
	yoe := (doe - doe/1460 + doe/36524 - doe/146096) / 365
	y := yoe + era*400
	doy := doe - (365*yoe + yoe/4 - yoe/100)
	mp := (5*doy + 2) / 153
	d := doy - (153*mp+2)/5 + 1
	m := mp + 3
	if mp >= 10 {
		m = mp - 9
	}
	if m <= 2 {
		y++
	}
	return y, m, d
}

func (ex *Exec) isLeap(y *smt.Term) *smt.Term {
	b := ex.b
	return b.And(b.Eq(b.Mod(y, ex.k(4)), ex.k(0)), b.Or(b.Ne(b.Mod(y, ex.k(100)), ex.k(0)), b.Eq(b.Mod(y, ex.k(400)), ex.k(0))))
}

func (ex *Exec) daysIn(y, m *smt.Term) *smt.Term {
	b := ex.b
	is := func(v int64) *smt.Term { return b.Eq(m, ex.k(v)) }
	return b.Ite(is(2), b.Ite(ex.isLeap(y), ex.k(29), ex.k(28)),
		b.Ite(b.Or(is(4), is(6), is(9), is(11)), ex.k(30), ex.k(31)))
}

// ---- accessors ----

func (ex *Exec) localSec(t TimeV) *smt.Term { return ex.b.Add(t.sec, ex.locOffset(t.loc)) }

func (ex *Exec) timeYMD(t TimeV) (y, m, d *smt.Term) {
	if t.ymd == nil {
		// an instant whose civil date was established earlier on this path (e.g. it went through UnixMicro and back)
		if e, ok := ex.ymdMemo[ex.localSec(t).ID]; ok {
			t.ymd, t.ymdIf = e.ymd, e.cond
		}
	}
	if t.ymd != nil && t.ymdIf == nil {
		return t.ymd[0], t.ymd[1], t.ymd[2]
	}
	days := ex.b.Div(ex.localSec(t), ex.k(86400))
	if t.ymd != nil {
		// the given fields are the civil date when they were in range; otherwise (normalised
		// overflow such as Feb 31) the inverse calendar function decides
		iy, im, id := ex.civilFromDaysUnless(days, t.ymdIf)
		b := ex.b
		return b.Ite(t.ymdIf, t.ymd[0], iy), b.Ite(t.ymdIf, t.ymd[1], im), b.Ite(t.ymdIf, t.ymd[2], id)
	}
	return ex.civilFromDays(days)
}

func (ex *Exec) timeHMS(t TimeV) (h, mi, s *smt.Term) {
	b := ex.b
	sod := b.Mod(ex.localSec(t), ex.k(86400))
	h, mi, s = b.Div(sod, ex.k(3600)), b.Div(b.Mod(sod, ex.k(3600)), ex.k(60)), b.Mod(sod, ex.k(60))
	if ex.hmsOf == nil || ex.hmsB != b {
		ex.hmsOf, ex.hmsB = map[[3]int]*smt.Term{}, b
	}
	ex.hmsOf[[3]int{h.ID, mi.ID, s.ID}] = sod // h*3600 + mi*60 + s == sod: lets mkDate put the pieces back together
	return h, mi, s
}

// mkDate is time.Date with Go's normalisation of out-of-range fields.
// narrow case-splits a term with a small known range into a constant (calendar functions are
// piecewise linear per (year, month); splitting there keeps every solver query linear).
func (ex *Exec) narrow(kind string, t *smt.Term, maxWidth int64) *smt.Term {
	if t.IsConst() || t.Lo == nil || t.Hi == nil || !t.Lo.IsInt64() || !t.Hi.IsInt64() {
		return t
	}
	lo, hi := t.Lo.Int64(), t.Hi.Int64()
	if hi-lo+1 > maxWidth {
		return t
	}
	return ex.k(ex.concretize(kind, t, lo, hi))
}

func (ex *Exec) mkDate(y, m, d, h, mi, s, ns *smt.Term, loc *LocV) TimeV {
	b := ex.b
	if ex.splitCalendar {
		y = ex.narrow("year", y, 16)
		m = ex.narrow("month", m, 64)
	}
	// normalise month into [1,12]
	m0 := b.Sub(m, ex.k(1))
	y1 := b.Add(y, b.Div(m0, ex.k(12)))
	m1 := b.Add(b.Mod(m0, ex.k(12)), ex.k(1))
	days := b.Add(ex.daysFromCivil(y1, m1, ex.k(1)), b.Sub(d, ex.k(1)))
	var secs *smt.Term
	if sod, ok := ex.hmsOf[[3]int{h.ID, mi.ID, s.ID}]; ok && ex.hmsB == b {
		secs = b.Add(b.Mul(days, ex.k(86400)), sod) // the hour, minute and second of one instant: its second of the day
	} else {
		secs = b.Add(b.Add(b.Add(b.Mul(days, ex.k(86400)), b.Mul(h, ex.k(3600))), b.Mul(mi, ex.k(60))), s)
	}
	secs = b.Add(secs, b.Div(ns, ex.k(1000000000)))
	nsec := b.Mod(ns, ex.k(1000000000))
	t := TimeV{sec: b.Sub(secs, ex.locOffset(loc)), nsec: nsec, loc: loc}
	// the given fields are the civil date of the result whenever they are in range (no overflow
	// normalisation); y1/m1 are already normalised
	valid := b.And(b.Le(ex.k(1), d), b.Le(d, ex.daysIn(y1, m1)),
		b.Le(ex.k(0), h), b.Lt(h, ex.k(24)), b.Le(ex.k(0), mi), b.Lt(mi, ex.k(60)), b.Le(ex.k(0), s), b.Lt(s, ex.k(60)),
		b.Le(ex.k(0), ns), b.Lt(ns, ex.k(1000000000)))
	if cb, ok := valid.ConstBool(); ok {
		if cb {
			t.ymd = &[3]*smt.Term{y1, m1, d}
		}
	} else if ex.checkSat(b.Not(valid)) == smt.Unsat {
		t.ymd = &[3]*smt.Term{y1, m1, d} // provably in range on this path
	} else {
		t.ymd = &[3]*smt.Term{y1, m1, d}
		t.ymdIf = valid
	}
	if t.ymd != nil {
		if ex.ymdMemo == nil {
			ex.ymdMemo = map[int]ymdEntry{}
		}
		ex.ymdMemo[ex.localSec(t).ID] = ymdEntry{t.ymd, t.ymdIf}
	}
	return t
}

// ymdEntry: the civil date known for a local-seconds term on the current path (cond nil = unconditionally).
type ymdEntry struct {
	ymd  *[3]*smt.Term
	cond *smt.Term
}

func (ex *Exec) timeFromGo(t time.Time) TimeV {
	_, off := t.Zone()
	loc := locUTC
	if off != 0 || t.Location() != time.UTC {
		if t.Location() == time.UTC {
			loc = locUTC
		} else {
			loc = &LocV{kind: "fixed", off: ex.k(int64(off)), name: t.Location().String()}
		}
	}
	y, m, d := t.Date()
	return TimeV{sec: ex.k(t.Unix()), nsec: ex.k(int64(t.Nanosecond())), loc: loc,
		ymd: &[3]*smt.Term{ex.k(int64(y)), ex.k(int64(m)), ex.k(int64(d))}}
}

// ---- formatting ----

type fmtTag struct {
	t      TimeV
	layout string
}

var layoutTokens = []string{"2006", "01", "02", "15", "04", "05", ".000000000", ".000000", ".000", "Z07:00", "-07:00", "MST"}

func splitLayout(layout string) ([]string, bool) {
	var out []string
	for i := 0; i < len(layout); {
		matched := false
		for _, tok := range layoutTokens {
			if strings.HasPrefix(layout[i:], tok) {
				out = append(out, tok)
				i += len(tok)
				matched = true
				break
			}
		}
		if matched {
			continue
		}
		c := layout[i]
		if (c >= '0' && c <= '9') || (c >= 'A' && c <= 'Z' && c != 'T') || (c >= 'a' && c <= 'z') || c == '_' {
			return nil, false // some layout element we do not model
		}
		out = append(out, "lit:"+string(c))
		i++
	}
	return out, true
}

func (ex *Exec) timeFormat(t TimeV, layout string) *Str {
	b := ex.b
	toks, ok := splitLayout(layout)
	if !ok {
		panic(ex.unsupported("time.Format layout " + layout))
	}
	r := &Str{}
	needDate, needTime := false, false
	for _, tk := range toks {
		switch tk {
		case "2006", "01", "02":
			needDate = true
		case "15", "04", "05":
			needTime = true
		}
	}
	var y, m, d, h, mi, s *smt.Term
	yearDigits := 4
	if needDate {
		y, m, d = ex.timeYMD(t)
		// years outside 0..9999 print differently
		yearDigits = 4
		if !ex.branch("time-year-4digit", b.And(b.Le(ex.k(0), y), b.Le(y, ex.k(9999)))) {
			// Go prints a year beyond 9999 with all its digits; five-digit years are modelled, the rest is not
			if !ex.branch("time-year-5digit", b.And(b.Le(ex.k(10000), y), b.Le(y, ex.k(99999)))) {
				panic(ex.unsupported("time.Format with a year outside 0..99999"))
			}
			yearDigits = 5
		}
	}
	if needTime {
		h, mi, s = ex.timeHMS(t)
	}
	for _, tk := range toks {
		switch tk {
		case "2006":
			r.b = append(r.b, ex.padInt(y, yearDigits)...)
		case "01":
			r.b = append(r.b, ex.padInt(m, 2)...)
		case "02":
			r.b = append(r.b, ex.padInt(d, 2)...)
		case "15":
			r.b = append(r.b, ex.padInt(h, 2)...)
		case "04":
			r.b = append(r.b, ex.padInt(mi, 2)...)
		case "05":
			r.b = append(r.b, ex.padInt(s, 2)...)
		case ".000":
			r.b = append(r.b, ex.k('.'))
			r.b = append(r.b, ex.padInt(b.Div(t.nsec, ex.k(1000000)), 3)...)
		case ".000000":
			r.b = append(r.b, ex.k('.'))
			r.b = append(r.b, ex.padInt(b.Div(t.nsec, ex.k(1000)), 6)...)
		case ".000000000":
			r.b = append(r.b, ex.k('.'))
			r.b = append(r.b, ex.padInt(t.nsec, 9)...)
		case "Z07:00", "-07:00":
			off := ex.locOffset(t.loc)
			if tk == "Z07:00" && ex.branch("time-zone-Z", b.Eq(off, ex.k(0))) {
				r.b = append(r.b, ex.k('Z'))
				break
			}
			neg := ex.branch("time-zone-sign", b.Lt(off, ex.k(0)))
			a := off
			if neg {
				a = b.Neg(off)
				r.b = append(r.b, ex.k('-'))
			} else {
				r.b = append(r.b, ex.k('+'))
			}
			mins := b.Div(a, ex.k(60))
			r.b = append(r.b, ex.padInt(b.Div(mins, ex.k(60)), 2)...)
			r.b = append(r.b, ex.k(':'))
			r.b = append(r.b, ex.padInt(b.Mod(mins, ex.k(60)), 2)...)
		case "MST":
			panic(ex.unsupported("time.Format zone abbreviation"))
		default:
			r.b = append(r.b, ex.k(int64(tk[4])))
		}
	}
	if yearDigits == 4 {
		// (a five-digit year does not parse back with the layout: the text goes through the real time.Parse)
		r.tag = &fmtTag{t: t, layout: layout}
	}
	return r
}

// parseTagged implements time.Parse(layout, t.Format(layout)): the value truncated to the layout's fields.
func (ex *Exec) parseTagged(tag *fmtTag) TimeV { return ex.parseTaggedIn(tag, locUTC) }

// parseTaggedIn: the layout's fields of the rendered time, read in defLoc when the layout writes no offset.
func (ex *Exec) parseTaggedIn(tag *fmtTag, defLoc *LocV) TimeV {
	b := ex.b
	toks, _ := splitLayout(tag.layout)
	has := map[string]bool{}
	for _, tk := range toks {
		has[tk] = true
	}
	t := tag.t
	y, m, d := ex.k(0), ex.k(1), ex.k(1)
	h, mi, s, ns := ex.k(0), ex.k(0), ex.k(0), ex.k(0)
	if has["2006"] || has["01"] || has["02"] {
		ty, tm, td := ex.timeYMD(t)
		if has["2006"] {
			y = ty
		}
		if has["01"] {
			m = tm
		}
		if has["02"] {
			d = td
		}
	}
	if has["15"] || has["04"] || has["05"] {
		th, tmi, ts := ex.timeHMS(t)
		if has["15"] {
			h = th
		}
		if has["04"] {
			mi = tmi
		}
		if has["05"] {
			s = ts
		}
	}
	switch {
	case has[".000"]:
		ns = b.Mul(b.Div(t.nsec, ex.k(1000000)), ex.k(1000000))
	case has[".000000"]:
		ns = b.Mul(b.Div(t.nsec, ex.k(1000)), ex.k(1000))
	case has[".000000000"]:
		ns = t.nsec
	}
	loc := defLoc
	if has["Z07:00"] || has["-07:00"] {
		off := ex.locOffset(t.loc)
		// the printed offset drops seconds
		offMin := b.Mul(b.TDiv(off, ex.k(60)), ex.k(60))
		if cb, ok := off.ConstInt(); ok && cb.Sign() == 0 {
			loc = locUTC
		} else {
			loc = &LocV{kind: "fixed", off: offMin, name: ""}
		}
	}
	return ex.mkDate(y, m, d, h, mi, s, ns, loc)
}

func init() {
	execFuncPrefixes = append(execFuncPrefixes, "(time.Duration).", "(time.Month).", "time.daysIn", "time.isLeap")

	reg("time.Now", func(ex *Exec, fr *frame, pos token.Pos, args []value) value {
		// an arbitrary instant, non-decreasing across calls within one path
		ex.nowCalls++
		lo, hi := big.NewInt(-62135596800), big.NewInt(253402300799)
		sec := ex.b.Var(fmt.Sprintf("now.sec#%d", ex.nowCalls), smt.SInt, lo, hi)
		nsec := ex.b.Var(fmt.Sprintf("now.nsec#%d", ex.nowCalls), smt.SInt, big0, big.NewInt(999999999))
		if ex.solver != nil {
			ex.solver.AssertRange(sec)
			ex.solver.AssertRange(nsec)
		}
		ex.extraVars = append(ex.extraVars, sec, nsec)
		t := TimeV{sec: sec, nsec: nsec, loc: locLocal}
		if ex.lastNow != nil {
			b := ex.b
			ex.assume(b.Or(b.Lt(ex.lastNow.sec, sec), b.And(b.Eq(ex.lastNow.sec, sec), b.Le(ex.lastNow.nsec, nsec))))
		}
		ex.lastNow = &t
		return t
	})
	reg("time.Date", func(ex *Exec, fr *frame, pos token.Pos, args []value) value {
		loc := ex.asLoc(args[7])
		if loc == nil {
			ex.oblige("panic", "time: missing Location in call to Date", fr, pos, ex.b.False)
		}
		tt := func(i int) *smt.Term { return args[i].(*smt.Term) }
		return ex.mkDate(tt(0), tt(1), tt(2), tt(3), tt(4), tt(5), tt(6), loc)
	})
	reg("time.UnixMicro", func(ex *Exec, fr *frame, pos token.Pos, args []value) value {
		us := args[0].(*smt.Term)
		b := ex.b
		if t, ok := ex.usMemo[us.ID]; ok {
			// the microsecond count of a known instant: the same instant, truncated to microseconds
			return TimeV{sec: t.sec, nsec: b.Sub(t.nsec, b.Mod(t.nsec, ex.k(1000))), loc: locLocal}
		}
		return TimeV{sec: b.Div(us, ex.k(1000000)), nsec: b.Mul(b.Mod(us, ex.k(1000000)), ex.k(1000)), loc: locLocal}
	})
	reg("time.Unix", func(ex *Exec, fr *frame, pos token.Pos, args []value) value {
		b := ex.b
		s, ns := args[0].(*smt.Term), args[1].(*smt.Term)
		return TimeV{sec: b.Add(s, b.Div(ns, ex.k(1000000000))), nsec: b.Mod(ns, ex.k(1000000000)), loc: locLocal}
	})
	// LoadLocation: "" and "UTC" are UTC, "Local" is the process zone; a name that cannot be in the time zone database
	// (shorter than three characters, or with characters no zone name has) is an error; real zone names (DST rules) are
	// not modelled.
	reg("time.LoadLocation", func(ex *Exec, fr *frame, pos token.Pos, args []value) value {
		name := ex.wantConcrete(args[0], "time.LoadLocation")
		mk := func(l *LocV) value {
			cell := new(value)
			*cell = l
			return tuple{cell, iface{}}
		}
		switch name {
		case "", "UTC":
			return mk(locUTC)
		case "Local":
			return mk(locLocal)
		}
		bad := len(name) < 3
		for i := 0; i < len(name); i++ {
			ch := name[i]
			if !(ch >= 'a' && ch <= 'z' || ch >= 'A' && ch <= 'Z' || ch >= '0' && ch <= '9' || ch == '/' || ch == '_' || ch == '-' || ch == '+') {
				bad = true
			}
		}
		if bad {
			var nilLoc *value
			return tuple{nilLoc, ex.newErr("unknown time zone " + name)}
		}
		panic(ex.unsupported("time.LoadLocation of a named zone (" + name + ")"))
	})
	reg("time.FixedZone", func(ex *Exec, fr *frame, pos token.Pos, args []value) value {
		cell := new(value)
		*cell = &LocV{kind: "fixed", off: args[1].(*smt.Term), name: "fixed"}
		return cell
	})
	reg("(time.Time).In", func(ex *Exec, fr *frame, pos token.Pos, args []value) value {
		t := ex.asTime(args[0])
		loc := ex.asLoc(args[1])
		if loc == nil {
			ex.oblige("panic", "time: missing Location in call to Time.In", fr, pos, ex.b.False)
		}
		return TimeV{sec: t.sec, nsec: t.nsec, loc: loc}
	})
	reg("(time.Time).UTC", func(ex *Exec, fr *frame, pos token.Pos, args []value) value {
		t := ex.asTime(args[0])
		r := TimeV{sec: t.sec, nsec: t.nsec, loc: locUTC}
		if t.loc.kind == "utc" {
			r.ymd, r.ymdIf = t.ymd, t.ymdIf
		}
		return r
	})
	reg("(time.Time).Local", func(ex *Exec, fr *frame, pos token.Pos, args []value) value {
		t := ex.asTime(args[0])
		return TimeV{sec: t.sec, nsec: t.nsec, loc: locLocal}
	})
	reg("(time.Time).Location", func(ex *Exec, fr *frame, pos token.Pos, args []value) value {
		t := ex.asTime(args[0])
		cell := new(value)
		*cell = t.loc
		return cell
	})
	reg("(time.Time).Zone", func(ex *Exec, fr *frame, pos token.Pos, args []value) value {
		t := ex.asTime(args[0])
		return tuple{ex.opaqueStr("zone name"), ex.locOffset(t.loc)}
	})
	reg("(time.Time).Equal", func(ex *Exec, fr *frame, pos token.Pos, args []value) value {
		t, u := ex.asTime(args[0]), ex.asTime(args[1])
		return ex.b.And(ex.b.Eq(t.sec, u.sec), ex.b.Eq(t.nsec, u.nsec))
	})
	reg("(time.Time).Before", func(ex *Exec, fr *frame, pos token.Pos, args []value) value {
		t, u := ex.asTime(args[0]), ex.asTime(args[1])
		b := ex.b
		return b.Or(b.Lt(t.sec, u.sec), b.And(b.Eq(t.sec, u.sec), b.Lt(t.nsec, u.nsec)))
	})
	reg("(time.Time).After", func(ex *Exec, fr *frame, pos token.Pos, args []value) value {
		t, u := ex.asTime(args[0]), ex.asTime(args[1])
		b := ex.b
		return b.Or(b.Lt(u.sec, t.sec), b.And(b.Eq(t.sec, u.sec), b.Lt(u.nsec, t.nsec)))
	})
	reg("(time.Time).IsZero", func(ex *Exec, fr *frame, pos token.Pos, args []value) value {
		t := ex.asTime(args[0])
		return ex.b.And(ex.b.Eq(t.sec, ex.k(-62135596800)), ex.b.Eq(t.nsec, ex.k(0)))
	})
	reg("(time.Time).Add", func(ex *Exec, fr *frame, pos token.Pos, args []value) value {
		t := ex.asTime(args[0])
		d := args[1].(*smt.Term)
		b := ex.b
		n := b.Add(t.nsec, d)
		return TimeV{sec: b.Add(t.sec, b.Div(n, ex.k(1000000000))), nsec: b.Mod(n, ex.k(1000000000)), loc: t.loc}
	})
	// Truncate rounds down to a multiple of d since the zero time (year 1).
	reg("(time.Time).Truncate", func(ex *Exec, fr *frame, pos token.Pos, args []value) value {
		t := ex.asTime(args[0])
		d := args[1].(*smt.Term)
		b := ex.b
		dc, ok := d.ConstInt()
		if !ok {
			panic(ex.unsupported("time.Truncate with a symbolic duration"))
		}
		if dc.Sign() <= 0 {
			return t
		}
		abs := b.Add(t.sec, ex.k(62135596800))
		// (for an instant before year 1 Go computes the floored remainder as well, which is what SMT mod gives)
		total := b.Add(b.Mul(abs, ex.k(1000000000)), t.nsec)
		r := b.Mod(total, d)
		if dc.IsInt64() && 1000000000%dc.Int64() == 0 {
			// d divides a second: only the nanoseconds change, the civil date and time stay
			out := t
			out.nsec = b.Sub(t.nsec, b.Mod(t.nsec, d))
			return out
		}
		n := b.Sub(t.nsec, r)
		return TimeV{sec: b.Add(t.sec, b.Div(n, ex.k(1000000000))), nsec: b.Mod(n, ex.k(1000000000)), loc: t.loc}
	})
	reg("(time.Time).AddDate", func(ex *Exec, fr *frame, pos token.Pos, args []value) value {
		t := ex.asTime(args[0])
		b := ex.b
		y, m, d := ex.timeYMD(t)
		h, mi, s := ex.timeHMS(t)
		return ex.mkDate(b.Add(y, args[1].(*smt.Term)), b.Add(m, args[2].(*smt.Term)), b.Add(d, args[3].(*smt.Term)), h, mi, s, t.nsec, t.loc)
	})
	reg("(time.Time).UnixMicro", func(ex *Exec, fr *frame, pos token.Pos, args []value) value {
		t := ex.asTime(args[0])
		b := ex.b
		us := b.Wrap(b.Add(b.Mul(t.sec, ex.k(1000000)), b.Div(t.nsec, ex.k(1000))), 64, true)
		if us.Lo != nil && us.Hi != nil && us.Lo.IsInt64() && us.Hi.IsInt64() { // no wrap-around
			if ex.usMemo == nil {
				ex.usMemo = map[int]TimeV{}
			}
			ex.usMemo[us.ID] = t
		}
		return us
	})
	reg("(time.Time).Unix", func(ex *Exec, fr *frame, pos token.Pos, args []value) value {
		return ex.asTime(args[0]).sec
	})
	field := func(which int) modelFunc {
		return func(ex *Exec, fr *frame, pos token.Pos, args []value) value {
			t := ex.asTime(args[0])
			switch which {
			case 0, 1, 2:
				y, m, d := ex.timeYMD(t)
				return []*smt.Term{y, m, d}[which]
			case 3, 4, 5:
				h, mi, s := ex.timeHMS(t)
				return []*smt.Term{h, mi, s}[which-3]
			}
			return t.nsec
		}
	}
	reg("(time.Time).Year", field(0))
	reg("(time.Time).Month", field(1))
	reg("(time.Time).Day", field(2))
	reg("(time.Time).Hour", field(3))
	reg("(time.Time).Minute", field(4))
	reg("(time.Time).Second", field(5))
	reg("(time.Time).Nanosecond", field(6))
	reg("(time.Time).Clock", func(ex *Exec, fr *frame, pos token.Pos, args []value) value {
		h, mi, sec := ex.timeHMS(ex.asTime(args[0]))
		return tuple{h, mi, sec}
	})
	reg("(time.Time).Date", func(ex *Exec, fr *frame, pos token.Pos, args []value) value {
		y, m, d := ex.timeYMD(ex.asTime(args[0]))
		return tuple{y, m, d}
	})
	reg("(time.Time).YearDay", func(ex *Exec, fr *frame, pos token.Pos, args []value) value {
		panic(ex.unsupported("time.Time.YearDay"))
	})
	reg("(time.Time).Format", func(ex *Exec, fr *frame, pos token.Pos, args []value) value {
		t := ex.asTime(args[0])
		layout := ex.wantConcrete(args[1], "time.Format layout")
		return ex.timeFormat(t, layout)
	})
	// ParseInLocation: as Parse, but a text without an offset is read in the given location (fixed zones and UTC; a text
	// *with* an offset keeps it, as a fixed zone - whether it is also the location's own is a matter of the zone's name)
	reg("time.ParseInLocation", func(ex *Exec, fr *frame, pos token.Pos, args []value) value {
		layout := ex.wantConcrete(args[0], "time.ParseInLocation layout")
		s := args[1].(*Str)
		loc := ex.asLoc(args[2])
		if loc == nil {
			ex.oblige("panic", "time: missing Location in call to ParseInLocation", fr, pos, ex.b.False)
		}
		if loc.kind == "local" {
			panic(ex.unsupported("time.ParseInLocation in the process's Local zone"))
		}
		if s.tag != nil && s.tag.layout == layout {
			return tuple{ex.parseTaggedIn(s.tag, loc), iface{}}
		}
		panic(ex.unsupported("time.ParseInLocation of a text that is not a rendering in the same layout"))
	})
	reg("time.Parse", func(ex *Exec, fr *frame, pos token.Pos, args []value) value {
		layout := ex.wantConcrete(args[0], "time.Parse layout")
		s := args[1].(*Str)
		if s.tag != nil && s.tag.layout == layout {
			return tuple{ex.parseTagged(s.tag), iface{}}
		}
		if c, ok := s.concrete(); ok {
			t, err := time.Parse(layout, c)
			if err != nil {
				return tuple{ex.timeZero(), ex.newErr("time.Parse: " + err.Error())}
			}
			return tuple{ex.timeFromGo(t), iface{}}
		}
		return ex.symbolicTimeParse(fr, pos, layout, s)
	})
}

// symbolicTimeParse executes the real time.parse from its SSA on symbolic text; only the
// leaves that touch Time's representation are models (Date, addSec, setLoc, unixSec,
// Location.lookup, FixedZone).
func (ex *Exec) symbolicTimeParse(fr *frame, pos token.Pos, layout string, s *Str) value {
	ex.needBytes(s)
	pkg := ex.P.SSAPkgs["time"]
	if pkg == nil {
		panic(ex.unsupported("time.Parse of symbolic text: package time not loaded with bodies"))
	}
	f := pkg.Func("parse")
	if f == nil || f.Blocks == nil {
		panic(ex.unsupported("time.Parse of symbolic text: no body for time.parse"))
	}
	utc, local := new(value), new(value)
	*utc, *local = locUTC, locLocal
	ex.Models["time.parse(executed from source)"]++
	return ex.callSSA(fr, pos, f, []value{ex.strConst(layout), &Str{b: s.b}, utc, local}, nil)
}

func init() {
	execFuncPrefixes = append(execFuncPrefixes, "time.", "(*time.ParseError).")
	reg("(*time.Time).addSec", func(ex *Exec, fr *frame, pos token.Pos, args []value) value {
		c := args[0].(*value)
		t := (*c).(TimeV)
		*c = TimeV{sec: ex.b.Add(t.sec, args[1].(*smt.Term)), nsec: t.nsec, loc: t.loc}
		return nil
	})
	reg("(*time.Time).setLoc", func(ex *Exec, fr *frame, pos token.Pos, args []value) value {
		c := args[0].(*value)
		t := (*c).(TimeV)
		loc := ex.asLoc(args[1])
		if loc == nil {
			loc = locUTC
		}
		*c = TimeV{sec: t.sec, nsec: t.nsec, loc: loc}
		return nil
	})
	reg("(*time.Time).unixSec", func(ex *Exec, fr *frame, pos token.Pos, args []value) value {
		return ex.asTime(args[0]).sec
	})
	reg("(*time.Location).lookup", func(ex *Exec, fr *frame, pos token.Pos, args []value) value {
		loc := ex.asLoc(args[0])
		if loc != nil && loc.kind == "local" {
			// the process-local zone is never taken to coincide with a parsed offset: the parsed
			// value gets a fixed zone (same instant and offset; only Location().String() differs)
			return tuple{ex.strConst(""), ex.k(-99999999), ex.k(0), ex.k(0), ex.b.False}
		}
		panic(ex.unsupported("time.Location.lookup on a non-local zone"))
	})
	reg("(*time.Location).get", func(ex *Exec, fr *frame, pos token.Pos, args []value) value { return args[0] })
	for _, pk := range []string{"strings", "internal/stringslite"} {
		pk := pk
		reg(pk+".Clone", func(ex *Exec, fr *frame, pos token.Pos, args []value) value { return args[0] })
	}
}
