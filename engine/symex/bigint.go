package symex

import (
	"fmt"
	"go/token"
	"math/big"

	"gosmt/smt"
)

// BigV models math/big.Int as an unbounded SMT integer. With this leaf model the whole of
// github.com/shopspring/decimal is executed from its real source (no hand-written Decimal model).
type BigV struct{ t *smt.Term }

func (ex *Exec) bigCell(t *smt.Term) *value {
	c := new(value)
	*c = BigV{t}
	return c
}

func (ex *Exec) bigOf(v value, fr *frame, pos token.Pos) *smt.Term {
	switch x := v.(type) {
	case *value:
		if x == nil {
			ex.oblige("nil", "nil *big.Int dereference", fr, pos, ex.b.False)
		}
		if bv, ok := (*x).(BigV); ok {
			return bv.t
		}
	case BigV:
		return x.t
	}
	panic(ex.unsupported(fmt.Sprintf("big.Int operand is %T", v)))
}

func (ex *Exec) bigSet(z value, t *smt.Term, fr *frame, pos token.Pos) value {
	c, ok := z.(*value)
	if !ok || c == nil {
		ex.oblige("nil", "nil *big.Int receiver", fr, pos, ex.b.False)
	}
	ex.checkWrite(fr, pos, c)
	*c = BigV{t}
	return z
}

// mkDecimal builds a shopspring Decimal struct value {value *big.Int, exp int32}.
func (ex *Exec) mkDecimal(n *smt.Term, exp int) value {
	return structure{ex.bigCell(n), ex.k(int64(exp))}
}

func (ex *Exec) sign(t *smt.Term) *smt.Term {
	b := ex.b
	return b.Ite(b.Lt(t, ex.k(0)), ex.k(-1), b.Ite(b.Lt(ex.k(0), t), ex.k(1), ex.k(0)))
}

func (ex *Exec) absT(t *smt.Term) *smt.Term {
	if c, ok := t.ConstInt(); ok {
		return ex.b.Int(new(big.Int).Abs(c))
	}
	if t.Lo != nil && t.Lo.Sign() >= 0 {
		return t
	}
	return ex.b.Ite(ex.b.Lt(t, ex.k(0)), ex.b.Neg(t), t)
}

func init() {
	bin := func(f func(ex *Exec, x, y *smt.Term) *smt.Term) modelFunc {
		return func(ex *Exec, fr *frame, pos token.Pos, args []value) value {
			x, y := ex.bigOf(args[1], fr, pos), ex.bigOf(args[2], fr, pos)
			return ex.bigSet(args[0], f(ex, x, y), fr, pos)
		}
	}
	un := func(f func(ex *Exec, x *smt.Term) *smt.Term) modelFunc {
		return func(ex *Exec, fr *frame, pos token.Pos, args []value) value {
			return ex.bigSet(args[0], f(ex, ex.bigOf(args[1], fr, pos)), fr, pos)
		}
	}
	nz := func(ex *Exec, fr *frame, pos token.Pos, y *smt.Term) {
		ex.oblige("divzero", "big.Int division by zero", fr, pos, ex.b.Ne(y, ex.k(0)))
	}
	reg("math/big.NewInt", func(ex *Exec, fr *frame, pos token.Pos, args []value) value {
		return ex.bigCell(args[0].(*smt.Term))
	})
	reg("(*math/big.Int).SetInt64", func(ex *Exec, fr *frame, pos token.Pos, args []value) value {
		return ex.bigSet(args[0], args[1].(*smt.Term), fr, pos)
	})
	reg("(*math/big.Int).SetUint64", func(ex *Exec, fr *frame, pos token.Pos, args []value) value {
		return ex.bigSet(args[0], args[1].(*smt.Term), fr, pos)
	})
	reg("(*math/big.Int).Set", un(func(ex *Exec, x *smt.Term) *smt.Term { return x }))
	reg("(*math/big.Int).Neg", un(func(ex *Exec, x *smt.Term) *smt.Term { return ex.b.Neg(x) }))
	reg("(*math/big.Int).Abs", un(func(ex *Exec, x *smt.Term) *smt.Term { return ex.absT(x) }))
	reg("(*math/big.Int).Add", bin(func(ex *Exec, x, y *smt.Term) *smt.Term { return ex.b.Add(x, y) }))
	reg("(*math/big.Int).Sub", bin(func(ex *Exec, x, y *smt.Term) *smt.Term { return ex.b.Sub(x, y) }))
	reg("(*math/big.Int).Mul", bin(func(ex *Exec, x, y *smt.Term) *smt.Term { return ex.b.Mul(x, y) }))
	reg("(*math/big.Int).Quo", func(ex *Exec, fr *frame, pos token.Pos, args []value) value {
		x, y := ex.bigOf(args[1], fr, pos), ex.bigOf(args[2], fr, pos)
		nz(ex, fr, pos, y)
		return ex.bigSet(args[0], ex.b.TDiv(x, y), fr, pos)
	})
	reg("(*math/big.Int).Rem", func(ex *Exec, fr *frame, pos token.Pos, args []value) value {
		x, y := ex.bigOf(args[1], fr, pos), ex.bigOf(args[2], fr, pos)
		nz(ex, fr, pos, y)
		return ex.bigSet(args[0], ex.b.TRem(x, y), fr, pos)
	})
	reg("(*math/big.Int).QuoRem", func(ex *Exec, fr *frame, pos token.Pos, args []value) value {
		x, y := ex.bigOf(args[1], fr, pos), ex.bigOf(args[2], fr, pos)
		nz(ex, fr, pos, y)
		q, r := ex.b.TDiv(x, y), ex.b.TRem(x, y)
		ex.bigSet(args[3], r, fr, pos)
		ex.bigSet(args[0], q, fr, pos)
		return tuple{args[0], args[3]}
	})
	reg("(*math/big.Int).DivMod", func(ex *Exec, fr *frame, pos token.Pos, args []value) value {
		x, y := ex.bigOf(args[1], fr, pos), ex.bigOf(args[2], fr, pos)
		nz(ex, fr, pos, y)
		q, m := ex.b.Div(x, y), ex.b.Mod(x, y) // Euclidean, like SMT-LIB
		ex.bigSet(args[3], m, fr, pos)
		ex.bigSet(args[0], q, fr, pos)
		return tuple{args[0], args[3]}
	})
	reg("(*math/big.Int).Div", func(ex *Exec, fr *frame, pos token.Pos, args []value) value {
		x, y := ex.bigOf(args[1], fr, pos), ex.bigOf(args[2], fr, pos)
		nz(ex, fr, pos, y)
		return ex.bigSet(args[0], ex.b.Div(x, y), fr, pos) // Euclidean, as SMT-LIB div
	})
	reg("(*math/big.Int).Mod", func(ex *Exec, fr *frame, pos token.Pos, args []value) value {
		x, y := ex.bigOf(args[1], fr, pos), ex.bigOf(args[2], fr, pos)
		nz(ex, fr, pos, y)
		return ex.bigSet(args[0], ex.b.Mod(x, y), fr, pos)
	})
	reg("(*math/big.Int).Exp", func(ex *Exec, fr *frame, pos token.Pos, args []value) value {
		x, y := ex.bigOf(args[1], fr, pos), ex.bigOf(args[2], fr, pos)
		if m, ok := args[3].(*value); ok && m != nil {
			if mt := ex.bigOf(args[3], fr, pos); mt != nil {
				if c, ok := mt.ConstInt(); !ok || c.Sign() != 0 {
					panic(ex.unsupported("big.Int.Exp with a modulus"))
				}
			}
		}
		cy, ok := y.ConstInt()
		if !ok {
			// the cost of Exp grows with the exponent: an exponent the input can push to 2^30 is a candidate hang,
			// replayed natively under a time limit like a step-budget exhaustion
			ex.oblige("hang", "big.Int.Exp with an input-controlled exponent", fr, pos, ex.b.Lt(y, ex.b.Int(smt.Pow2(30))))
		}
		if !ok || !cy.IsInt64() || cy.Int64() > 4096 {
			panic(ex.unsupported("big.Int.Exp with a symbolic or huge exponent"))
		}
		if cy.Sign() <= 0 {
			return ex.bigSet(args[0], ex.k(1), fr, pos)
		}
		if cx, ok := x.ConstInt(); ok {
			return ex.bigSet(args[0], ex.b.Int(new(big.Int).Exp(cx, cy, nil)), fr, pos)
		}
		r := ex.k(1)
		for i := int64(0); i < cy.Int64(); i++ {
			r = ex.b.Mul(r, x)
		}
		return ex.bigSet(args[0], r, fr, pos)
	})
	reg("(*math/big.Int).Lsh", func(ex *Exec, fr *frame, pos token.Pos, args []value) value {
		x := ex.bigOf(args[1], fr, pos)
		n, ok := args[2].(*smt.Term).ConstInt()
		if !ok || n.Int64() > 4096 {
			panic(ex.unsupported("big.Int.Lsh by a symbolic amount"))
		}
		return ex.bigSet(args[0], ex.b.Mul(x, ex.b.Int(smt.Pow2(uint(n.Int64())))), fr, pos)
	})
	reg("(*math/big.Int).Sign", func(ex *Exec, fr *frame, pos token.Pos, args []value) value {
		return ex.sign(ex.bigOf(args[0], fr, pos))
	})
	reg("(*math/big.Int).Cmp", func(ex *Exec, fr *frame, pos token.Pos, args []value) value {
		x, y := ex.bigOf(args[0], fr, pos), ex.bigOf(args[1], fr, pos)
		return ex.b.Ite(ex.b.Lt(x, y), ex.k(-1), ex.b.Ite(ex.b.Lt(y, x), ex.k(1), ex.k(0)))
	})
	reg("(*math/big.Int).CmpAbs", func(ex *Exec, fr *frame, pos token.Pos, args []value) value {
		x, y := ex.absT(ex.bigOf(args[0], fr, pos)), ex.absT(ex.bigOf(args[1], fr, pos))
		return ex.b.Ite(ex.b.Lt(x, y), ex.k(-1), ex.b.Ite(ex.b.Lt(y, x), ex.k(1), ex.k(0)))
	})
	reg("(*math/big.Int).Int64", func(ex *Exec, fr *frame, pos token.Pos, args []value) value {
		return ex.b.Wrap(ex.bigOf(args[0], fr, pos), 64, true)
	})
	reg("(*math/big.Int).Uint64", func(ex *Exec, fr *frame, pos token.Pos, args []value) value {
		return ex.b.Wrap(ex.bigOf(args[0], fr, pos), 64, false)
	})
	reg("(*math/big.Int).IsInt64", func(ex *Exec, fr *frame, pos token.Pos, args []value) value {
		x := ex.bigOf(args[0], fr, pos)
		lo, hi := new(big.Int).Neg(smt.Pow2(63)), new(big.Int).Sub(smt.Pow2(63), big1)
		return ex.b.And(ex.b.Le(ex.b.Int(lo), x), ex.b.Le(x, ex.b.Int(hi)))
	})
	reg("(*math/big.Int).String", func(ex *Exec, fr *frame, pos token.Pos, args []value) value {
		if p, ok := args[0].(*value); ok && p == nil {
			return ex.strConst("<nil>")
		}
		return ex.itoa(ex.bigOf(args[0], fr, pos))
	})
	reg("(*math/big.Int).Text", func(ex *Exec, fr *frame, pos token.Pos, args []value) value {
		if c, ok := args[1].(*smt.Term).ConstInt(); !ok || c.Int64() != 10 {
			panic(ex.unsupported("big.Int.Text with base != 10"))
		}
		return ex.itoa(ex.bigOf(args[0], fr, pos))
	})
	reg("(*math/big.Int).SetString", func(ex *Exec, fr *frame, pos token.Pos, args []value) value {
		s := args[1].(*Str)
		base, ok := args[2].(*smt.Term).ConstInt()
		if !ok {
			panic(ex.unsupported("big.Int.SetString with symbolic base"))
		}
		if c, ok := s.concrete(); ok {
			v, ok2 := new(big.Int).SetString(c, int(base.Int64()))
			if !ok2 {
				return tuple{(*value)(nil), ex.b.False}
			}
			ex.bigSet(args[0], ex.b.Int(v), fr, pos)
			return tuple{args[0], ex.b.True}
		}
		if s.opaque || base.Int64() != 10 || len(s.b) > 40 {
			panic(ex.unsupported("big.Int.SetString on an opaque, long or non-decimal symbolic string"))
		}
		// base 10, bytes symbolic, length known: [+-]? digit+ and nothing else; the value is the digit sum
		bld := ex.b
		if len(s.b) == 0 {
			return tuple{(*value)(nil), bld.False}
		}
		isDigit := func(c *smt.Term) *smt.Term { return bld.And(bld.Ge(c, ex.k('0')), bld.Le(c, ex.k('9'))) }
		digitsFrom := func(from int) (*smt.Term, *smt.Term) {
			ok := bld.True
			val := ex.k(0)
			for _, c := range s.b[from:] {
				ok = bld.And(ok, isDigit(c))
				val = bld.Add(bld.Mul(val, ex.k(10)), bld.Sub(c, ex.k('0')))
			}
			return ok, val
		}
		if ok0, v0 := digitsFrom(0); ex.branch("bigsetstring:digits", ok0) {
			ex.bigSet(args[0], v0, fr, pos)
			return tuple{args[0], bld.True}
		}
		if len(s.b) > 1 {
			ok1, v1 := digitsFrom(1)
			if ex.branch("bigsetstring:minus", bld.And(bld.Eq(s.b[0], ex.k('-')), ok1)) {
				ex.bigSet(args[0], bld.Sub(ex.k(0), v1), fr, pos)
				return tuple{args[0], bld.True}
			}
			if ex.branch("bigsetstring:plus", bld.And(bld.Eq(s.b[0], ex.k('+')), ok1)) {
				ex.bigSet(args[0], v1, fr, pos)
				return tuple{args[0], bld.True}
			}
		}
		return tuple{(*value)(nil), bld.False}
	})
	reg("(*math/big.Int).BitLen", func(ex *Exec, fr *frame, pos token.Pos, args []value) value {
		x := ex.bigOf(args[0], fr, pos)
		if c, ok := x.ConstInt(); ok {
			return ex.k(int64(c.BitLen()))
		}
		panic(ex.unsupported("big.Int.BitLen of a symbolic value"))
	})
}
