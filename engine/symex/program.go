package symex

import (
	"fmt"
	"go/token"
	"os"
	"path/filepath"
	"sort"
	"strings"

	"golang.org/x/tools/go/packages"
	"golang.org/x/tools/go/ssa"
	"golang.org/x/tools/go/ssa/ssautil"
)

const RepoModule = "github.com/verily-src/fhirpath-go"

// Program is the loaded, SSA-built target (the repo's current working tree + overlay harnesses).
type Program struct {
	Prog    *ssa.Program
	Fset    *token.FileSet
	Pkgs    []*packages.Package
	SSAPkgs map[string]*ssa.Package
	RTPath  string
	Overlay map[string]string // virtual path -> real path (for go test -overlay)
	RepoDir string
	LoadMs  int64
	Dropped []string // harness packages left out because they do not build against this tree (dir: errors)
}

// executed package prefixes: bodies interpreted from SSA (models take priority).
var execPkgPrefixes = []string{
	RepoModule,
	"github.com/google/fhir/go/proto/",
	"golang.org/x/exp/constraints",
	"github.com/antlr4-go/antlr/v4",
	"golang.org/x/exp/slices",
	"github.com/shopspring/decimal",
}

// bodyPkgs: non-repo packages loaded from source so that their SSA bodies exist.
var bodyPkgs = map[string]bool{
	"strings": true, "strconv": true, "time": true, "unicode/utf8": true, "unicode": true, "errors": true, "math": true,
	"github.com/google/fhir/go/proto/google/fhir/proto/r4/core/datatypes_go_proto": true,
	"github.com/shopspring/decimal": true,
	"github.com/antlr4-go/antlr/v4": true,
	"net/url": true, "path": true, "encoding/base64": true, "slices": true, "unicode/utf16": true,
	"sort": true, "math/bits": true, "sync/atomic": true, "cmp": true, "maps": true, "container/list": true,
	"golang.org/x/exp/slices": true,
}

var execStdPkgs = map[string]bool{
	"time": true, "net/url": true, "path": true, "encoding/base64": true,
	"strings": true, "strconv": true, "unicode": true, "slices": true, "sort": true, "cmp": true, "unicode/utf16": true,
	"unicode/utf8": true, "math/bits": true, "sync/atomic": true, "maps": true, "container/list": true,
}

func (p *Program) isExecuted(pkgPath string) bool {
	for _, pre := range execPkgPrefixes {
		if strings.HasPrefix(pkgPath, pre) {
			return true
		}
	}
	return execStdPkgs[pkgPath]
}

// skipInit: packages whose init is not run (their globals are opaque).
func (p *Program) skipInit(pkgPath string) bool {
	if pkgPath == "github.com/shopspring/decimal" || pkgPath == "time" || pkgPath == "strconv" || pkgPath == "net/url" || pkgPath == "encoding/base64" || pkgPath == "unicode" || pkgPath == "github.com/antlr4-go/antlr/v4" {
		return false
	}
	// every standard package whose functions run from source has its initialiser run too: their package-level tables
	// (strings.asciiSpace, utf8.first, utf8.acceptRanges) are data the functions read
	if execStdPkgs[pkgPath] && !strings.Contains(","+os.Getenv("GOSMT_SKIPINIT")+",", ","+pkgPath+",") {
		return false
	}
	if !strings.HasPrefix(pkgPath, RepoModule) {
		return true
	}
	switch strings.TrimPrefix(pkgPath, RepoModule+"/") {
	case "internal/protofields", "internal/fhirtest", "internal/containedresource", "internal/bundle":
		return true
	}
	return false
}

func (p *Program) execPrefix(name string) bool {
	for _, pre := range execFuncPrefixes {
		if strings.HasPrefix(name, pre) {
			return true
		}
	}
	return false
}

// HarnessSpec describes where harness sources live and where they are injected.
type LoadConfig struct {
	RepoDir    string // /repo
	HarnessDir string // /verif/harness  (mirrors repo package layout)
	RTDir      string // /verif/rt/verifrt
	Replay     bool   // include replay implementation instead of symbolic signatures
	Only       func(relPkg string, file string) bool
}

// BuildOverlay maps every harness file (and the verifrt package) into the repo tree.
func BuildOverlay(cfg LoadConfig) (overlayFiles map[string]string, pkgDirs []string, err error) {
	overlayFiles = map[string]string{}
	seen := map[string]bool{}
	err = filepath.Walk(cfg.HarnessDir, func(path string, info os.FileInfo, e error) error {
		if e != nil {
			return e
		}
		if info.IsDir() || !strings.HasSuffix(path, ".go") {
			return nil
		}
		rel, _ := filepath.Rel(cfg.HarnessDir, path)
		dir := filepath.Dir(rel)
		if cfg.Only != nil && !cfg.Only(dir, filepath.Base(path)) {
			return nil
		}
		overlayFiles[filepath.Join(cfg.RepoDir, rel)] = path
		if !seen[dir] {
			seen[dir] = true
			pkgDirs = append(pkgDirs, dir)
		}
		return nil
	})
	if err != nil {
		return
	}
	ents, err := os.ReadDir(cfg.RTDir)
	if err != nil {
		return
	}
	for _, e := range ents {
		if strings.HasSuffix(e.Name(), ".go") {
			overlayFiles[filepath.Join(cfg.RepoDir, "internal/verifrt", e.Name())] = filepath.Join(cfg.RTDir, e.Name())
		}
	}
	sort.Strings(pkgDirs)
	return
}

// Load loads the repository with the harness files overlaid. A harness package that no longer builds against the
// tree (the tree renamed or removed something a harness calls) is left out and named in Program.Dropped - no verdict
// for its harnesses - as long as every build error sits in a harness file; an error anywhere else is an error of Load.
func Load(cfg LoadConfig) (*Program, error) {
	var dropped []string
	skip := map[string]bool{}
	for {
		c := cfg
		c.Only = func(dir, file string) bool { return !skip[dir] && (cfg.Only == nil || cfg.Only(dir, file)) }
		p, bad, err := load(c)
		if err == nil {
			p.Dropped = dropped
			return p, nil
		}
		if len(bad) == 0 {
			return nil, err
		}
		for _, d := range bad {
			skip[d] = true
			msg := err.Error()
			if len(msg) > 600 {
				msg = msg[:600]
			}
			dropped = append(dropped, d+": "+strings.ReplaceAll(msg, "\n", " | "))
		}
	}
}

// load is one attempt; on build errors that all sit in harness files it also returns the harness directories at fault.
func load(cfg LoadConfig) (*Program, []string, error) {
	p, badDirs, err := load1(cfg)
	return p, badDirs, err
}

func load1(cfg LoadConfig) (*Program, []string, error) {
	ov, dirs, err := BuildOverlay(cfg)
	if err != nil {
		return nil, nil, err
	}
	overlay := map[string][]byte{}
	for virt, real := range ov {
		data, err := os.ReadFile(real)
		if err != nil {
			return nil, nil, err
		}
		overlay[virt] = data
	}
	env := append(os.Environ(), "GOFLAGS=-mod=mod", "GOPROXY=off", "GOSUMDB=off", "GOTOOLCHAIN=local")
	var patterns []string
	for _, d := range dirs {
		patterns = append(patterns, "./"+d)
	}
	patterns = append(patterns, "./internal/verifrt")
	// pass 1: dependency closure (names only) to find which repo packages need bodies
	lcfg := &packages.Config{Mode: packages.NeedName | packages.NeedImports | packages.NeedDeps, Dir: cfg.RepoDir, Overlay: overlay,
		BuildFlags: []string{"-tags=verif"}, Env: env}
	lp, err := packages.Load(lcfg, patterns...)
	if err != nil {
		return nil, nil, err
	}
	want := map[string]bool{}
	packages.Visit(lp, nil, func(p *packages.Package) {
		if strings.HasPrefix(p.PkgPath, RepoModule) || bodyPkgs[p.PkgPath] {
			want[p.PkgPath] = true
		}
	})
	for k := range bodyPkgs {
		want[k] = true
	}
	var all []string
	for k := range want {
		all = append(all, k)
	}
	sort.Strings(all)
	pcfg := &packages.Config{
		Mode:       packages.LoadSyntax | packages.NeedDeps&0,
		Dir:        cfg.RepoDir,
		Overlay:    overlay,
		BuildFlags: []string{"-tags=verif"},
		Env:        env,
	}
	pkgs, err := packages.Load(pcfg, all...)
	if err != nil {
		return nil, nil, err
	}
	var errs []string
	allInHarness := true
	badSet := map[string]bool{}
	packages.Visit(pkgs, nil, func(p *packages.Package) {
		for _, e := range p.Errors {
			errs = append(errs, e.Error())
			dir := strings.TrimPrefix(strings.TrimPrefix(p.PkgPath, RepoModule), "/")
			isHarnessDir := false
			for _, d := range dirs {
				if d == dir {
					isHarnessDir = true
				}
			}
			if isHarnessDir && strings.Contains(e.Error(), "zz_verif") {
				badSet[dir] = true
			} else {
				allInHarness = false
			}
		}
	})
	if len(errs) > 0 {
		if len(errs) > 20 {
			errs = errs[:20]
		}
		var bad []string
		if allInHarness {
			for d := range badSet {
				bad = append(bad, d)
			}
			sort.Strings(bad)
		}
		return nil, bad, fmt.Errorf("package load errors:\n%s", strings.Join(errs, "\n"))
	}
	prog, _ := ssautil.Packages(pkgs, ssa.InstantiateGenerics)
	prog.Build()
	var harnessPkgs []*packages.Package
	for _, pk := range pkgs {
		for _, d := range dirs {
			if pk.PkgPath == RepoModule+"/"+d {
				harnessPkgs = append(harnessPkgs, pk)
			}
		}
	}
	pkgs = harnessPkgs
	p := &Program{Prog: prog, Fset: prog.Fset, Pkgs: pkgs, SSAPkgs: map[string]*ssa.Package{}, Overlay: ov, RepoDir: cfg.RepoDir,
		RTPath: RepoModule + "/internal/verifrt"}
	for _, sp := range prog.AllPackages() {
		p.SSAPkgs[sp.Pkg.Path()] = sp
	}
	return p, nil, nil
}

// Harnesses lists the VerifHarness_<prop>_* functions of the loaded packages.
func (p *Program) Harnesses(prop string) []*ssa.Function {
	var out []*ssa.Function
	prefix := "VerifHarness_" + prop + "_"
	for _, pkg := range p.Pkgs {
		sp := p.SSAPkgs[pkg.PkgPath]
		if sp == nil {
			continue
		}
		for name, m := range sp.Members {
			if f, ok := m.(*ssa.Function); ok && strings.HasPrefix(name, prefix) {
				out = append(out, f)
			}
		}
	}
	sort.Slice(out, func(i, j int) bool { return out[i].String() < out[j].String() })
	return out
}
