package smt

import (
	"bufio"
	"fmt"
	"io"
	"math/big"
	"os"
	"os/exec"
	"strings"
	"time"
)

type Result int

const (
	Unsat Result = iota
	Sat
	Unknown
)

func (r Result) String() string {
	return [...]string{"unsat", "sat", "unknown"}[r]
}

// proc is one long-lived solver process speaking SMT-LIB2 over pipes.
type proc struct {
	Name    string
	cmd     *exec.Cmd
	in      io.WriteCloser
	out     *bufio.Reader
	pr      *Printer
	Log     io.Writer // optional transcript
	Queries int
	Millis  int64
	Errors  int
	ByRes   [3]int
	dead    bool
	kind    string
	timeout int
}

// SolverSpec: kind is "z3-new", "z3" or "cvc5".
func newProc(kind string, timeoutMs int) (*proc, error) {
	var cmd *exec.Cmd
	switch kind {
	case "z3-new":
		cmd = exec.Command("z3-new", "-in")
	case "z3":
		cmd = exec.Command("z3", "-in")
	case "cvc5":
		cmd = exec.Command("cvc5", "--incremental", "--produce-models", "--global-declarations",
			fmt.Sprintf("--tlimit-per=%d", timeoutMs), "--lang=smt2", "--nl-ext-tplanes")
	default:
		return nil, fmt.Errorf("unknown solver %q", kind)
	}
	in, err := cmd.StdinPipe()
	if err != nil {
		return nil, err
	}
	out, err := cmd.StdoutPipe()
	if err != nil {
		return nil, err
	}
	cmd.Stderr = cmd.Stdout
	if err := cmd.Start(); err != nil {
		return nil, err
	}
	s := &proc{Name: kind, cmd: cmd, in: in, out: bufio.NewReaderSize(out, 1<<20), pr: NewPrinter(), kind: kind, timeout: timeoutMs}
	if p := os.Getenv("GOSMT_SMTLOG"); p != "" {
		f, _ := os.OpenFile(fmt.Sprintf("%s.%s.%d.smt2", p, kind, cmd.Process.Pid), os.O_CREATE|os.O_WRONLY|os.O_TRUNC, 0644)
		s.Log = f
	}
	s.send("(set-option :global-declarations true)\n(set-option :produce-models true)\n")
	if kind != "cvc5" {
		s.send(fmt.Sprintf("(set-option :timeout %d)\n", timeoutMs))
	}
	s.send("(set-logic ALL)\n")
	s.send(Prelude)
	return s, nil
}

func (s *proc) Close() {
	if s == nil || s.dead {
		return
	}
	s.dead = true
	s.in.Close()
	done := make(chan struct{})
	go func() { s.cmd.Wait(); close(done) }()
	select {
	case <-done:
	case <-time.After(2 * time.Second):
		s.cmd.Process.Kill()
	}
}

func (s *proc) send(txt string) {
	if s.Log != nil {
		io.WriteString(s.Log, txt)
	}
	io.WriteString(s.in, txt)
}

func (s *proc) Push() { s.send("(push 1)\n") }
func (s *proc) Pop()  { s.send("(pop 1)\n") }

// Declare makes sure all definitions t needs have been sent and returns its reference.
func (s *proc) Declare(t *Term) string {
	var sb strings.Builder
	r := s.pr.Define(t, &sb)
	if sb.Len() > 0 {
		s.send(sb.String())
	}
	return r
}

func (s *proc) Assert(t *Term) {
	r := s.Declare(t)
	s.send("(assert " + r + ")\n")
}

// AssertRange asserts the declared bounds of variable v at the current level.
func (s *proc) AssertRange(v *Term) {
	r := s.Declare(v)
	if v.Sort != SInt {
		return
	}
	if v.Lo != nil {
		s.send(fmt.Sprintf("(assert (>= %s %s))\n", r, intLit(v.Lo)))
	}
	if v.Hi != nil {
		s.send(fmt.Sprintf("(assert (<= %s %s))\n", r, intLit(v.Hi)))
	}
}

func (s *proc) readLine() (string, error) {
	line, err := s.out.ReadString('\n')
	return strings.TrimSpace(line), err
}

func (s *proc) setTimeout(ms int) {
	if s.kind == "cvc5" {
		s.send(fmt.Sprintf("(set-option :tlimit-per %d)\n", ms))
	} else {
		s.send(fmt.Sprintf("(set-option :timeout %d)\n", ms))
	}
}

// Check runs check-sat at the current level. Any "(error" output makes the result Unknown.
func (s *proc) Check() Result {
	if s.dead {
		return Unknown
	}
	start := time.Now()
	s.send("(check-sat)\n(echo \"@@done\")\n")
	res := Unknown
	sawErr := false
	got := false
	for {
		line, err := s.readLine()
		if err != nil {
			s.dead = true
			s.Errors++
			return Unknown
		}
		line = strings.Trim(line, "\"")
		if line == "@@done" {
			break
		}
		switch {
		case line == "sat" && !got:
			res, got = Sat, true
		case line == "unsat" && !got:
			res, got = Unsat, true
		case line == "unknown" || line == "timeout":
			res, got = Unknown, true
		case strings.HasPrefix(line, "(error"):
			sawErr = true
			if s.Log != nil {
				fmt.Fprintf(s.Log, "; ERROR: %s\n", line)
			}
		}
	}
	if sawErr {
		s.Errors++
		res = Unknown
	}
	s.Queries++
	s.Millis += time.Since(start).Milliseconds()
	if s.Log != nil {
		fmt.Fprintf(s.Log, "; RESULT %s in %d ms\n", res, time.Since(start).Milliseconds())
	}
	s.ByRes[res]++
	return res
}

// Model reads the values of the given variables after a Sat result (must be called before pop).
// Int -> *big.Int, Bool -> bool, others -> string (raw). One get-value round trip.
func (s *proc) Model(vars []*Term) (map[string]interface{}, error) {
	m := map[string]interface{}{}
	if len(vars) == 0 {
		return m, nil
	}
	var sb strings.Builder
	sb.WriteString("(get-value (")
	for _, v := range vars {
		sb.WriteString(s.Declare(v))
		sb.WriteByte(' ')
	}
	sb.WriteString("))\n(echo \"@@done\")\n")
	s.send(sb.String())
	var out strings.Builder
	for {
		line, err := s.readLine()
		if err != nil {
			s.dead = true
			return nil, err
		}
		if strings.Trim(line, "\"") == "@@done" {
			break
		}
		out.WriteString(line)
		out.WriteByte(' ')
	}
	txt := strings.TrimSpace(out.String())
	if strings.HasPrefix(txt, "(error") {
		return nil, fmt.Errorf("get-value: %s", txt)
	}
	pairs, ok := splitSExprList(txt)
	if !ok || len(pairs) != len(vars) {
		return nil, fmt.Errorf("get-value: cannot parse %q", txt)
	}
	for i, v := range vars {
		kv, ok := splitSExprList(pairs[i])
		if !ok || len(kv) != 2 {
			return nil, fmt.Errorf("get-value: bad pair %q", pairs[i])
		}
		val := kv[1]
		switch v.Sort {
		case SBool:
			m[v.Name] = val == "true"
		case SInt:
			iv, ok := parseIntLit(val)
			if !ok {
				return nil, fmt.Errorf("cannot parse int value %q for %s", val, v.Name)
			}
			m[v.Name] = iv
		default:
			m[v.Name] = val
		}
	}
	return m, nil
}

// splitSExprList splits "(a (b c) d)" into its top-level elements.
func splitSExprList(s string) ([]string, bool) {
	s = strings.TrimSpace(s)
	if len(s) < 2 || s[0] != '(' || s[len(s)-1] != ')' {
		return nil, false
	}
	s = s[1 : len(s)-1]
	var out []string
	depth, start := 0, -1
	inBar := false
	for i := 0; i < len(s); i++ {
		c := s[i]
		if inBar {
			if c == '|' {
				inBar = false
			}
			continue
		}
		switch {
		case c == '|':
			inBar = true
			if start < 0 {
				start = i
			}
		case c == '(':
			if depth == 0 && start < 0 {
				start = i
			}
			depth++
		case c == ')':
			depth--
			if depth == 0 && start >= 0 {
				out = append(out, s[start:i+1])
				start = -1
			}
		case c == ' ' || c == '\t' || c == '\n':
			if depth == 0 && start >= 0 {
				out = append(out, s[start:i])
				start = -1
			}
		default:
			if start < 0 {
				start = i
			}
		}
	}
	if start >= 0 {
		out = append(out, s[start:])
	}
	return out, depth == 0
}

func parseIntLit(s string) (*big.Int, bool) {
	s = strings.TrimSpace(s)
	neg := false
	if strings.HasPrefix(s, "(-") {
		neg = true
		s = strings.TrimSpace(strings.TrimSuffix(strings.TrimPrefix(s, "(-"), ")"))
	}
	v, ok := new(big.Int).SetString(s, 10)
	if !ok {
		return nil, false
	}
	if neg {
		v.Neg(v)
	}
	return v, true
}

// Solver is a small portfolio: every command is mirrored to all member processes; a check is
// tried on each member with escalating time limits until one gives a definite answer.
// (Measured here: the same non-linear query is decided in 2 s by z3 4.8.12 and not in 20 s by
// z3 5.1, and the other way round on others.)
type Solver struct {
	Name    string
	procs   []*proc
	lastSat int
	Queries int
	Millis  int64
	ByRes   [3]int
	ByProc  map[string]int
	full    int
}

// NewSolver: kind is a '+'-separated list, e.g. "z3-new+z3".
func NewSolver(kind string, timeoutMs int) (*Solver, error) {
	s := &Solver{Name: kind, full: timeoutMs, ByProc: map[string]int{}}
	for _, k := range strings.Split(kind, "+") {
		p, err := newProc(k, timeoutMs)
		if err != nil {
			s.Close()
			return nil, err
		}
		s.procs = append(s.procs, p)
	}
	return s, nil
}

func (s *Solver) Close() {
	if s == nil {
		return
	}
	for _, p := range s.procs {
		p.Close()
	}
}
func (s *Solver) Push() {
	for _, p := range s.procs {
		p.Push()
	}
}
func (s *Solver) Pop() {
	for _, p := range s.procs {
		p.Pop()
	}
}
func (s *Solver) Assert(t *Term) {
	for _, p := range s.procs {
		p.Assert(t)
	}
}
func (s *Solver) AssertRange(t *Term) {
	for _, p := range s.procs {
		p.AssertRange(t)
	}
}
func (s *Solver) Declare(t *Term) {
	for _, p := range s.procs {
		p.Declare(t)
	}
}

// check with a schedule of (member, limit) attempts.
func (s *Solver) check(light bool) Result {
	start := time.Now()
	type att struct {
		i  int
		ms int
	}
	var sched []att
	short := 1500
	if short > s.full {
		short = s.full
	}
	for i := range s.procs {
		sched = append(sched, att{i, short})
	}
	if !light || len(s.procs) == 1 {
		mid := s.full / 4
		if light {
			mid = 4000
			if mid > s.full {
				mid = s.full
			}
		}
		if mid > short {
			for i := range s.procs {
				sched = append(sched, att{i, mid})
			}
		}
		if !light && s.full > mid {
			for i := range s.procs {
				sched = append(sched, att{i, s.full})
			}
		}
	}
	res := Unknown
	for _, a := range sched {
		p := s.procs[a.i]
		if p.dead {
			continue
		}
		p.setTimeout(a.ms)
		r := p.Check()
		if r != Unknown {
			res = r
			s.lastSat = a.i
			s.ByProc[p.Name]++
			break
		}
	}
	s.Queries++
	s.Millis += time.Since(start).Milliseconds()
	s.ByRes[res]++
	return res
}

func (s *Solver) Check() Result { return s.check(false) }

// CheckLight uses the short schedule (feasibility questions: unknown keeps the branch).
func (s *Solver) CheckLight() Result { return s.check(true) }

// CheckWith: push, assert extra, check, pop. Feasibility checks use the light schedule
// (an unknown answer keeps the branch, which is sound).
func (s *Solver) CheckWith(extra ...*Term) Result {
	s.Push()
	for _, e := range extra {
		s.Assert(e)
	}
	r := s.check(true)
	s.Pop()
	return r
}

func (s *Solver) Model(vars []*Term) (map[string]interface{}, error) {
	return s.procs[s.lastSat].Model(vars)
}

// IntValue reads the value of an Int term after a Sat result.
func (s *Solver) IntValue(t *Term) (*big.Int, error) { return s.procs[s.lastSat].intValue(t) }

func (s *proc) intValue(t *Term) (*big.Int, error) {
	r := s.Declare(t)
	s.send(fmt.Sprintf("(get-value (%s))\n(echo \"@@done\")\n", r))
	var out strings.Builder
	for {
		line, err := s.readLine()
		if err != nil {
			s.dead = true
			return nil, err
		}
		if strings.Trim(line, "\"") == "@@done" {
			break
		}
		out.WriteString(line)
		out.WriteByte(' ')
	}
	pairs, ok := splitSExprList(strings.TrimSpace(out.String()))
	if !ok || len(pairs) != 1 {
		return nil, fmt.Errorf("get-value: cannot parse %q", out.String())
	}
	kv, ok := splitSExprList(pairs[0])
	if !ok || len(kv) != 2 {
		return nil, fmt.Errorf("get-value: bad pair %q", pairs[0])
	}
	v, ok := parseIntLit(kv[1])
	if !ok {
		return nil, fmt.Errorf("get-value: bad int %q", kv[1])
	}
	return v, nil
}
