// Package smt is a small hash-consed term language (Bool / Int / FP64) with
// constant folding, interval tracking and an SMT-LIB2 printer.
package smt

import (
	"fmt"
	"math/big"
	"sort"
	"strings"
)

type Sort uint8

const (
	SBool Sort = iota
	SInt
	SFP // (_ FloatingPoint 11 53)
	SBV8
	SBV16
	SBV32
	SBV64
)

// BVSort returns the bit-vector sort of the given width.
func BVSort(bits uint) Sort {
	switch bits {
	case 8:
		return SBV8
	case 16:
		return SBV16
	case 32:
		return SBV32
	}
	return SBV64
}

func (s Sort) String() string {
	switch s {
	case SBool:
		return "Bool"
	case SInt:
		return "Int"
	case SBV8:
		return "(_ BitVec 8)"
	case SBV16:
		return "(_ BitVec 16)"
	case SBV32:
		return "(_ BitVec 32)"
	case SBV64:
		return "(_ BitVec 64)"
	default:
		return "(_ FloatingPoint 11 53)"
	}
}

type Op uint8

const (
	OpVar Op = iota
	OpConst
	OpAdd
	OpSub
	OpMul
	OpNeg
	OpDiv  // SMT floor div
	OpMod  // SMT mod
	OpTDiv // Go truncated division
	OpTRem // Go truncated remainder
	OpEq
	OpLt
	OpLe
	OpNot
	OpAnd
	OpOr
	OpIte
	OpRaw // raw SMT application: Name is the head (may contain spaces for indexed ops), args follow
)

type Term struct {
	Op   Op
	Sort Sort
	Args []*Term
	Int  *big.Int // OpConst/SInt
	B    bool     // OpConst/SBool
	Name string   // OpVar, OpRaw
	ID   int
	Lo   *big.Int // inclusive bounds for SInt terms (nil = unknown)
	Hi   *big.Int
}

// Builder owns a hash-cons table. Not goroutine safe.
type Builder struct {
	tab   map[string]*Term
	nexti int
	Vars  []*Term
	True  *Term
	False *Term
}

func NewBuilder() *Builder {
	b := &Builder{tab: map[string]*Term{}}
	b.True = b.intern(&Term{Op: OpConst, Sort: SBool, B: true})
	b.False = b.intern(&Term{Op: OpConst, Sort: SBool, B: false})
	return b
}

func (b *Builder) key(t *Term) string {
	var sb strings.Builder
	fmt.Fprintf(&sb, "%d:%d:", t.Op, t.Sort)
	switch t.Op {
	case OpVar:
		sb.WriteString(t.Name)
	case OpConst:
		if t.Sort == SBool {
			fmt.Fprintf(&sb, "%v", t.B)
		} else if t.Sort == SInt {
			sb.WriteString(t.Int.String())
		} else {
			sb.WriteString(t.Name)
		}
	case OpRaw:
		sb.WriteString(t.Name)
		sb.WriteByte('|')
	}
	for _, a := range t.Args {
		fmt.Fprintf(&sb, "%d,", a.ID)
	}
	return sb.String()
}

func (b *Builder) intern(t *Term) *Term {
	k := b.key(t)
	if o, ok := b.tab[k]; ok {
		return o
	}
	b.nexti++
	t.ID = b.nexti
	b.tab[k] = t
	return t
}

func (b *Builder) NumTerms() int { return b.nexti }

// ---- constructors ----

func (b *Builder) Bool(v bool) *Term {
	if v {
		return b.True
	}
	return b.False
}

func (b *Builder) Int(v *big.Int) *Term {
	c := new(big.Int).Set(v)
	return b.intern(&Term{Op: OpConst, Sort: SInt, Int: c, Lo: c, Hi: c})
}

func (b *Builder) I64(v int64) *Term { return b.Int(big.NewInt(v)) }

// Var declares (or returns) a variable. lo/hi may be nil.
func (b *Builder) Var(name string, s Sort, lo, hi *big.Int) *Term {
	t := &Term{Op: OpVar, Sort: s, Name: name, Lo: lo, Hi: hi}
	k := b.key(t)
	if o, ok := b.tab[k]; ok {
		return o
	}
	t = b.intern(t)
	b.Vars = append(b.Vars, t)
	return t
}

func (t *Term) IsConst() bool { return t.Op == OpConst }

func (t *Term) ConstInt() (*big.Int, bool) {
	if t.Op == OpConst && t.Sort == SInt {
		return t.Int, true
	}
	return nil, false
}

func (t *Term) ConstBool() (bool, bool) {
	if t.Op == OpConst && t.Sort == SBool {
		return t.B, true
	}
	return false, false
}

func addB(a, c *big.Int) *big.Int {
	if a == nil || c == nil {
		return nil
	}
	return new(big.Int).Add(a, c)
}
func subB(a, c *big.Int) *big.Int {
	if a == nil || c == nil {
		return nil
	}
	return new(big.Int).Sub(a, c)
}
func minB(a, c *big.Int) *big.Int {
	if a == nil || c == nil {
		return nil
	}
	if a.Cmp(c) < 0 {
		return a
	}
	return c
}
func maxB(a, c *big.Int) *big.Int {
	if a == nil || c == nil {
		return nil
	}
	if a.Cmp(c) > 0 {
		return a
	}
	return c
}

func (b *Builder) Add(x, y *Term) *Term {
	if cx, ok := x.ConstInt(); ok {
		if cy, ok := y.ConstInt(); ok {
			return b.Int(new(big.Int).Add(cx, cy))
		}
		if cx.Sign() == 0 {
			return y
		}
		x, y = y, x // const to the right
	}
	if cy, ok := y.ConstInt(); ok {
		if cy.Sign() == 0 {
			return x
		}
		// (a + c1) + c2
		if x.Op == OpAdd {
			if c1, ok := x.Args[1].ConstInt(); ok {
				return b.Add(x.Args[0], b.Int(new(big.Int).Add(c1, cy)))
			}
		}
	}
	return b.intern(&Term{Op: OpAdd, Sort: SInt, Args: []*Term{x, y}, Lo: addB(x.Lo, y.Lo), Hi: addB(x.Hi, y.Hi)})
}

func (b *Builder) Sub(x, y *Term) *Term {
	if cy, ok := y.ConstInt(); ok {
		return b.Add(x, b.Int(new(big.Int).Neg(cy)))
	}
	if x == y {
		return b.I64(0)
	}
	return b.intern(&Term{Op: OpSub, Sort: SInt, Args: []*Term{x, y}, Lo: subB(x.Lo, y.Hi), Hi: subB(x.Hi, y.Lo)})
}

func (b *Builder) Neg(x *Term) *Term {
	if cx, ok := x.ConstInt(); ok {
		return b.Int(new(big.Int).Neg(cx))
	}
	var lo, hi *big.Int
	if x.Hi != nil {
		lo = new(big.Int).Neg(x.Hi)
	}
	if x.Lo != nil {
		hi = new(big.Int).Neg(x.Lo)
	}
	return b.intern(&Term{Op: OpNeg, Sort: SInt, Args: []*Term{x}, Lo: lo, Hi: hi})
}

func (b *Builder) Mul(x, y *Term) *Term {
	if cx, ok := x.ConstInt(); ok {
		if cy, ok := y.ConstInt(); ok {
			return b.Int(new(big.Int).Mul(cx, cy))
		}
		x, y = y, x
	}
	var lo, hi *big.Int
	if cy, ok := y.ConstInt(); ok {
		if cy.Sign() == 0 {
			return b.I64(0)
		}
		if cy.Cmp(big.NewInt(1)) == 0 {
			return x
		}
		if cy.Cmp(big.NewInt(-1)) == 0 {
			return b.Neg(x)
		}
	}
	if x.Lo != nil && x.Hi != nil && y.Lo != nil && y.Hi != nil {
		c := []*big.Int{
			new(big.Int).Mul(x.Lo, y.Lo), new(big.Int).Mul(x.Lo, y.Hi),
			new(big.Int).Mul(x.Hi, y.Lo), new(big.Int).Mul(x.Hi, y.Hi),
		}
		lo, hi = c[0], c[0]
		for _, v := range c[1:] {
			lo, hi = minB(lo, v), maxB(hi, v)
		}
	}
	return b.intern(&Term{Op: OpMul, Sort: SInt, Args: []*Term{x, y}, Lo: lo, Hi: hi})
}

// floorDiv / floorMod on big ints with SMT-LIB semantics (remainder always >= 0).
func smtDivMod(a, c *big.Int) (*big.Int, *big.Int) {
	q, m := new(big.Int), new(big.Int)
	q.DivMod(a, c, m) // Euclidean: m >= 0
	return q, m
}

func (b *Builder) Div(x, y *Term) *Term {
	if cx, ok := x.ConstInt(); ok {
		if cy, ok := y.ConstInt(); ok && cy.Sign() != 0 {
			q, _ := smtDivMod(cx, cy)
			return b.Int(q)
		}
	}
	var lo, hi *big.Int
	if cy, ok := y.ConstInt(); ok && cy.Sign() > 0 {
		if cy.Cmp(big.NewInt(1)) == 0 {
			return x
		}
		if x.Lo != nil {
			lo, _ = smtDivMod(x.Lo, cy)
		}
		if x.Hi != nil {
			hi, _ = smtDivMod(x.Hi, cy)
		}
	}
	return b.intern(&Term{Op: OpDiv, Sort: SInt, Args: []*Term{x, y}, Lo: lo, Hi: hi})
}

func (b *Builder) Mod(x, y *Term) *Term {
	if cx, ok := x.ConstInt(); ok {
		if cy, ok := y.ConstInt(); ok && cy.Sign() != 0 {
			_, m := smtDivMod(cx, cy)
			return b.Int(m)
		}
	}
	var lo, hi *big.Int
	if cy, ok := y.ConstInt(); ok && cy.Sign() > 0 {
		if x.Lo != nil && x.Hi != nil && x.Lo.Sign() >= 0 && x.Hi.Cmp(cy) < 0 {
			return x
		}
		lo = big.NewInt(0)
		hi = new(big.Int).Sub(cy, big.NewInt(1))
	}
	return b.intern(&Term{Op: OpMod, Sort: SInt, Args: []*Term{x, y}, Lo: lo, Hi: hi})
}

// TDiv is Go's truncated division (divisor != 0 is the caller's obligation).
func (b *Builder) TDiv(x, y *Term) *Term {
	if cx, ok := x.ConstInt(); ok {
		if cy, ok := y.ConstInt(); ok && cy.Sign() != 0 {
			return b.Int(new(big.Int).Quo(cx, cy))
		}
	}
	var lo, hi *big.Int
	if cy, ok := y.ConstInt(); ok && cy.Sign() > 0 {
		if cy.Cmp(big.NewInt(1)) == 0 {
			return x
		}
		if x.Lo != nil && x.Lo.Sign() >= 0 {
			return b.Div(x, y)
		}
		if x.Lo != nil {
			lo = new(big.Int).Quo(x.Lo, cy)
		}
		if x.Hi != nil {
			hi = new(big.Int).Quo(x.Hi, cy)
		}
	} else if x.Lo != nil && x.Hi != nil {
		// |x / y| <= |x|
		m := maxB(new(big.Int).Abs(x.Lo), new(big.Int).Abs(x.Hi))
		lo, hi = new(big.Int).Neg(m), m
	}
	return b.intern(&Term{Op: OpTDiv, Sort: SInt, Args: []*Term{x, y}, Lo: lo, Hi: hi})
}

func (b *Builder) TRem(x, y *Term) *Term {
	if cx, ok := x.ConstInt(); ok {
		if cy, ok := y.ConstInt(); ok && cy.Sign() != 0 {
			return b.Int(new(big.Int).Rem(cx, cy))
		}
	}
	var lo, hi *big.Int
	if cy, ok := y.ConstInt(); ok && cy.Sign() != 0 {
		a := new(big.Int).Abs(cy)
		a.Sub(a, big.NewInt(1))
		if x.Lo != nil && x.Lo.Sign() >= 0 {
			if cy.Sign() > 0 {
				return b.Mod(x, y)
			}
			lo = big.NewInt(0)
		} else {
			lo = new(big.Int).Neg(a)
		}
		hi = a
	} else if x.Lo != nil && x.Hi != nil {
		m := maxB(new(big.Int).Abs(x.Lo), new(big.Int).Abs(x.Hi))
		lo, hi = new(big.Int).Neg(m), m
	}
	return b.intern(&Term{Op: OpTRem, Sort: SInt, Args: []*Term{x, y}, Lo: lo, Hi: hi})
}

func (b *Builder) Eq(x, y *Term) *Term {
	if x == y {
		return b.True
	}
	if x.Sort != y.Sort {
		panic(fmt.Sprintf("smt.Eq: sort mismatch %v %v", x.Sort, y.Sort))
	}
	switch x.Sort {
	case SInt:
		if cx, ok := x.ConstInt(); ok {
			if cy, ok := y.ConstInt(); ok {
				return b.Bool(cx.Cmp(cy) == 0)
			}
		}
		if x.Hi != nil && y.Lo != nil && x.Hi.Cmp(y.Lo) < 0 {
			return b.False
		}
		if y.Hi != nil && x.Lo != nil && y.Hi.Cmp(x.Lo) < 0 {
			return b.False
		}
	case SBool:
		if cx, ok := x.ConstBool(); ok {
			if cx {
				return y
			}
			return b.Not(y)
		}
		if cy, ok := y.ConstBool(); ok {
			if cy {
				return x
			}
			return b.Not(x)
		}
	}
	if x.ID > y.ID {
		x, y = y, x
	}
	return b.intern(&Term{Op: OpEq, Sort: SBool, Args: []*Term{x, y}})
}

func (b *Builder) Lt(x, y *Term) *Term {
	if x == y {
		return b.False
	}
	if x.Hi != nil && y.Lo != nil && x.Hi.Cmp(y.Lo) < 0 {
		return b.True
	}
	if x.Lo != nil && y.Hi != nil && x.Lo.Cmp(y.Hi) >= 0 {
		return b.False
	}
	return b.intern(&Term{Op: OpLt, Sort: SBool, Args: []*Term{x, y}})
}

func (b *Builder) Le(x, y *Term) *Term {
	if x == y {
		return b.True
	}
	if x.Hi != nil && y.Lo != nil && x.Hi.Cmp(y.Lo) <= 0 {
		return b.True
	}
	if x.Lo != nil && y.Hi != nil && x.Lo.Cmp(y.Hi) > 0 {
		return b.False
	}
	return b.intern(&Term{Op: OpLe, Sort: SBool, Args: []*Term{x, y}})
}

func (b *Builder) Gt(x, y *Term) *Term { return b.Lt(y, x) }
func (b *Builder) Ge(x, y *Term) *Term { return b.Le(y, x) }
func (b *Builder) Ne(x, y *Term) *Term { return b.Not(b.Eq(x, y)) }

func (b *Builder) Not(x *Term) *Term {
	if c, ok := x.ConstBool(); ok {
		return b.Bool(!c)
	}
	if x.Op == OpNot {
		return x.Args[0]
	}
	return b.intern(&Term{Op: OpNot, Sort: SBool, Args: []*Term{x}})
}

func (b *Builder) And(xs ...*Term) *Term {
	var out []*Term
	seen := map[int]bool{}
	for _, x := range xs {
		if c, ok := x.ConstBool(); ok {
			if !c {
				return b.False
			}
			continue
		}
		if x.Op == OpAnd {
			for _, a := range x.Args {
				if !seen[a.ID] {
					seen[a.ID] = true
					out = append(out, a)
				}
			}
			continue
		}
		if !seen[x.ID] {
			seen[x.ID] = true
			out = append(out, x)
		}
	}
	for _, x := range out {
		if x.Op == OpNot && seen[x.Args[0].ID] {
			return b.False
		}
	}
	switch len(out) {
	case 0:
		return b.True
	case 1:
		return out[0]
	}
	sort.Slice(out, func(i, j int) bool { return out[i].ID < out[j].ID })
	return b.intern(&Term{Op: OpAnd, Sort: SBool, Args: out})
}

func (b *Builder) Or(xs ...*Term) *Term {
	var out []*Term
	seen := map[int]bool{}
	for _, x := range xs {
		if c, ok := x.ConstBool(); ok {
			if c {
				return b.True
			}
			continue
		}
		if x.Op == OpOr {
			for _, a := range x.Args {
				if !seen[a.ID] {
					seen[a.ID] = true
					out = append(out, a)
				}
			}
			continue
		}
		if !seen[x.ID] {
			seen[x.ID] = true
			out = append(out, x)
		}
	}
	for _, x := range out {
		if x.Op == OpNot && seen[x.Args[0].ID] {
			return b.True
		}
	}
	switch len(out) {
	case 0:
		return b.False
	case 1:
		return out[0]
	}
	sort.Slice(out, func(i, j int) bool { return out[i].ID < out[j].ID })
	return b.intern(&Term{Op: OpOr, Sort: SBool, Args: out})
}

func (b *Builder) Implies(x, y *Term) *Term { return b.Or(b.Not(x), y) }

func (b *Builder) Ite(c, x, y *Term) *Term {
	if cc, ok := c.ConstBool(); ok {
		if cc {
			return x
		}
		return y
	}
	if x == y {
		return x
	}
	if x.Sort != y.Sort {
		panic("smt.Ite: sort mismatch")
	}
	if x.Sort == SBool {
		if cx, ok := x.ConstBool(); ok {
			if cx {
				return b.Or(c, y)
			}
			return b.And(b.Not(c), y)
		}
		if cy, ok := y.ConstBool(); ok {
			if cy {
				return b.Or(b.Not(c), x)
			}
			return b.And(c, x)
		}
	}
	t := &Term{Op: OpIte, Sort: x.Sort, Args: []*Term{c, x, y}}
	if x.Sort == SInt {
		t.Lo, t.Hi = minB(x.Lo, y.Lo), maxB(x.Hi, y.Hi)
	}
	return b.intern(t)
}

// FPConst is a float64 literal given by its IEEE bits.
func (b *Builder) FPConst(bits uint64) *Term {
	return b.intern(&Term{Op: OpConst, Sort: SFP, Name: fmt.Sprintf("((_ to_fp 11 53) #x%016x)", bits), Int: new(big.Int).SetUint64(bits)})
}

// Raw builds an uninterpreted/raw SMT application, e.g. Raw(SFP, "fp.abs", x).
func (b *Builder) Raw(s Sort, head string, args ...*Term) *Term {
	return b.intern(&Term{Op: OpRaw, Sort: s, Name: head, Args: args})
}

// RawRange is Raw for Int results with known bounds.
func (b *Builder) RawRange(head string, lo, hi *big.Int, args ...*Term) *Term {
	return b.intern(&Term{Op: OpRaw, Sort: SInt, Name: head, Args: args, Lo: lo, Hi: hi})
}

var two = big.NewInt(2)

func Pow2(k uint) *big.Int { return new(big.Int).Lsh(big.NewInt(1), k) }

// Wrap reduces x to the range of a k-bit integer (two's complement if signed).
func (b *Builder) Wrap(x *Term, bits uint, signed bool) *Term {
	m := Pow2(bits)
	var lo, hi *big.Int
	if signed {
		lo = new(big.Int).Neg(Pow2(bits - 1))
		hi = new(big.Int).Sub(Pow2(bits-1), big.NewInt(1))
	} else {
		lo = big.NewInt(0)
		hi = new(big.Int).Sub(m, big.NewInt(1))
	}
	if x.Lo != nil && x.Hi != nil && x.Lo.Cmp(lo) >= 0 && x.Hi.Cmp(hi) <= 0 {
		return x
	}
	if signed {
		h := Pow2(bits - 1)
		return b.Sub(b.Mod(b.Add(x, b.Int(h)), b.Int(m)), b.Int(h))
	}
	return b.Mod(x, b.Int(m))
}

// ---- printing ----

func intLit(v *big.Int) string {
	if v.Sign() < 0 {
		return "(- " + new(big.Int).Neg(v).String() + ")"
	}
	return v.String()
}

// Printer emits each non-leaf term once as a define-fun (global declarations must be on).
type Printer struct {
	defined map[int]bool
}

func NewPrinter() *Printer { return &Printer{defined: map[int]bool{}} }

func (p *Printer) ref(t *Term) string {
	switch t.Op {
	case OpVar:
		return "|" + t.Name + "|"
	case OpConst:
		switch t.Sort {
		case SBool:
			if t.B {
				return "true"
			}
			return "false"
		case SInt:
			return intLit(t.Int)
		default:
			return t.Name
		}
	}
	return fmt.Sprintf("t%d", t.ID)
}

var opName = map[Op]string{
	OpAdd: "+", OpSub: "-", OpMul: "*", OpNeg: "-", OpDiv: "div", OpMod: "mod",
	OpTDiv: "tdiv", OpTRem: "trem", OpEq: "=", OpLt: "<", OpLe: "<=", OpNot: "not",
	OpAnd: "and", OpOr: "or", OpIte: "ite",
}

// Define returns the SMT-LIB commands that must precede any use of t, and t's reference.
func (p *Printer) Define(t *Term, out *strings.Builder) string {
	p.define(t, out)
	return p.ref(t)
}

func (p *Printer) define(t *Term, out *strings.Builder) {
	if t.Op == OpConst || p.defined[t.ID] {
		return
	}
	// iterative post-order to avoid deep recursion
	type fr struct {
		t *Term
		i int
	}
	stack := []fr{{t, 0}}
	for len(stack) > 0 {
		top := &stack[len(stack)-1]
		if top.t.Op == OpConst || p.defined[top.t.ID] {
			stack = stack[:len(stack)-1]
			continue
		}
		if top.i < len(top.t.Args) {
			a := top.t.Args[top.i]
			top.i++
			if a.Op != OpConst && !p.defined[a.ID] {
				stack = append(stack, fr{a, 0})
			}
			continue
		}
		x := top.t
		stack = stack[:len(stack)-1]
		p.defined[x.ID] = true
		if x.Op == OpVar {
			fmt.Fprintf(out, "(declare-const |%s| %s)\n", x.Name, x.Sort)
			continue
		}
		head := opName[x.Op]
		if x.Op == OpRaw {
			head = x.Name
		}
		if len(x.Args) == 0 {
			fmt.Fprintf(out, "(define-fun t%d () %s %s)\n", x.ID, x.Sort, head)
			continue
		}
		fmt.Fprintf(out, "(define-fun t%d () %s (%s", x.ID, x.Sort, head)
		for _, a := range x.Args {
			out.WriteByte(' ')
			out.WriteString(p.ref(a))
		}
		out.WriteString("))\n")
	}
}

// Prelude defines tdiv/trem and fpparts (a float64 from sign, biased exponent and 52-bit fraction given as Ints).
const Prelude = `(define-fun tdiv ((a Int) (b Int)) Int (ite (>= a 0) (ite (> b 0) (div a b) (- (div a (- b)))) (ite (> b 0) (- (div (- a) b)) (div (- a) (- b)))))
(define-fun trem ((a Int) (b Int)) Int (- a (* b (tdiv a b))))
(define-fun fpparts ((neg Bool) (be Int) (mant Int)) (_ FloatingPoint 11 53) (fp (ite neg #b1 #b0) ((_ int2bv 11) be) ((_ int2bv 52) mant)))
`

// String renders a term as a readable expression (for diagnostics only).
func (t *Term) String() string {
	switch t.Op {
	case OpVar:
		return t.Name
	case OpConst:
		if t.Sort == SBool {
			return fmt.Sprint(t.B)
		}
		if t.Sort == SInt {
			return t.Int.String()
		}
		return t.Name
	}
	h := opName[t.Op]
	if t.Op == OpRaw {
		h = t.Name
	}
	parts := []string{h}
	for _, a := range t.Args {
		s := a.String()
		if len(s) > 200 {
			s = s[:200] + "…"
		}
		parts = append(parts, s)
	}
	return "(" + strings.Join(parts, " ") + ")"
}

// Eval evaluates a term under an assignment of variables (ints as big.Int, bools as bool).
// Raw ops are not evaluable and return ok=false.
func Eval(t *Term, env map[string]interface{}) (interface{}, bool) {
	memo := map[int]interface{}{}
	var ev func(t *Term) (interface{}, bool)
	ev = func(t *Term) (interface{}, bool) {
		if v, ok := memo[t.ID]; ok {
			return v, true
		}
		var r interface{}
		switch t.Op {
		case OpConst:
			if t.Sort == SBool {
				r = t.B
			} else if t.Sort == SInt {
				r = t.Int
			} else {
				return nil, false
			}
		case OpVar:
			v, ok := env[t.Name]
			if !ok {
				return nil, false
			}
			r = v
		case OpRaw:
			return nil, false
		default:
			vs := make([]interface{}, len(t.Args))
			if t.Op == OpIte {
				c, ok := ev(t.Args[0])
				if !ok {
					return nil, false
				}
				if c.(bool) {
					return ev(t.Args[1])
				}
				return ev(t.Args[2])
			}
			for i, a := range t.Args {
				v, ok := ev(a)
				if !ok {
					return nil, false
				}
				vs[i] = v
			}
			bi := func(i int) *big.Int { return vs[i].(*big.Int) }
			switch t.Op {
			case OpAdd:
				r = new(big.Int).Add(bi(0), bi(1))
			case OpSub:
				r = new(big.Int).Sub(bi(0), bi(1))
			case OpMul:
				r = new(big.Int).Mul(bi(0), bi(1))
			case OpNeg:
				r = new(big.Int).Neg(bi(0))
			case OpDiv:
				if bi(1).Sign() == 0 {
					return nil, false
				}
				q, _ := smtDivMod(bi(0), bi(1))
				r = q
			case OpMod:
				if bi(1).Sign() == 0 {
					return nil, false
				}
				_, m := smtDivMod(bi(0), bi(1))
				r = m
			case OpTDiv:
				if bi(1).Sign() == 0 {
					return nil, false
				}
				r = new(big.Int).Quo(bi(0), bi(1))
			case OpTRem:
				if bi(1).Sign() == 0 {
					return nil, false
				}
				r = new(big.Int).Rem(bi(0), bi(1))
			case OpEq:
				switch a := vs[0].(type) {
				case bool:
					r = a == vs[1].(bool)
				case *big.Int:
					r = a.Cmp(bi(1)) == 0
				}
			case OpLt:
				r = bi(0).Cmp(bi(1)) < 0
			case OpLe:
				r = bi(0).Cmp(bi(1)) <= 0
			case OpNot:
				r = !vs[0].(bool)
			case OpAnd:
				x := true
				for _, v := range vs {
					x = x && v.(bool)
				}
				r = x
			case OpOr:
				x := false
				for _, v := range vs {
					x = x || v.(bool)
				}
				r = x
			}
		}
		memo[t.ID] = r
		return r, true
	}
	return ev(t)
}
